(* C11 -- deprecated-policy merging follows the documented override table.
   The guards of _handle_deprecated_rule are the GENERATED tree deprecated_tree. *)
From Coq Require Import String List Bool NArith.
From OP Require Import Base.Str Base.Check Base.ParserTypes Base.Res Base.Json
                       Model.Leaf Model.Eval Model.Load Spec.Layering Proofs.LayeringProofs.
Import ListNotations.

(* for a name no file defines: an override under the old, renamed name governs unless it is merely
   rule:<new name>; otherwise the new default, OR-ed with the old one only when enforce_new_defaults
   is off and the two check strings differ *)
Theorem C11_table (cf : lconf) (st : est) (d : rdef) (dp : deprec) :
  assoc (rd_name d) (e_file_rules st) = None ->
  handle_deprecated cf st d dp = spec_deprecated cf (fun n => assoc n (e_file_rules st)) d dp.
Proof. exact (handle_deprecated_spec cf st d dp). Qed.
Print Assumptions C11_table.

(* placed in the load: an operator override under the new name always governs (spec_rule looks at
   file definitions first), and the table above is applied with exactly the file definitions *)
Theorem C11_in_load (cf : lconf) (fs : fsys) (n : str) :
  c_overwrite cf = true -> regs_nodup cf -> mtimes_pos fs ->
  assoc n (e_rules (load_rules cf init_state fs false)) = spec_rule cf fs n.
Proof. exact (fresh_load_spec_pos cf fs n). Qed.
Print Assumptions C11_in_load.

(* nothing else about the deprecated rule influences the decision: the table depends on the state
   only through the file definition under the old name *)
Theorem C11_nothing_else (cf : lconf) (st st' : est) (d : rdef) (dp : deprec) :
  assoc (rd_name d) (e_file_rules st) = None -> assoc (rd_name d) (e_file_rules st') = None ->
  assoc (dp_name dp) (e_file_rules st) = assoc (dp_name dp) (e_file_rules st') ->
  handle_deprecated cf st d dp = handle_deprecated cf st' d dp.
Proof.
  intros H1 H2 H3. rewrite (handle_deprecated_spec cf st d dp H1), (handle_deprecated_spec cf st' d dp H2).
  unfold spec_deprecated. now rewrite H3.
Qed.
Print Assumptions C11_nothing_else.
