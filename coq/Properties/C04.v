(* C04 -- role:X passes exactly when the credentials hold role X, ignoring case.
   Case folding is Python's str.lower(), modelled code point by code point from the table
   regenerated from the running interpreter (context-sensitive final sigma is outside the model). *)
From Coq Require Import String List Bool NArith.
From OP Require Import Base.Str Base.Res Base.Json Model.Tokenize Model.Eval
                       Spec.Template Spec.LeafSpec Proofs.LeafProofs Proofs.LeafSpecProofs.
Import ListNotations.

Theorem C04_iff (m : str) (tgt creds : jv) (rs : list str) :
  jhas creds roles_key = true -> jget creds roles_key = JList (map JStr rs) ->
  (role_check m tgt creds = Ok true <->
   exists x r, subst m tgt = Ok x /\ In r rs /\ lower r = lower x).
Proof. exact (role_check_iff m tgt creds rs). Qed.
Print Assumptions C04_iff.

(* "after filling %(key)s placeholders from the target": substitution on a well-formed template
   is exactly hole filling, and a missing key is a KeyError *)
Theorem C04_template (ps : list part) (tgt : jv) :
  forallb wf_part ps = true -> subst (tpl_text ps) tgt = fill ps tgt.
Proof. exact (subst_template ps tgt). Qed.
Print Assumptions C04_template.

Theorem C04_denies_missing_key (m : str) (tgt creds : jv) :
  subst m tgt = Raise EKeyError -> role_check m tgt creds = Ok false.
Proof. exact (role_check_missing_key m tgt creds). Qed.
Print Assumptions C04_denies_missing_key.

Theorem C04_denies_no_roles (m : str) (tgt creds : jv) :
  jhas creds roles_key = false -> (exists x, subst m tgt = Ok x) ->
  role_check m tgt creds = Ok false.
Proof. exact (role_check_no_roles m tgt creds). Qed.
Print Assumptions C04_denies_no_roles.

(* the executable oracle used by the harness is this statement *)
Theorem C04_oracle (ps : list part) (tgt creds : jv) (rs : list str) (x : str) :
  fill ps tgt = Ok x -> jhas creds roles_key = true -> jget creds roles_key = JList (map JStr rs) ->
  (spec_role ps tgt creds = true <-> exists r, In r rs /\ lower r = lower x).
Proof. exact (spec_role_iff ps tgt creds rs x). Qed.
Print Assumptions C04_oracle.

Example ex_C04 :
  role_check (s "Adm%(k)s") (JDict [(s "k", JStr (s "IN"))])
             (JDict [(s "roles", JList [JStr (s "x"); JStr (s "aDMin")])]) = Ok true /\
  role_check (s "%(missing)s") (JDict []) (JDict [(s "roles", JList [JStr (s "x")])]) = Ok false.
Proof. vm_compute. split; reflexivity. Qed.
