(* C16 -- a remote http(s) check allows only on an explicit True from the server. *)
From Coq Require Import String List Bool NArith.
From OP Require Import Base.Str Base.Check Base.ParserTypes Base.Res Base.Json
                       Model.Leaf Model.Tokenize Model.Eval Model.Trace Model.Http
                       Proofs.LeafProofs Proofs.HttpProofs Proofs.TraceProofs.
Import ListNotations.

(* the body, ignoring surrounding double quotes, must be exactly True *)
Theorem C16_accept_iff (b : str) :
  accept b = true <-> exists i j, b = repeat dq i ++ s "True" ++ repeat dq j.
Proof. exact (accept_iff b). Qed.
Print Assumptions C16_accept_iff.

Theorem C16_only_reply_allows (w : world) (k m : str) (cur : option str) :
  http_check w k m cur = Ok true ->
  exists url body, subst (k ++ [colon] ++ m) (w_target w) = Ok url /\
                   w_http w url (cur_text cur) = HReply body /\ accept body = true.
Proof. exact (@only_reply_allows w k m cur). Qed.
Print Assumptions C16_only_reply_allows.

Theorem C16_reply_decides (w : world) (k m : str) (cur : option str) (url body : str) :
  subst (k ++ [colon] ++ m) (w_target w) = Ok url -> w_http w url (cur_text cur) = HReply body ->
  http_check w k m cur = Ok (accept body).
Proof. exact (@reply_decides w k m cur url body). Qed.
Print Assumptions C16_reply_decides.

(* a timeout or transport failure raises rather than allowing *)
Theorem C16_timeout_raises (w : world) (k m : str) (cur : option str) (url : str) :
  subst (k ++ [colon] ++ m) (w_target w) = Ok url -> w_http w url (cur_text cur) = HTimeout ->
  http_check w k m cur = Raise ERuntimeError.
Proof. exact (@timeout_raises w k m cur url). Qed.
Print Assumptions C16_timeout_raises.
Theorem C16_fault_raises (w : world) (k m : str) (cur : option str) (url : str) (e : exn) :
  subst (k ++ [colon] ++ m) (w_target w) = Ok url -> w_http w url (cur_text cur) = HFault e ->
  http_check w k m cur = Raise e.
Proof. exact (@fault_raises w k m cur url e). Qed.
Print Assumptions C16_fault_raises.

(* the request carries the enforced policy name -- at any depth of an expression, through any
   chain of references -- the complete target and the credentials *)
Theorem C16_request_names_enforced_policy (f : nat) (w : world) (cur : option str) (c : check) :
  Forall (event_cur_ok cur) (snd (eval_tr f w cur c)).
Proof. exact (trace_cur f w cur c). Qed.
Print Assumptions C16_request_names_enforced_policy.

Theorem C16_payload (form : bool) (cur : option str) (tgt creds : jv) :
  construct_payload form cur tgt creds =
  (if form then PForm else PJson)
    (match cur with Some n => JStr n | None => JNull end) (blank_target tgt) creds.
Proof. exact (payload_fields form cur tgt creds). Qed.
Print Assumptions C16_payload.

Theorem C16_target_complete (kvs : list (str * jv)) (k : str) (v : jv) :
  In (k, v) kvs ->
  In (k, match v with JObj _ => JDict [] | _ => v end)
     (match blank_target (JDict kvs) with JDict l => l | _ => [] end).
Proof. exact (@blank_target_value kvs k v). Qed.
Print Assumptions C16_target_complete.

Example ex_C16 :
  accept (s """True""") = true /\ accept (s "True") = true /\ accept (s "true") = false /\
  accept (s " True") = false /\ accept (s "TRUE") = false /\ accept [] = false /\
  accept (s """""") = false /\ accept (s "Tr""ue") = false.
Proof. vm_compute. repeat split; reflexivity. Qed.

(* the reply test and the Timeout conversion have the shape the model follows: read off
   _external.py on this run *)
From OP Require Import Gen.GChecks.
Theorem C16_reply_test_shape : reply_test_known = true.
Proof. reflexivity. Qed.
Print Assumptions C16_reply_test_shape.
