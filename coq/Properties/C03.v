(* C03 -- unknown policy names fail closed; the default rule is the only fallback.
   Rules.__missing__ is the GENERATED decision tree missing_tree; these statements are re-proved
   against it on every run. *)
From Coq Require Import String List Bool NArith.
From OP Require Import Base.Str Base.Check Base.ParserTypes Base.Res Base.Json
                       Model.Leaf Model.Eval Model.Enforce
                       Proofs.LookupProofs Proofs.EnforceProofs.
Import ListNotations.

(* the rule store's lookup is exactly the documented table, for every rule set, every way of
   configuring the default rule, every name *)
Theorem C03_lookup_table (rs : store) (d : drule) (n : str) :
  lookup rs d n = spec_lookup rs d n.
Proof. exact (lookup_spec rs d n). Qed.
Print Assumptions C03_lookup_table.

(* no usable definition: deny, not an error *)
Theorem C03_unknown_denies (x : ectx) (creds : jv) (n : str) (exc : excarg) :
  spec_lookup (w_rules (e_world x)) (w_default (e_world x)) n = None ->
  enforce x (CMapping creds) (RName n) false exc = Ok false.
Proof. exact (unknown_denies x creds n exc). Qed.
Print Assumptions C03_unknown_denies.

(* an empty rule set denies everything, before any lookup *)
Theorem C03_empty_denies (x : ectx) (creds : jv) (n : str) (exc : excarg) :
  w_rules (e_world x) = [] -> enforce x (CMapping creds) (RName n) false exc = Ok false.
Proof. exact (empty_denies x creds n exc). Qed.
Print Assumptions C03_empty_denies.

(* a defined name is decided by its own definition (the default rule plays no part), and an
   undefined one by the default rule's check, evaluated under the enforced name *)
Theorem C03_resolved_decides (x : ectx) (creds : jv) (n : str) (c : check) (exc : excarg) :
  spec_lookup (w_rules (e_world x)) (w_default (e_world x)) n = Some c ->
  w_rules (e_world x) <> [] -> types_of x n = [] ->
  enforce x (CMapping creds) (RName n) false exc =
  eval (fuel_for (w_rules (e_world x))) (world_of x creds) (Some n) c.
Proof. exact (@resolved_decides x creds n c exc). Qed.
Print Assumptions C03_resolved_decides.

Theorem C03_defined_wins (rs : store) (d : drule) (n : str) (c : check) :
  assoc n rs = Some c -> lookup rs d n = Some c.
Proof. exact (@lookup_defined rs d n c). Qed.
Print Assumptions C03_defined_wins.

Example ex_C03 :
  let rs := [(s "a", CLeaf LTrue); (s "default", CLeaf LFalse)] in
  lookup rs (DName (s "default")) (s "zz") = Some (CLeaf LFalse) /\
  lookup rs (DName (s "nodefault")) (s "zz") = None /\
  lookup rs DNone (s "zz") = None /\ lookup rs DDict (s "zz") = None /\
  lookup rs (DCheck (CLeaf LTrue)) (s "zz") = Some (CLeaf LTrue) /\
  lookup rs (DName (s "default")) (s "a") = Some (CLeaf LTrue).
Proof. vm_compute. repeat split; reflexivity. Qed.
