(* C07 -- enforce either returns the decision or raises the requested exception.
   The decision part of Enforcer.enforce and authorize are GENERATED decision trees; the bridge
   theorems state that the model used below *is* those trees. *)
From Coq Require Import String List Bool NArith.
From OP Require Import Base.Str Base.Check Base.ParserTypes Base.Res Base.Json Base.DTree Gen.GPolicy
                       Model.Leaf Model.Eval Model.Enforce Bridge.EnforceBridge Proofs.ModesProofs.
Import ListNotations.

Theorem C07_bridge_enforce (x : ectx) (creds0 : jv) (r : rulearg) (do_raise : bool) (exc : excarg) :
  enforce x (CMapping creds0) r do_raise exc
  = let a := atoms_of x (mirror creds0) r do_raise exc in
    interp a (run (atoms_env a) enforce_tree).
Proof. exact (enforce_is_tree x creds0 r do_raise exc). Qed.
Print Assumptions C07_bridge_enforce.

(* do_raise off returns a falsy value exactly when do_raise on raises *)
Theorem C07_modes (x : ectx) (creds0 : jv) (r : rulearg) (exc : excarg) (b : bool) :
  enforce x (CMapping creds0) r false exc = Ok b ->
  (b = false <-> exists e, enforce x (CMapping creds0) r true exc = Raise e).
Proof. exact (@modes_agree x creds0 r exc b). Qed.
Print Assumptions C07_modes.

(* a denial raises the caller's class (or PolicyNotAuthorized), a scope mismatch InvalidScope *)
Theorem C07_exception_shape (x : ectx) (creds0 : jv) (r : rulearg) (exc : excarg) :
  enforce x (CMapping creds0) r false exc = Ok false ->
  enforce x (CMapping creds0) r true exc = Raise (exn_of exc) \/
  enforce x (CMapping creds0) r true exc = Raise EInvalidScope.
Proof. exact (@exception_shape x creds0 r exc). Qed.
Print Assumptions C07_exception_shape.

Theorem C07_allowed_never_raises (x : ectx) (creds0 : jv) (r : rulearg) (exc : excarg) :
  enforce x (CMapping creds0) r false exc = Ok true -> enforce x (CMapping creds0) r true exc = Ok true.
Proof. exact (@allowed_never_raises x creds0 r exc). Qed.
Print Assumptions C07_allowed_never_raises.

Theorem C07_no_falsy_under_do_raise (x : ectx) (creds0 : jv) (r : rulearg) (exc : excarg) :
  enforce x (CMapping creds0) r true exc <> Ok false.
Proof. exact (@no_falsy_under_do_raise x creds0 r exc). Qed.
Print Assumptions C07_no_falsy_under_do_raise.

Theorem C07_evaluation_error_same (x : ectx) (creds0 : jv) (r : rulearg) (exc : excarg) (e : exn) :
  enforce x (CMapping creds0) r false exc = Raise e -> enforce x (CMapping creds0) r true exc = Raise e.
Proof. exact (@evaluation_error_same x creds0 r exc e). Qed.
Print Assumptions C07_evaluation_error_same.

(* authorize: identical for registered names; PolicyNotRegistered, evaluating nothing, otherwise *)
Theorem C07_authorize_registered (x : ectx) (ca : credarg) (n : str) (dr : bool) (exc : excarg) (t : list str) :
  assoc n (e_registered x) = Some t -> authorize x ca n dr exc = enforce x ca (RName n) dr exc.
Proof. exact (@authorize_registered x ca n dr exc t). Qed.
Print Assumptions C07_authorize_registered.
Theorem C07_authorize_unregistered (x : ectx) (ca : credarg) (n : str) (dr : bool) (exc : excarg) :
  assoc n (e_registered x) = None -> authorize x ca n dr exc = Raise EPolicyNotRegistered.
Proof. exact (@authorize_unregistered x ca n dr exc). Qed.
Print Assumptions C07_authorize_unregistered.
Theorem C07_bridge_authorize (x : ectx) (ca : credarg) (n : str) (dr : bool) (exc : excarg) :
  authorize x ca n dr exc =
  match run (fun a => match a with
                      | 0%N => Some (match assoc n (e_registered x) with Some _ => true | None => false end)
                      | _ => None end) authorize_tree with
  | ORaise 0 => Raise EPolicyNotRegistered
  | ORet 0 => enforce x ca (RName n) dr exc
  | _ => Raise (EOther 94)
  end.
Proof. exact (authorize_is_tree x ca n dr exc). Qed.
Print Assumptions C07_bridge_authorize.

Theorem C07_not_mapping (x : ectx) (r : rulearg) (dr : bool) (exc : excarg) :
  enforce x CNotMapping r dr exc = Raise EInvalidContextObject.
Proof. exact (not_mapping_rejected x r dr exc). Qed.
Print Assumptions C07_not_mapping.
