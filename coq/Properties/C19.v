(* C19 -- oslopolicy-checker reports what the library would decide. *)
From Coq Require Import String List Bool NArith.
From OP Require Import Base.Str Base.Check Base.ParserTypes Base.Res Base.Json
                       Model.Leaf Model.Eval Model.Enforce Model.Load Model.Checker
                       Proofs.CheckerProofs.
Import ListNotations.

(* For credentials in which 'system' mirrors 'system_scope' (which is what the tool derives from
   the token since the F9 repair), the verdict for a requested rule is the library's decision:
   passed exactly when enforce allows, failed exactly when it denies (including an unknown rule
   without a usable default). *)
Theorem C19_requested (w : world) (kvs : list (str * jv)) (key : str) :
  w_default w = default_name -> w_creds w = JDict kvs ->
  (truthy (jget (JDict kvs) (s "system_scope")) = true ->
   assoc (s "system") kvs = Some (jget (JDict kvs) (s "system_scope"))) ->
  requested w key = verdict_of (enforce (lib w) (CMapping (JDict kvs)) (RName key) false XDefault)
  \/ w_rules w = [].
Proof. intros Hd Hc Hs. exact (@requested_is_library w Hd kvs Hc Hs key). Qed.
Print Assumptions C19_requested.

(* the listing: one verdict per stored name containing a colon, in sorted order *)
Theorem C19_listing (w : world) :
  listing w = map (fun p => (fst p, try_rule w (fst p) (snd p)))
                  (filter (fun p => has_colon (fst p)) (sort_by_name (w_rules w))).
Proof. exact (listing_shape w). Qed.
Print Assumptions C19_listing.

(* and each listed verdict is the library's decision for that name *)
Theorem C19_listed (w : world) (kvs : list (str * jv)) (key : str) (c : check) :
  w_default w = default_name -> w_creds w = JDict kvs ->
  (truthy (jget (JDict kvs) (s "system_scope")) = true ->
   assoc (s "system") kvs = Some (jget (JDict kvs) (s "system_scope"))) ->
  w_rules w <> [] -> lookup (w_rules w) (w_default w) key = Some c ->
  try_rule w key c = verdict_of (enforce (lib w) (CMapping (JDict kvs)) (RName key) false XDefault).
Proof. intros Hd Hc Hs. exact (@listed_is_library w Hd kvs Hc Hs key c). Qed.
Print Assumptions C19_listed.
