(* C08 -- scope types gate a policy independently of its check string.
   _enforce_scope is the GENERATED decision tree scope_tree. *)
From Coq Require Import String List Bool NArith.
From OP Require Import Base.Str Base.Check Base.ParserTypes Base.Res Base.Json
                       Model.Leaf Model.Eval Model.Enforce Proofs.ScopeProofs.
Import ListNotations.

(* the gate is exactly the documented table, for EVERY list of scope-type strings *)
Theorem C08_gate_table (creds : jv) (types : list str) (es dr : bool) :
  scope_gate creds types es dr = spec_gate creds types es dr.
Proof. exact (scope_gate_spec creds types es dr). Qed.
Print Assumptions C08_gate_table.

(* mismatch => denied, whatever the check string, a policy-file override or the roles say *)
Theorem C08_gate_denies_name (x : ectx) (creds0 : jv) (exc : excarg) (n : str) (c : check)
        (types : list str) (dr : bool) :
  w_rules (e_world x) <> [] ->
  lookup (w_rules (e_world x)) (w_default (e_world x)) n = Some c ->
  assoc n (e_registered x) = Some types -> types <> [] ->
  e_enforce_scope x = true -> mem_str (token_scope (mirror creds0)) types = false ->
  enforce x (CMapping creds0) (RName n) dr exc = if dr then Raise EInvalidScope else Ok false.
Proof. exact (@gate_denies_name x creds0 exc n c types dr). Qed.
Print Assumptions C08_gate_denies_name.

Theorem C08_gate_denies_obj (x : ectx) (creds0 : jv) (exc : excarg) (c : check)
        (types : list str) (dr : bool) :
  types <> [] -> e_enforce_scope x = true -> mem_str (token_scope (mirror creds0)) types = false ->
  enforce x (CMapping creds0) (RObj c types) dr exc = if dr then Raise EInvalidScope else Ok false.
Proof. exact (@gate_denies_obj x creds0 exc c types dr). Qed.
Print Assumptions C08_gate_denies_obj.

(* match / enforcement off / no scope types => the decision is exactly that of the check *)
Theorem C08_transparent_name (x : ectx) (creds0 : jv) (exc : excarg) (n : str) (dr : bool) :
  (match assoc n (e_registered x) with
   | Some types => types = [] \/ e_enforce_scope x = false \/
                   mem_str (token_scope (mirror creds0)) types = true
   | None => True end) ->
  enforce x (CMapping creds0) (RName n) dr exc = enforce (no_scopes x) (CMapping creds0) (RName n) dr exc.
Proof. exact (@gate_transparent_name x creds0 exc n dr). Qed.
Print Assumptions C08_transparent_name.

Theorem C08_transparent_obj (x : ectx) (creds0 : jv) (exc : excarg) (c : check) (types : list str) (dr : bool) :
  types = [] \/ e_enforce_scope x = false \/ mem_str (token_scope (mirror creds0)) types = true ->
  enforce x (CMapping creds0) (RObj c types) dr exc = enforce x (CMapping creds0) (RObj c []) dr exc.
Proof. exact (@gate_transparent_obj x creds0 exc c types dr). Qed.
Print Assumptions C08_transparent_obj.

(* system_scope is mirrored into system, and system wins over domain over project *)
Theorem C08_system_scope_mirrored (kvs : list (str * jv)) :
  truthy (jget (JDict kvs) (s "system_scope")) = true -> token_scope (mirror (JDict kvs)) = s "system".
Proof. exact (@mirror_system kvs). Qed.
Print Assumptions C08_system_scope_mirrored.

Example ex_C08 :
  token_scope (JDict [(s "domain_id", JStr (s "d")); (s "project_id", JStr (s "p"))]) = s "domain" /\
  token_scope (JDict [(s "system", JStr (s "all")); (s "domain_id", JStr (s "d"))]) = s "system" /\
  token_scope (JDict [(s "project_id", JStr (s "p"))]) = s "project" /\
  scope_gate (JDict [(s "project_id", JStr (s "p"))]) [s "system"; s "domain"] true false = Ok false /\
  scope_gate (JDict [(s "project_id", JStr (s "p"))]) [s "system"; s "project"] true true = Ok true.
Proof. vm_compute. repeat split; reflexivity. Qed.
