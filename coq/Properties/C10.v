(* C10 -- a long-lived enforcer always decides as a freshly started one would. *)
From Coq Require Import String List Bool NArith.
From OP Require Import Base.Str Base.Check Base.ParserTypes Base.Res Base.Json
                       Model.Leaf Model.Eval Model.Load Spec.Layering Proofs.ReloadProofs.
Import ListNotations.

(* After ANY history of file-system changes and loads -- any length -- in which every change stamps
   the changed file later than everything before (creating/removing an entry stamps its directory)
   and no configured directory is removed, the long-lived enforcer (default overwrite mode) holds
   exactly the rules and file rules that a freshly started enforcer computes from the current
   files: no removed override survives, no registered default is lost, directory overrides are
   re-applied whenever the main file changes, and a deleted main file counts as empty. *)
Theorem C10_long_lived_is_fresh (cf : lconf) (fs0 : fsys) (c0 : N) (h : list (fsys * N)) :
  c_overwrite cf = true -> stamps_ok fs0 c0 -> history fs0 c0 h ->
  let s := run cf (load_rules cf init_state fs0 false) h in
  let fresh := load_rules cf init_state (last_fs fs0 h) false in
  e_rules s = e_rules fresh /\ e_file_rules s = e_file_rules fresh.
Proof. exact (@long_lived_is_fresh_eq cf fs0 c0 h). Qed.
Print Assumptions C10_long_lived_is_fresh.

(* the one-step invariant behind it *)
Theorem C10_step_invariant (cf : lconf) (s : est) (fs : fsys) (c : N) (fs' : fsys) (c' : N) :
  c_overwrite cf = true ->
  Inv cf s fs c -> evolves c fs fs' -> (c <= c')%N -> stamps_ok fs' c' ->
  Inv cf (load_rules cf s fs' false) fs' c'.
Proof. exact (@step_inv cf s fs c fs' c'). Qed.
Print Assumptions C10_step_invariant.

(* non-vacuity: a three-step history (edit main, delete main, re-create main) meets the
   hypotheses, and the deleted-main step yields the directory override plus nothing else *)
Example ex_C10 :
  let f m ct := {| pf_mtime := m; pf_content := ct |} in
  let d := Some {| pd_mtime := 2%N; pd_entries := [(s "o.yaml", EFile (f 2%N [(s "b", JStr (s "role:dir"))]))] |} in
  let fs0 := {| fs_main := Some (f 1%N [(s "a", JStr (s "role:one"))]); fs_dirs := [d] |} in
  let fs1 := {| fs_main := Some (f 5%N [(s "a", JStr (s "role:two"))]); fs_dirs := [d] |} in
  let fs2 := {| fs_main := None; fs_dirs := [d] |} in
  let cf := {| c_enforce_new_defaults := true; c_overwrite := true; c_registered := [] |} in
  map (fun p => (fst p, Print.print (snd p)))
      (e_rules (run cf (load_rules cf init_state fs0 false) [(fs1, 5%N); (fs2, 6%N)]))
  = [(s "b", s "role:dir")].
Proof. vm_compute. reflexivity. Qed.

(* the change detectors have the shape the model follows (strict mtime comparisons; newest stamp
   over the directory and all its entries; a missing file reads as empty): read off the source *)
From OP Require Import Gen.GPolicy.
Theorem C10_detector_shapes : dir_updated_shape_known = true /\ read_cached_shape_known = true.
Proof. split; reflexivity. Qed.
Print Assumptions C10_detector_shapes.
