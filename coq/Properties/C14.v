(* C14 -- evaluating a rule never crashes; what cannot be evaluated denies.
   Every try/except of the evaluation path carries its GENERATED handler set. *)
From Coq Require Import String List Bool NArith.
From OP Require Import Base.Str Base.Check Base.ParserTypes Base.Res Base.Json Gen.GChecks
                       Model.Leaf Model.Tokenize Model.Eval Model.Enforce Spec.Template
                       Proofs.LeafProofs Proofs.TotalProofs.
Import ListNotations.

(* any tree over constants, references, role and generic checks evaluates to a decision (or runs
   out of fuel, which acyclicity excludes: C06_fuel_adequate / C13_clean_terminates) *)
Theorem C14_eval_never_raises (w : world) :
  safe_store w ->
  forall f cur c, safe_tree w c -> (exists b, eval f w cur c = Ok b) \/ eval f w cur c = OutOfFuel.
Proof. exact (@eval_never_raises w). Qed.
Print Assumptions C14_eval_never_raises.

(* whatever escapes enforce is one of the documented exceptions *)
Theorem C14_enforce_documented (x : ectx) (ca : credarg) (r : rulearg) (dr : bool) (exc : excarg) (e : exn) :
  (forall creds, safe_store (with_creds (e_world x) creds)) ->
  (forall creds c types, r = RObj c types -> safe_tree (with_creds (e_world x) creds) c) ->
  enforce x ca r dr exc = Raise e -> documented e.
Proof. exact (@enforce_documented x ca r dr exc e). Qed.
Print Assumptions C14_enforce_documented.

(* the safety hypotheses are met by every well-formed %(key)s template over a mapping target *)
Theorem C14_wf_template_only_keyerror (ps : list part) (kvs : list (str * jv)) (e : exn) :
  forallb wf_part ps = true -> subst (tpl_text ps) (JDict kvs) = Raise e -> e = EKeyError.
Proof. intros Hw H. rewrite (subst_template ps (JDict kvs) Hw) in H. exact (fill_dict_raises ps kvs H). Qed.
Print Assumptions C14_wf_template_only_keyerror.

(* the path walk and the generic check deny instead of raising (F3/F4 repairs, re-proved against
   the generated except clauses) *)
Theorem C14_walk_never_raises (ks : list str) (v : jv) (m : str) : exists b, find_in_dict v ks m = Ok b.
Proof. exact (find_never_raises ks v m). Qed.
Print Assumptions C14_walk_never_raises.

Theorem C14_generic_never_raises (lit : str -> lit_outcome) (k m : str) (tgt creds : jv) :
  (forall e, subst m tgt = Raise e -> e = EKeyError) ->
  (forall e, lit k = LitRaise e -> catches catch_generic_literal e = true) ->
  exists b, generic_check lit k m tgt creds = Ok b.
Proof. exact (@generic_never_raises lit k m tgt creds). Qed.
Print Assumptions C14_generic_never_raises.

(* literal_eval's documented failures are all caught *)
Theorem C14_literal_failures_caught :
  catches catch_generic_literal EValueError = true /\
  catches catch_generic_literal ESyntaxError = true /\
  catches catch_generic_literal ETypeError = true.
Proof. repeat split; reflexivity. Qed.
Print Assumptions C14_literal_failures_caught.
