(* C09 -- effective policy is defaults, then policy file, then policy.d in sorted order. *)
From Coq Require Import String List Bool NArith.
From OP Require Import Base.Str Base.Check Base.ParserTypes Base.Res Base.Json Base.DTree Gen.GPolicy
                       Model.Leaf Model.Eval Model.Load Model.Pick Spec.Layering
                       Proofs.LayeringProofs Proofs.PickProofs.
Import ListNotations.

(* a freshly started enforcer computes, for every policy name, exactly the last definition in the
   documented order (registered default < policy file < directories in configured order, files
   in sorted name order, dot-files and sub-directories ignored, missing file/directories skipped);
   names defined nowhere stay undefined.  For EVERY layout: any number of directories, files,
   names.  (Directory stamps must be after the epoch: a directory whose newest mtime is 0 is
   never noticed -- LayeringProofs.fresh_load_spec_needs_dirs_seen.) *)
Theorem C09_layering (cf : lconf) (fs : fsys) (n : str) :
  c_overwrite cf = true -> regs_nodup cf -> mtimes_pos fs ->
  assoc n (e_rules (load_rules cf init_state fs false)) = spec_rule cf fs n.
Proof. exact (fresh_load_spec_pos cf fs n). Qed.
Print Assumptions C09_layering.

Theorem C09_file_rules (cf : lconf) (fs : fsys) (n : str) :
  c_overwrite cf = true -> mtimes_pos fs ->
  assoc n (e_file_rules (load_rules cf init_state fs false)) = file_def fs n.
Proof. exact (fresh_file_rules_pos cf fs n). Qed.
Print Assumptions C09_file_rules.

(* names defined nowhere stay undefined *)
Theorem C09_undefined_stays (cf : lconf) (fs : fsys) (n : str) :
  c_overwrite cf = true -> regs_nodup cf -> mtimes_pos fs ->
  file_def fs n = None -> find_default n (c_registered cf) = None ->
  assoc n (e_rules (load_rules cf init_state fs false)) = None.
Proof.
  intros Ho Hn Hm Hf Hd. rewrite (fresh_load_spec_pos cf fs n Ho Hn Hm).
  unfold spec_rule. now rewrite Hf, Hd.
Qed.
Print Assumptions C09_undefined_stays.

(* choice of the policy file: pick_default_policy_file is the GENERATED tree pick_tree *)
Theorem C09_pick_table (i : pickin) : picks_json i = spec_picks_json i.
Proof. exact (pick_spec i). Qed.
Print Assumptions C09_pick_table.

Example ex_C09 :
  let f m ct := {| pf_mtime := m; pf_content := ct |} in
  let fs := {| fs_main := Some (f 5%N [(s "a", JStr (s "role:main")); (s "b", JStr (s "role:main"))]);
               fs_dirs := [Some {| pd_mtime := 7%N;
                                   pd_entries := [(s "B.yaml", EFile (f 6%N [(s "a", JStr (s "role:B"))]));
                                                  (s "10-x.yaml", EFile (f 6%N [(s "a", JStr (s "role:x"))]));
                                                  (s ".hid", EFile (f 6%N [(s "a", JStr (s "role:hid"))]));
                                                  (s "sub", ESub 6%N)] |};
                           None] |} in
  let cf := {| c_enforce_new_defaults := true; c_overwrite := true;
               c_registered := [{| rd_name := s "c"; rd_check_str := s "role:d";
                                   rd_check := parse_value (JStr (s "role:d")); rd_dep := None; rd_scope := [] |}] |} in
  map (fun n => option_map Print.print (assoc n (e_rules (load_rules cf init_state fs false)))) [s "a"; s "b"; s "c"; s "z"]
  = [Some (s "role:B"); Some (s "role:main"); Some (s "role:d"); None].
Proof. vm_compute. reflexivity. Qed.

(* the directory walk has the shape the model follows (top level, plain sort, dot-files skipped):
   read off policy.py on this run *)
Theorem C09_walk_shape : walk_shape_known = true.
Proof. reflexivity. Qed.
Print Assumptions C09_walk_shape.
