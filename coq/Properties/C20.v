(* C20 -- a decision taken during a reload sees the old or the new policy, never a mix.
   The full statement is FALSE of the code (known finding F10: load_rules rebuilds the shared rule
   store in place, without a lock or copy-then-swap).  What is proved: the write-level model ends
   in the atomic load; decisions at both ends of the reload are atomic; the statement is refuted on
   the model by a concrete scenario (replayed on the implementation by the harness); and the list of
   shared-state write sites of the reload path is read off the source on every run, so that a NEW
   write site (a new window) breaks an obligation. *)
From Coq Require Import String List Bool NArith.
From OP Require Import Base.Str Base.Check Base.ParserTypes Base.Res Base.Json Gen.GPolicy
                       Model.Leaf Model.Print Model.Eval Model.Load Model.Reload
                       Proofs.LayeringProofs Proofs.ReloadTraceProofs.
Import ListNotations.

Theorem C20_trace_ends_in_load (cf : lconf) (s0 : est) (fs : fsys) :
  last (load_trace cf s0 fs) s0 = load_rules cf s0 fs false.
Proof. exact (load_trace_last cf s0 fs). Qed.
Print Assumptions C20_trace_ends_in_load.

(* a decision taken before the reloader has written anything is based on the complete NEW policy
   (the deciding thread performs the whole reload itself) ... *)
Theorem C20_before_is_new (cf : lconf) (s0 : est) (fs : fsys) :
  rules_seen cf fs s0 = e_rules (load_rules cf s0 fs false).
Proof. reflexivity. Qed.
Print Assumptions C20_before_is_new.

(* ... and so is one taken after the last write *)
Theorem C20_after_is_new (cf : lconf) (s0 : est) (fs : fsys) :
  c_overwrite cf = true ->
  rules_seen cf fs (last (load_trace cf s0 fs) s0) = e_rules (load_rules cf s0 fs false).
Proof.
  intros Ho. unfold rules_seen. rewrite load_trace_last.
  now rewrite (load_idempotent cf s0 fs Ho).
Qed.
Print Assumptions C20_after_is_new.

(* the shared-state write sites of the reload path, as read off policy.py on this run *)
Theorem C20_write_sites :
  reload_write_sites =
  [s "self._informed_no_policy_file = True";
   s "self._need_check_rule = False";
   s "self._need_check_rule = True";
   s "self.file_rules = {}";
   s "self.file_rules[name] = file_rule";
   s "self.policy_path = self._get_policy_path(self.policy_file)";
   s "self.rules = Rules(default_rule=self.default_rule)";
   s "self.rules = Rules(rules, self.default_rule)";
   s "self.rules.update(rules)";
   s "self.rules[default.name] = check";
   s "self.use_conf = force_reload";
   s "self.use_conf = use_conf"].
Proof. reflexivity. Qed.
Print Assumptions C20_write_sites.

(* the scenario of the statement: the main file is edited while a directory overrides one of its
   rules; at the snapshot after the main file has been applied and before the directory is
   re-applied, a concurrent decision on p is based on NEITHER the old nor the new policy *)
Definition f_ (m : N) (ct : content) : pfile := {| pf_mtime := m; pf_content := ct |}.
Definition dir_ : option pdir :=
  Some {| pd_mtime := 2%N; pd_entries := [(s "o.yaml", EFile (f_ 2%N [(s "p", JStr (s "role:dir"))]))] |}.
Definition fs_old : fsys := {| fs_main := Some (f_ 1%N [(s "p", JStr (s "role:main_old"))]); fs_dirs := [dir_] |}.
Definition fs_new : fsys := {| fs_main := Some (f_ 5%N [(s "p", JStr (s "role:main_new"))]); fs_dirs := [dir_] |}.
Definition cf_ : lconf := {| c_enforce_new_defaults := true; c_registered := []; c_overwrite := true |}.
Definition printed (rs : store) : list (str * str) := map (fun p => (fst p, print (snd p))) rs.

Theorem C20_refuted :
  let s_old := load_rules cf_ init_state fs_old false in
  let old := printed (e_rules s_old) in
  let new := printed (e_rules (load_rules cf_ s_old fs_new false)) in
  exists st, In st (load_trace cf_ s_old fs_new) /\
             printed (rules_seen cf_ fs_new st) <> old /\ printed (rules_seen cf_ fs_new st) <> new.
Proof.
  cbv zeta. exists (nth 1 (load_trace cf_ (load_rules cf_ init_state fs_old false) fs_new) init_state).
  split.
  - vm_compute. right. left. reflexivity.
  - vm_compute. split; discriminate.
Qed.
Print Assumptions C20_refuted.

(* for this scenario the window is exactly the snapshots between "main applied" and "directory
   re-applied" (a finite computation on the model, not an unbounded claim) *)
Example ex_C20_window :
  let s_old := load_rules cf_ init_state fs_old false in
  map (fun st => printed (rules_seen cf_ fs_new st)) (load_trace cf_ s_old fs_new)
  = [ [(s "p", s "role:dir")];          (* before any write: the decider reloads everything: new *)
      [(s "p", s "role:main_new")];     (* main applied, directory not yet: MIXED *)
      [(s "p", s "role:main_new")];     (* directory stamps cached: MIXED *)
      [(s "p", s "role:main_new")];     (* start of the walk: MIXED *)
      [(s "p", s "role:dir")];          (* directory file re-applied: new *)
      [(s "p", s "role:dir")] ].        (* defaults merged: new *)
Proof. vm_compute. reflexivity. Qed.

(* ---------- the same defect seen from the deciding thread ----------
   enforce fetches the definition of the enforced rule from the shared store and then evaluates it; the rule:
   references inside it are resolved against the store AS IT IS WHEN THEY ARE REACHED.  A decider that is preempted
   between the two, while a whole reload goes by, evaluates the OLD definition of p against the NEW store: for roles
   [m] it allows, although the old policy (p -> h -> role:o) and the new one (p = role:n) both deny.  This is the
   scenario "ref-edit" of the harness (known finding mixed-decider:ref-edit:after-lookup). *)
Definition fs_ref_old : fsys :=
  {| fs_main := Some (f_ 1%N [(s "p", JStr (s "rule:h")); (s "h", JStr (s "role:o"))]); fs_dirs := [] |}.
Definition fs_ref_new : fsys :=
  {| fs_main := Some (f_ 5%N [(s "p", JStr (s "role:n")); (s "h", JStr (s "role:m"))]); fs_dirs := [] |}.
Definition world_of (rs : store) : world :=
  {| w_rules := rs; w_default := DName (s "default"); w_target := JDict [];
     w_creds := JDict [(s "roles", JList [JStr (s "m")])];
     w_lit := fun _ => LitRaise (EOther 0%N); w_http := fun _ _ => HTimeout; w_custom := fun _ _ => Ok false |}.
Definition decide (definition_from store_at_evaluation : store) : option (res bool) :=
  match lookup definition_from (DName (s "default")) (s "p") with
  | Some c => Some (eval 50 (world_of store_at_evaluation) (Some (s "p")) c)
  | None => None
  end.

Theorem C20_reader_refuted :
  let s_old := load_rules cf_ init_state fs_ref_old false in
  let old := e_rules s_old in
  let new := e_rules (load_rules cf_ s_old fs_ref_new false) in
  decide old old = Some (Ok false) /\ decide new new = Some (Ok false) /\ decide old new = Some (Ok true).
Proof. vm_compute. repeat split; reflexivity. Qed.
Print Assumptions C20_reader_refuted.
