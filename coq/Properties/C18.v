(* C18 -- policy-file rewriting tools and advice preserve every decision.
   Stated on abstract policy files (name -> rule value), at the level of the effective check that an
   enforcer computes (Spec.Layering.spec_rule): the tool's output yields, for every surviving name,
   the SAME check as the policy the tool was given, under the default configuration.  YAML/JSON
   emission and re-reading are library behaviour (validated differentially).  Each hypothesis is an
   exclusion of the quantifier and is shown necessary by a counterexample in Proofs.ToolsProofs.Cex. *)
From Coq Require Import String List Bool NArith.
From OP Require Import Base.Str Base.Check Base.ParserTypes Base.Res Base.Json
                       Model.Leaf Model.Print Model.Eval Model.Load Model.Tools
                       Spec.Layering Spec.ToolsSpec Spec.PrintSpec Proofs.ToolsProofs.
Import ListNotations.

(* oslopolicy-policy-upgrade: also for a deprecated name split into several new policies (F7) and
   for an old name that merely aliases the new one (F15) *)
Theorem C18_upgrade_preserves (regs : list rdef) (file : content) (n : str) :
  NoDup (map rd_name regs) -> is_file file -> not_self_conflicting regs file ->
  ~ In n (renamed_olds regs) ->
  spec_rule (default_conf regs) (main_only (upgrade regs file)) n
  = spec_rule (default_conf regs) (main_only file) n.
Proof. exact (@upgrade_preserves regs file n). Qed.
Print Assumptions C18_upgrade_preserves.

(* oslopolicy-convert-json-to-yaml: rules equal to the default (by printed form) are commented out *)
Theorem C18_convert_preserves (regs : list rdef) (file : content) (n : str) :
  NoDup (map rd_name regs) -> is_file file -> not_self_conflicting regs file ->
  (forall d, In d regs -> wf_tree [] (rd_check d) = true) ->
  (forall k v, In (k, v) file -> wf_tree [] (parse_value v) = true) ->
  spec_rule (default_conf regs) (main_only (convert regs file)) n
  = spec_rule (default_conf regs) (main_only file) n.
Proof. exact (@convert_preserves regs file n). Qed.
Print Assumptions C18_convert_preserves.

(* oslopolicy-policy-generator: file rules plus the registered rules absent from every file *)
Theorem C18_generator_preserves (regs : list rdef) (fr : content) (n : str) :
  NoDup (map rd_name regs) -> is_file fr ->
  (forall k, In k (renamed_olds regs) -> has_key k fr = false) ->
  (forall d, In d regs -> rd_check d = parse_value (JStr (rd_check_str d))) ->
  spec_rule (default_conf regs) (main_only (generate regs fr)) n
  = spec_rule (default_conf regs) (main_only fr) n.
Proof. exact (@generate_preserves regs fr n). Qed.
Print Assumptions C18_generator_preserves.

(* oslopolicy-list-redundant: every reported rule can be deleted without changing any decision *)
Theorem C18_redundant_removable (regs : list rdef) (fr : content) (n : str) :
  NoDup (map rd_name regs) -> is_file fr ->
  (forall k, In k (renamed_olds regs) -> has_key k fr = false) ->
  (forall d, In d regs -> wf_tree [] (rd_check d) = true) ->
  (forall k v, In (k, v) fr -> wf_tree [] (parse_value v) = true) ->
  spec_rule (default_conf regs) (main_only (without (redundant regs fr) fr)) n
  = spec_rule (default_conf regs) (main_only fr) n.
Proof. exact (@redundant_removable regs fr n). Qed.
Print Assumptions C18_redundant_removable.
