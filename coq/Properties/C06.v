(* C06 -- rule:NAME is a transparent alias for NAME's current definition. *)
From Coq Require Import String List Bool NArith.
From OP Require Import Base.Str Base.Check Base.ParserTypes Base.Res Base.Json Gen.GChecks
                       Model.Leaf Model.Eval Model.Trace Model.Enforce
                       Proofs.EvalProofs Proofs.AliasProofs Proofs.TraceProofs Proofs.LookupProofs.
Import ListNotations.

(* a reference decides exactly as the definition it resolves to (through the default-rule
   fallback too), evaluated under the same current rule -- provided the definition does not raise
   an exception that RuleCheck's own handler would swallow (role, generic and reference leaves
   never raise KeyError; an http: URL template with a missing key does) *)
Theorem C06_alias (f : nat) (w : world) (cur : option str) (k n : str) (body : check) :
  lookup (w_rules w) (w_default w) n = Some body ->
  (forall e, eval f w cur body = Raise e -> catches catch_rule e = false) ->
  eval (S f) w cur (CLeaf (LCheck KRule k n)) = eval f w cur body.
Proof. exact (alias_transparent f w cur k n body). Qed.
Print Assumptions C06_alias.

(* replacing every reference to n by n's definition never changes a decision: any depth, under
   not/and/or, any number of occurrences *)
Theorem C06_inline (w : world) (cur : option str) (n : str) (def : check) :
  lookup (w_rules w) (w_default w) n = Some def ->
  (forall g e, eval g w cur def = Raise e -> catches catch_rule e = false) ->
  forall f c, eval f w cur c <> OutOfFuel -> eval (S f) w cur (inline n def c) = eval f w cur c.
Proof. exact (inline_same w cur n def). Qed.
Print Assumptions C06_inline.

(* a reference to a name with no usable definition denies, exactly like enforcing an unknown
   policy (C03_unknown_denies) *)
Theorem C06_undefined_ref_denies (f : nat) (w : world) (cur : option str) (k n : str) :
  spec_lookup (w_rules w) (w_default w) n = None ->
  eval (S f) w cur (CLeaf (LCheck KRule k n)) = Ok false.
Proof. intros H. apply undefined_ref_denies. rewrite lookup_spec. exact H. Qed.
Print Assumptions C06_undefined_ref_denies.

(* acyclic rule sets (fallback to the default rule counted as an edge) always evaluate: fuel
   "number of names + 2" is enough; more fuel never changes an answer *)
Theorem C06_fuel_adequate (w : world) (cur : option str) (rank : str -> nat) :
  oracles_total w -> ranked w rank ->
  forall k c, (forall m, In m (refs c) -> rank m < k) -> eval (S k) w cur c <> OutOfFuel.
Proof. exact (fuel_adequate w cur rank). Qed.
Print Assumptions C06_fuel_adequate.

Theorem C06_fuel_mono (f : nat) (w : world) (cur : option str) (c : check) (r : res bool) :
  eval f w cur c = r -> r <> OutOfFuel -> forall g, f <= g -> eval g w cur c = r.
Proof. exact (fuel_mono f w cur c r). Qed.
Print Assumptions C06_fuel_mono.

(* nested checks are told the name of the policy being enforced, not the alias: every recording
   leaf reached, at any depth and through any chain of references, receives the current rule the
   evaluation started with (or nothing, for 3-argument check classes) *)
Theorem C06_current_rule (f : nat) (w : world) (cur : option str) (c : check) :
  Forall (event_cur_ok cur) (snd (eval_tr f w cur c)).
Proof. exact (trace_cur f w cur c). Qed.
Print Assumptions C06_current_rule.

Theorem C06_trace_is_eval (f : nat) (w : world) (cur : option str) (c : check) :
  fst (eval_tr f w cur c) = eval f w cur c.
Proof. exact (eval_tr_fst f w cur c). Qed.
Print Assumptions C06_trace_is_eval.

(* non-vacuity: the KeyError hypothesis holds for role / generic / reference bodies, and a
   two-link alias chain *)
Example ex_C06 :
  let w := {| w_rules := [(s "a", CLeaf (LCheck KRole (s "role") (s "x")));
                          (s "b", CLeaf (LCheck KRule (s "rule") (s "a")));
                          (s "c", CNot (CLeaf (LCheck KRule (s "rule") (s "b"))))];
              w_default := DNone; w_target := JDict []; 
              w_creds := JDict [(s "roles", JList [JStr (s "X")])];
              w_lit := fun _ => LitRaise EValueError; w_http := fun _ _ => HTimeout;
              w_custom := fun _ _ => Ok true |} in
  eval 5 w (Some (s "c")) (CLeaf (LCheck KRule (s "rule") (s "c"))) = Ok false /\
  eval 5 w (Some (s "c")) (CLeaf (LCheck KRule (s "rule") (s "b"))) = Ok true.
Proof. vm_compute. split; reflexivity. Qed.
