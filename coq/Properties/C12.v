(* C12 -- loading is idempotent and never mutates what the service registered. *)
From Coq Require Import String List Bool NArith.
From OP Require Import Base.Str Base.Check Base.ParserTypes Base.Res Base.Json Gen.GPolicy
                       Model.Leaf Model.Eval Model.Load Spec.Layering
                       Proofs.LayeringProofs Proofs.ReloadProofs.
Import ListNotations.

(* loading again changes NOTHING: the whole enforcer state is a fixed point of load_rules, from any
   state at all -- so the effective policy is the same after k loads as after one, and a merged
   deprecated OrCheck cannot grow *)
Theorem C12_idempotent (cf : lconf) (s : est) (fs : fsys) :
  c_overwrite cf = true ->
  let s1 := load_rules cf s fs false in load_rules cf s1 fs false = s1.
Proof. exact (load_idempotent cf s fs). Qed.
Print Assumptions C12_idempotent.

(* a forced reload of a state reached by any history equals the fresh computation, hence the state
   it started from *)
Theorem C12_forced_is_fresh (cf : lconf) (fs0 : fsys) (c0 : N) (h : list (fsys * N)) :
  c_overwrite cf = true -> stamps_ok fs0 c0 -> history fs0 c0 h ->
  let s := run cf (load_rules cf init_state fs0 false) h in
  e_rules s = e_rules (load_rules cf init_state (last_fs fs0 h) false).
Proof. intros Ho Hs Hh. exact (proj1 (@long_lived_is_fresh_eq cf fs0 c0 h Ho Hs Hh)). Qed.
Print Assumptions C12_forced_is_fresh.

(* Frame facts read off policy.py on every run: the ONLY statements that write through a reference
   the function received (or an object reached from the registered defaults) are these four --
   none touches a RuleDefault/DeprecatedRule -- and both deep copies are in place.  The model is
   immutable by construction; this is what ties that to the code. *)
Theorem C12_frame_sites :
  frame_sites = [s "cache.setdefault(path, {})";
                 s "cache_info['mtime'] = mtime";
                 s "creds['system'] = creds.get('system_scope')";
                 s "seen.add(check.match)"].
Proof. reflexivity. Qed.
Print Assumptions C12_frame_sites.
Theorem C12_deep_copies : register_copies = true /\ ruledefault_copies_deprecated = true.
Proof. split; reflexivity. Qed.
Print Assumptions C12_deep_copies.
