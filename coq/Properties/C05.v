(* C05 -- attribute checks compare a literal or credential path with the target value.
   ast.literal_eval is an oracle classified into "a value with this string form" / "raises e";
   which exceptions fall back to the path walk is read off the except clause on every run. *)
From Coq Require Import String List Bool NArith ZArith.
From OP Require Import Base.Str Base.Res Base.Json Gen.GChecks Model.Tokenize Model.Eval
                       Spec.Reach Spec.Template Spec.LeafSpec Proofs.LeafProofs Proofs.LeafSpecProofs.
Import ListNotations.

(* the credential walk finds exactly what "follow the key; where a list is met, any element"
   reaches -- all nestings, any path length *)
Theorem C05_find_in_dict_iff (ks : list str) (v : jv) (m : str) :
  find_in_dict v ks m = Ok true <-> exists z, reach v ks z /\ pystr z = m.
Proof. exact (find_in_dict_iff ks v m). Qed.
Print Assumptions C05_find_in_dict_iff.

Theorem C05_literal (lit : str -> lit_outcome) (k m : str) (tgt creds : jv) (x v : str) :
  subst m tgt = Ok x -> lit k = LitStr v -> generic_check lit k m tgt creds = Ok (str_eqb x v).
Proof. exact (@generic_literal lit k m tgt creds x v). Qed.
Print Assumptions C05_literal.

Theorem C05_path (lit : str -> lit_outcome) (k m : str) (tgt creds : jv) (x : str) (e : exn) :
  subst m tgt = Ok x -> lit k = LitRaise e -> catches catch_generic_literal e = true ->
  (generic_check lit k m tgt creds = Ok true <->
   exists z, reach creds (split_dots k) z /\ pystr z = x).
Proof. exact (@generic_path lit k m tgt creds x e). Qed.
Print Assumptions C05_path.

Theorem C05_missing_key_denies (lit : str -> lit_outcome) (k m : str) (tgt creds : jv) :
  subst m tgt = Raise EKeyError -> generic_check lit k m tgt creds = Ok false.
Proof. exact (@generic_missing_key lit k m tgt creds). Qed.
Print Assumptions C05_missing_key_denies.

(* a missing credential attribute, or a path running into a non-container, denies: the walk never
   raises (F4 repair, re-proved against the generated handler) *)
Theorem C05_walk_never_raises (ks : list str) (v : jv) (m : str) :
  exists b, find_in_dict v ks m = Ok b.
Proof. exact (find_never_raises ks v m). Qed.
Print Assumptions C05_walk_never_raises.

(* the executable oracle used by the harness (collect everything reachable, then compare) is the
   relational statement *)
Theorem C05_oracle (e : exn) (path : list str) (ps : list part) (tgt creds : jv) (x : str) :
  fill ps tgt = Ok x ->
  (spec_generic (LitRaise e) path ps tgt creds = true <->
   exists z, reach creds path z /\ pystr z = x).
Proof. exact (spec_generic_path e path ps tgt creds x). Qed.
Print Assumptions C05_oracle.

Example ex_C05 :
  let creds := JDict [(s "a", JList [JDict [(s "b", JStr (s "x"))]; JDict [(s "b", JInt 7%Z)]])] in
  find_in_dict creds [s "a"; s "b"] (s "7") = Ok true /\
  find_in_dict creds [s "a"; s "b"; s "c"] (s "7") = Ok false /\
  find_in_dict (JDict [(s "a", JStr (s "str"))]) [s "a"; s "b"] (s "x") = Ok false.
Proof. vm_compute. repeat split; reflexivity. Qed.
