(* C13 -- validation flags every undefined or cyclic rule reference, and only those.
   Which children the walkers descend into is read off the source on every run. *)
From Coq Require Import String List Bool NArith.
From OP Require Import Base.Str Base.Check Base.ParserTypes Base.Res Base.Json
                       Model.Leaf Model.Eval Model.CheckRules Model.Load Model.Validator Spec.Graph Proofs.CheckRulesProofs.
Import ListNotations.

(* the undefined-reference walk reports a rule exactly when some reference anywhere in its
   expression (also under not) names an undefined rule *)
Theorem C13_undefined_exact (rs : store) (c : check) :
  undefined_check rs c = true <-> refs_undefined rs c.
Proof. exact (undefined_exact rs c). Qed.
Print Assumptions C13_undefined_exact.

(* the cycle walk reports a rule exactly when one of its references reaches a reference cycle in
   the graph of the rule set; diamond-shaped sharing is not a cycle in that graph *)
Theorem C13_cycle_exact (rs : store) (c : check) :
  cycle_check rs (cycle_fuel rs) [] c = true <-> reaches_cycle rs c.
Proof. exact (cycle_exact rs c). Qed.
Print Assumptions C13_cycle_exact.

(* when nothing is reported, evaluating any stored rule terminates *)
Theorem C13_clean_terminates (w : world) (cur : option str) (n : str) (c : check) :
  check_rules (w_rules w) false = true ->
  (forall id cu, w_custom w id cu <> OutOfFuel) ->
  assoc n (w_rules w) = Some c ->
  eval (fuel_for (w_rules w)) w cur c <> OutOfFuel.
Proof. apply clean_terminates. Qed.
Print Assumptions C13_clean_terminates.

(* the validator succeeds exactly when the policy file exists, validation reports nothing, every
   file rule is registered by the service and no file rule is wholly unparseable *)
Theorem C13_validator_rc (cf : lconf) (fs : fsys) :
  validate cf fs = true <->
  exists f, fs_main fs = Some f /\
    let st := load_rules cf init_state fs false in
    check_rules (e_rules st) false = true /\
    forall n c, In (n, c) (e_file_rules st) ->
      has_key n (map (fun d => (rd_name d, tt)) (c_registered cf)) = true /\
      parse_failed (e_rules st) (pf_content f) n = false.
Proof.
  unfold validate. destruct (fs_main fs) as [f|]; [|split; [discriminate|intros (f & H & _); discriminate]].
  cbv zeta. rewrite andb_true_iff, forallb_forall. split.
  - intros [H1 H2]. exists f. split; [reflexivity|]. split; [exact H1|].
    intros n c Hin. specialize (H2 (n, c) Hin). cbn [fst] in H2. apply andb_true_iff in H2.
    destruct H2 as [Ha Hb]. split; [exact Ha|]. now apply negb_true_iff in Hb.
  - intros (f' & E & H1 & H2). inversion E; subst f'. split; [exact H1|].
    intros [n c] Hin. cbn [fst]. destruct (H2 n c Hin) as [Ha Hb]. now rewrite Ha, Hb.
Qed.
Print Assumptions C13_validator_rc.

Example ex_C13 :
  let r k n := CLeaf (LCheck KRule (s "rule") n) in
  (* diamond: clean *)
  check_rules [(s "a", CAnd [r 0 (s "b"); r 0 (s "c")]); (s "b", r 0 (s "d")); (s "c", r 0 (s "d"));
               (s "d", CLeaf LTrue)] false = true /\
  (* undefined under not *)
  check_rules [(s "a", CNot (r 0 (s "b")))] false = false /\
  (* self-loop under not *)
  cyclic_names [(s "a", CNot (r 0 (s "a")))] = [s "a"] /\
  (* long cycle reached from outside *)
  cyclic_names [(s "a", r 0 (s "b")); (s "b", r 0 (s "c")); (s "c", COr [CLeaf LTrue; r 0 (s "b")])]
    = [s "a"; s "b"; s "c"].
Proof. vm_compute. repeat split; reflexivity. Qed.
