(* C15 -- printing a rule and parsing it back is the identity on meaning and on text.
   The printer formats are GENERATED from the __str__ methods on every run. *)
From Coq Require Import String List Bool NArith.
From OP Require Import Base.Str Base.Check Base.ParserTypes Base.Res Base.Json
                       Model.Leaf Model.SR Model.Tokenize Model.Print Model.Eval Model.Load
                       Spec.PrintSpec Proofs.PrintProofs.
Import ListNotations.

(* printing a tree the text language can express and parsing the text back gives the same tree:
   same printed form, same decisions *)
Theorem C15_roundtrip (extra : list (str * kcls)) (t : check) :
  wf_tree extra t = true -> parse_text_rule extra (print t) = PCheck t.
Proof. exact (@print_parse extra t). Qed.
Print Assumptions C15_roundtrip.

(* every rule the text parser returns is such a tree, so parse . print is the identity on parsed
   rules (F14 repair: before it, the rule ('a:b') printed as 'a:b' and parsed back as always-deny) *)
Theorem C15_parsed_rules_are_printable (extra : list (str * kcls)) (x : str) (c : check) :
  parse_text_rule extra x = PCheck c -> wf_tree extra c = true.
Proof. exact (@parse_produces_wf extra x c). Qed.
Print Assumptions C15_parsed_rules_are_printable.

Theorem C15_fixed_point (extra : list (str * kcls)) (x : str) (c : check) :
  parse_text_rule extra x = PCheck c -> parse_text_rule extra (print c) = PCheck c.
Proof. exact (@print_parse_fixed_point extra x c). Qed.
Print Assumptions C15_fixed_point.

(* two rules print identically only if they are the same rule -- hence decide identically; this is
   what redundancy detection and RuleDefault.__eq__ (name and printed check) rely on *)
Theorem C15_injective (extra : list (str * kcls)) (t1 t2 : check) :
  wf_tree extra t1 = true -> wf_tree extra t2 = true -> print t1 = print t2 -> t1 = t2.
Proof. exact (@print_injective extra t1 t2). Qed.
Print Assumptions C15_injective.

Theorem C15_same_decisions (extra : list (str * kcls)) (t1 t2 : check) (f : nat) (w : world) (cur : option str) :
  wf_tree extra t1 = true -> wf_tree extra t2 = true -> print t1 = print t2 ->
  eval f w cur t1 = eval f w cur t2.
Proof. intros H1 H2 H. now rewrite (@print_injective extra t1 t2 H1 H2 H). Qed.
Print Assumptions C15_same_decisions.

(* dumping a rule set to its string form and loading that string: each value is the printed check,
   or the empty string for the always-allow check, and parses back to the same check *)
Definition dump_value (c : check) : str :=
  match c with CLeaf LTrue => [] | _ => print c end.
Theorem C15_ruleset_roundtrip (extra : list (str * kcls)) (c : check) :
  wf_tree extra c = true -> parse_text_rule extra (dump_value c) = PCheck c.
Proof.
  intros H. destruct c as [l|c'|cs|cs]; try exact (@print_parse extra _ H).
  destruct l as [| |k kd m]; [reflexivity| |]; exact (@print_parse extra _ H).
Qed.
Print Assumptions C15_ruleset_roundtrip.

Example ex_C15 :
  let t := COr [CAnd [CLeaf (LCheck KRole (s "role") (s "a")); CNot (CLeaf (LCheck KRule (s "rule") (s "b")))];
                CLeaf (LCheck KGeneric (s "'x'") (s "%(y)s")); CLeaf LTrue] in
  wf_tree [] t = true /\ print t = s "((role:a and not rule:b) or 'x':%(y)s or @)" /\
  parse_text_rule [] (print t) = PCheck t.
Proof. vm_compute. repeat split; reflexivity. Qed.
