(* C17 -- a generated sample policy file overrides nothing and states every default.
   textwrap.wrap is an oracle with the contract wrap_ok (every output line starts with the given
   indent "# " and contains no line break); PyYAML's agreement with the line-class reading is
   validated differentially. *)
From Coq Require Import String List Bool NArith.
From OP Require Import Base.Str Model.Print Model.Generator Spec.SampleSpec Proofs.GeneratorProofs.
Import ListNotations.

(* every line is blank or a comment and free of line breaks: the sample overrides nothing, for
   every description / reason / operation list / scope list / deprecation shape *)
Theorem C17_all_comment_or_blank (wrap : str -> list str) (ex : bool) (ds : list gdefault) :
  wrap_ok wrap -> forallb wf_gdefault ds = true ->
  Forall (fun l => comment_or_blank l = true /\ no_break l = true) (expand wrap (sample_yaml ex ds)).
Proof. exact (@sample_all_comment_or_blank wrap ex ds). Qed.
Print Assumptions C17_all_comment_or_blank.

(* the only lines starting with #DQUOTE are the rule lines, one per default, in order *)
Theorem C17_rule_lines (wrap : str -> list str) (ex : bool) (ds : list gdefault) :
  wrap_ok wrap ->
  map (@tl N) (filter (starts_with [hash; 34%N]) (expand wrap (sample_yaml ex ds)))
  = map (fun d => rule_line (g_name d) (g_check_str d)) ds.
Proof. exact (@sample_rule_lines wrap ex ds). Qed.
Print Assumptions C17_rule_lines.

(* once its rule lines are uncommented the sample maps each name to exactly its default check
   string (names and check strings free of double quotes) *)
Theorem C17_uncommented_exact (wrap : str -> list str) (ex : bool) (ds : list gdefault) :
  wrap_ok wrap -> forallb wf_gdefault ds = true ->
  forallb (fun d => no_dq (g_name d) && no_dq (g_check_str d)) ds = true ->
  carried (uncomment (expand wrap (sample_yaml ex ds))) = map (fun d => (g_name d, g_check_str d)) ds.
Proof. exact (@sample_uncommented_exact wrap ex ds). Qed.
Print Assumptions C17_uncommented_exact.

Theorem C17_json_mapping (ds : list gdefault) :
  sample_json ds = s "{" ++ [10%N] ++ s "    " ++
                   join (s "," ++ [10%N] ++ s "    ") (map (fun d => rule_line (g_name d) (g_check_str d)) ds)
                   ++ [10%N] ++ s "}" ++ [10%N].
Proof. exact (sample_json_shape ds). Qed.
Print Assumptions C17_json_mapping.

Theorem C17_rule_line_reads_back (k v : str) :
  no_dq k = true -> no_dq v = true -> read_rule_line (rule_line k v) = Some (k, v).
Proof. exact (@read_rule_line_ok k v). Qed.
Print Assumptions C17_rule_line_reads_back.
