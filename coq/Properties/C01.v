(* C01 -- rule expressions decide exactly as the documented boolean language says.
   Only statements here; every proof is `exact <lemma>`.  The reducer table, keyword tuple,
   whitespace set are GENERATED from /repo on every run, so these are re-proved against the
   code as it is now. *)
From Coq Require Import String List Bool NArith.
From OP Require Import Base.Str Base.Check Base.ParserTypes Base.Res Base.Json
                       Model.Leaf Model.SR Model.Tokenize Model.Eval
                       Spec.Grammar Spec.ListRule
                       Proofs.SRProofs Proofs.FlattenProofs Proofs.EvalProofs Proofs.ListRuleProofs.
Import ListNotations.

(* the parser accepts every sentence of the documented grammar and builds the expected tree *)
Theorem C01_parser_complete (o : oexp leaf) :
  parse_tokens (toks_o o) = Some (PCheck (tree (flat_o o))).
Proof. rewrite <- toks_flatten. exact (complete (flat_o o)). Qed.
Print Assumptions C01_parser_complete.

(* ... and that tree means what the documentation says: parentheses > not > and > or *)
Theorem C01_tree_meaning (env : leaf -> bool) (o : oexp leaf) :
  beval env (tree (flat_o o)) = den_o env o.
Proof. rewrite tree_den. exact (den_flatten env o). Qed.
Print Assumptions C01_tree_meaning.

(* the decision of the evaluator on that tree is the documented Boolean value, whatever the
   leaves are, as long as each leaf evaluates to a definite Boolean *)
Theorem C01_decision (f : nat) (w : world) (cur : option str) (env : leaf -> bool) (o : oexp leaf) :
  (forall l, In l (leaves (tree (flat_o o))) -> eval_leaf f w cur l = Ok (env l)) ->
  eval (S f) w cur (tree (flat_o o)) = Ok (den_o env o).
Proof.
  intros H. rewrite (eval_bool f w cur env _ H). f_equal. exact (C01_tree_meaning env o).
Qed.
Print Assumptions C01_decision.

(* no reducer ever crashes, whatever the token sequence *)
Theorem C01_parser_total (ts : list (token leaf)) : exists st, run [] ts = Some st.
Proof. exact (parser_total ts). Qed.
Print Assumptions C01_parser_total.

(* constants: '@', the empty string and the empty list allow; '!' denies *)
Theorem C01_constants (extra : list (str * kcls)) :
  parse_rule_value extra (JStr (s "@")) = Ok (PCheck (CLeaf LTrue)) /\
  parse_rule_value extra (JStr []) = Ok (PCheck (CLeaf LTrue)) /\
  parse_rule_value extra (JList []) = Ok (PCheck (CLeaf LTrue)) /\
  parse_rule_value extra (JStr (s "!")) = Ok (PCheck (CLeaf LFalse)).
Proof. repeat split; vm_compute; reflexivity. Qed.
Print Assumptions C01_constants.

(* a list-of-lists rule is the OR of the ANDs of its entries *)
Theorem C01_list_rule (extra : list (str * kcls)) (env : leaf -> bool) (l : list jv) :
  env LTrue = true -> env LFalse = false -> rule_shaped_list l = true ->
  exists c, parse_rule_value extra (JList l) = Ok (PCheck c) /\
            beval env c = spec_list extra env l.
Proof.
  intros Ht Hf Hs. exists (translate_list extra l). split.
  - unfold parse_rule_value. rewrite Hs. reflexivity.
  - exact (translate_list_spec extra env Hf l Hs Ht).
Qed.
Print Assumptions C01_list_rule.

(* non-vacuity: a concrete expression, its tokens, its tree and its value *)
Example ex_C01 :
  let o : oexp leaf :=
    OOr (OA (AN (XLeaf (LCheck KRole (s "role") (s "a")))))
        (AAnd (AN (XLeaf (LCheck KRole (s "role") (s "b"))))
              (XNot (XLeaf (LCheck KRole (s "role") (s "c"))))) in
  parse_tokens (toks_o o) =
    Some (PCheck (COr [CLeaf (LCheck KRole (s "role") (s "a"));
                       CAnd [CLeaf (LCheck KRole (s "role") (s "b"));
                             CNot (CLeaf (LCheck KRole (s "role") (s "c")))]])).
Proof. vm_compute. reflexivity. Qed.

(* ---------- the lexical layer: any letter case, any whitespace, glued parentheses ---------- *)
From OP Require Import Spec.Render Proofs.TokenizeProofs Proofs.ParseProofs.

(* every rendering of a token sequence -- keywords in any letter case, any non-empty whitespace
   (all 29 code points of \s) between lexemes, parentheses glued to what follows "(" or
   precedes ")" -- tokenizes back to that sequence *)
Theorem C01_tokenize_render (extra : list (str * kcls)) (lead : str) (ps : list (lexeme * str)) :
  allws lead = true -> seps_ok ps = true ->
  tokenize extra (render lead ps) = map (lex_token extra) (map fst ps).
Proof. exact (tokenize_render extra lead ps). Qed.
Print Assumptions C01_tokenize_render.

(* end to end, from text to decision: any rendering of any sentence of the documented grammar
   parses to the tree whose value is the documented one; in particular two renderings of the
   same sentence (case, whitespace, glue) always decide alike *)
Theorem C01_text_decision (extra : list (str * kcls)) (lead : str) (ps : list (lexeme * str))
        (o : oexp leaf) (env : leaf -> bool) :
  allws lead = true -> seps_ok ps = true -> render lead ps <> [] ->
  map (lex_token extra) (map fst ps) = toks_o o ->
  exists c, parse_text_rule extra (render lead ps) = PCheck c /\ beval env c = den_o env o.
Proof.
  intros Hl Hs Hne Ht. exists (tree (flat_o o)). split.
  - apply sentence_parses; [exact Hne|].
    rewrite (tokenize_render extra lead ps Hl Hs), Ht. apply toks_flatten.
  - exact (C01_tree_meaning env o).
Qed.
Print Assumptions C01_text_decision.

Example ex_C01_text :
  let ps := [(XLp, []); (XWord (s "role:a"), s "  "); (XWord (s "oR"), [9%N]);
             (XWord (s "NOT"), s " "); (XWord (s "role:b"), []); (XRp, s " ")] in
  seps_ok ps = true /\
  parse_text_rule [] (render (s " ") ps) =
    PCheck (COr [CLeaf (LCheck KRole (s "role") (s "a"));
                 CNot (CLeaf (LCheck KRole (s "role") (s "b")))]).
Proof. vm_compute. split; reflexivity. Qed.
