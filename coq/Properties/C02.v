(* C02 -- malformed rules and non-rule values never grant access. *)
From Coq Require Import String List Bool NArith ZArith.
From OP Require Import Base.Str Base.Check Base.ParserTypes Base.Res Base.Json Gen.GParser
                       Model.Leaf Model.SR Model.Tokenize Model.Eval Spec.Grammar
                       Proofs.SRProofs Proofs.ParseProofs Proofs.EvalProofs.
Import ListNotations.

(* loading never fails for a string or a list of strings and lists of strings, and always
   yields a check (never a raw token, never an exception) *)
Theorem C02_total (extra : list (str * kcls)) (v : jv) :
  rule_shaped v = true -> exists c, parse_rule_value extra v = Ok (PCheck c).
Proof. exact (loads_total extra v). Qed.
Print Assumptions C02_total.

(* whatever the parser returns for any token sequence is a check built from a sentence *)
Theorem C02_parser_sound (ts : list (token leaf)) (p : parsed leaf) :
  parse_tokens ts = Some p -> exists e, toks e = ts /\ p = PCheck (tree e).
Proof. exact (sound (leaf:=leaf) ts (p:=p)). Qed.
Print Assumptions C02_parser_sound.

(* a non-empty text that is not a sentence of the language is the always-deny check *)
Theorem C02_nonsentence_denies (extra : list (str * kcls)) (x : str) :
  x <> [] -> ~ sentence extra x -> parse_text_rule extra x = PCheck (CLeaf LFalse).
Proof. exact (nonsentence_denies (extra:=extra) (x:=x)). Qed.
Print Assumptions C02_nonsentence_denies.

(* a single check that is not kind:match behaves as '!' *)
Theorem C02_bad_leaf (extra : list (str * kcls)) (x : str) :
  has_colon x = false -> x <> s "@" -> parse_check extra x = LFalse.
Proof. exact (bad_leaf extra (x:=x)). Qed.
Print Assumptions C02_bad_leaf.

(* a value of any other type or shape is the always-deny check (F2 repair; the flag is read
   off the source on every run) *)
Theorem C02_nonrule_denies (extra : list (str * kcls)) (v : jv) :
  rule_shaped v = false -> parse_rule_value extra v = Ok (PCheck (CLeaf LFalse)).
Proof. apply nonrule_denies. reflexivity. Qed.
Print Assumptions C02_nonrule_denies.

(* ... and the always-deny check denies for every target and credentials *)
Theorem C02_deny_denies (f : nat) (w : world) (cur : option str) :
  eval (S f) w cur (CLeaf LFalse) = Ok false.
Proof. reflexivity. Qed.
Print Assumptions C02_deny_denies.

(* ParseState.result never leaks a raw token (F1 repair, re-proved against the generated
   rejection list) *)
Theorem C02_never_raw (ts : list (token leaf)) (p : parsed leaf) :
  parse_tokens ts = Some p -> exists c, p = PCheck c.
Proof. exact (result_is_check (leaf:=leaf) ts (p:=p)). Qed.
Print Assumptions C02_never_raw.

Example ex_C02 :
  parse_rule_value [] (JStr (s "not")) = Ok (PCheck (CLeaf LFalse)) /\
  parse_rule_value [] (JStr (s "role:a and")) = Ok (PCheck (CLeaf LFalse)) /\
  parse_rule_value [] (JStr (s "'abc'")) = Ok (PCheck (CLeaf LFalse)) /\
  parse_rule_value [] JNull = Ok (PCheck (CLeaf LFalse)) /\
  parse_rule_value [] (JList [JList [JInt 5%Z]; JStr (s "role:a")]) = Ok (PCheck (CLeaf LFalse)).
Proof. vm_compute. repeat split; reflexivity. Qed.
