(* What it means for a generated sample to ''override nothing and state every default'':
   a line-class reading of the text. *)
From Coq Require Import String List Bool NArith.
From OP Require Import Base.Str Model.Tokenize Model.Print Model.Generator.
Import ListNotations.
Set Implicit Arguments.

(* characters that end a line for a YAML 1.1 reader (and for Python's str.splitlines, which knows
   a few more) *)
Definition is_break (c : N) : bool :=
  N.eqb c 10 || N.eqb c 13 || N.eqb c 133 || N.eqb c 8232 || N.eqb c 8233
  || N.eqb c 11 || N.eqb c 12 || N.eqb c 28 || N.eqb c 29 || N.eqb c 30.
Definition no_break (l : str) : bool := forallb (fun c => negb (is_break c)) l.

Definition starts_with (p l : str) : bool :=
  (fix go (p l : str) : bool :=
     match p, l with
     | [], _ => true
     | _ :: _, [] => false
     | a :: p', b :: l' => N.eqb a b && go p' l'
     end) p l.

(* a line that carries nothing for a YAML reader *)
Definition comment_or_blank (l : str) : bool :=
  match l with [] => true | c :: _ => N.eqb c hash end.

(* the oracle contract of textwrap.wrap(text, 70, initial_indent='# ', subsequent_indent='# ') *)
Definition wrap_ok (wrap : str -> list str) : Prop :=
  forall t l, In l (wrap t) -> starts_with (s "# ") l = true /\ no_break l = true.

(* what the generator is given: every string that is emitted outside textwrap (names, check strings,
   since, operation method/path, scope types) is free of line breaks; description and reason are
   given as lines (description.strip().splitlines()), each free of line breaks *)
Definition clean (x : str) : bool := no_break x.
Definition clean_desc (d : option (list str)) : bool :=
  match d with None => true | Some ls => forallb no_break ls end.
Definition wf_gdefault (d : gdefault) : bool :=
  clean (g_name d) && clean (g_check_str d) && clean_desc (g_description d)
  && (match g_operations d with
      | Some ops => forallb (fun o => clean (fst o) && clean (snd o)) ops | None => true end)
  && (match g_scope d with Some sc => forallb clean sc | None => true end)
  && (match g_dep d with
      | DepNone => true
      | DepRemoval since reason => clean since && clean_desc reason
      | DepRule on oc since reason => clean on && clean oc && clean since && clean_desc reason
      end).

(* reading one rule line  ''k'': ''v''  (k, v free of double quotes) *)
Fixpoint span_nq (l : str) : str * str :=
  match l with
  | [] => ([], [])
  | c :: r => if N.eqb c 34 then ([], l) else let (a, b) := span_nq r in (c :: a, b)
  end.
Definition read_rule_line (l : str) : option (str * str) :=
  match l with
  | 34%N :: r =>
      let (k, rest) := span_nq r in
      match rest with
      | 34%N :: 58%N :: 32%N :: 34%N :: r2 =>
          let (v, rest2) := span_nq r2 in
          match rest2 with [34%N] => Some (k, v) | _ => None end
      | _ => None
      end
  | _ => None
  end.
(* free of double quotes, backslashes and control characters: JSON-escaping leaves it unchanged *)
Definition no_dq (x : str) : bool :=
  forallb (fun c => negb (N.eqb c 34) && negb (N.eqb c 92) && negb (c <? 32)%N) x.

(* uncommenting the rule lines: the lines that start with #'' lose their # *)
Definition uncomment (ls : list str) : list str :=
  map (fun l => if starts_with [hash; 34%N] l then tl l else l) ls.
(* what a YAML reader then sees: the key/value lines *)
Definition carried (ls : list str) : list (str * str) :=
  flat_map (fun l => if comment_or_blank l then []
                     else match read_rule_line l with Some kv => [kv] | None => [] end) ls.
