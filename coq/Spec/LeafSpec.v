(* Executable readings of the statements about role: and generic checks, written independently
   of the model's code paths (collect-then-test instead of the model's short-circuit walk). *)
From Coq Require Import String List Bool NArith.
From OP Require Import Base.Str Base.Res Base.Json Model.Tokenize Model.Eval Spec.Template.
Import ListNotations.
Set Implicit Arguments.

(* role:X allows iff X, filled from the target, equals a role of the credentials ignoring case *)
Definition spec_role (ps : list part) (tgt creds : jv) : bool :=
  match fill ps tgt with
  | Ok x =>
      if jhas creds roles_key then
        match jget creds roles_key with
        | JList l => existsb (fun v => match v with
                                       | JStr r => str_eqb (lower r) (lower x)
                                       | _ => false end) l
        | _ => false
        end
      else false
  | _ => false
  end.

(* every value reachable by following the path; a list met on the way fans out one level *)
Fixpoint reach_all (v : jv) (ks : list str) {struct ks} : list jv :=
  match ks with
  | [] => [v]
  | k :: ks' =>
      match v with
      | JDict kvs =>
          match assoc k kvs with
          | Some (JList l) => flat_map (fun x => reach_all x ks') l
          | Some w => reach_all w ks'
          | None => []
          end
      | _ => []
      end
  end.

(* lhs:rhs allows iff rhs (filled from the target) is the string form of lhs's value: the literal
   if lhs is one, else any value reached by the dotted path in the credentials *)
Definition spec_generic (lit : lit_outcome) (path : list str) (ps : list part) (tgt creds : jv) : bool :=
  match fill ps tgt with
  | Ok x =>
      match lit with
      | LitStr v => str_eqb x v
      | LitRaise _ => existsb (fun z => str_eqb (pystr z) x) (reach_all creds path)
      end
  | _ => false
  end.
