(* "%(key)s" templates: a template is a list of literal pieces and holes; its text, and what
   filling it from a target means. *)
From Coq Require Import String List Bool NArith.
From OP Require Import Base.Str Base.Res Base.Json Model.Tokenize Model.Eval.
Import ListNotations.
Set Implicit Arguments.

Inductive part := PLit (t : str) | PHole (k : str).

Definition part_text (p : part) : str :=
  match p with
  | PLit t => t
  | PHole k => [pct; lp] ++ k ++ [rp; 115%N]        (* %(k)s *)
  end.
Definition tpl_text (ps : list part) : str := flat_map part_text ps.

(* literals are free of '%', keys free of ')' *)
Definition wf_part (p : part) : bool :=
  match p with
  | PLit t => forallb (fun c => negb (N.eqb c pct)) t
  | PHole k => forallb (fun c => negb (N.eqb c rp)) k
  end.

Fixpoint fill (ps : list part) (tgt : jv) : res str :=
  match ps with
  | [] => Ok []
  | PLit t :: r => bind (fill r tgt) (fun x => Ok (t ++ x))
  | PHole k :: r => bind (getitem tgt k) (fun v => bind (fill r tgt) (fun x => Ok (pystr v ++ x)))
  end.
