(* Documented meaning of the legacy list-of-lists rule: the OR of the ANDs of its entries;
   the empty list allows; entries that are empty contribute nothing. *)
From Coq Require Import String List Bool NArith.
From OP Require Import Base.Str Base.Check Base.ParserTypes Base.Json Model.Leaf.
Import ListNotations.
Set Implicit Arguments.

Section ListRule.
Variable extra : list (str * kcls).
Variable env : leaf -> bool.

(* the single checks of one entry: a bare string is a one-element entry *)
Definition members (v : jv) : list str :=
  match v with
  | JStr x => match x with [] => [] | _ => [x] end
  | JList l => flat_map (fun r => match r with JStr x => [x] | _ => [] end) l
  | _ => []
  end.

Definition spec_entry (v : jv) : bool :=
  match members v with
  | [] => false                      (* an empty entry contributes nothing *)
  | ms => forallb (fun m => env (parse_check extra m)) ms
  end.

Definition spec_list (l : list jv) : bool :=
  match l with
  | [] => true
  | _ => existsb spec_entry l
  end.
End ListRule.
