(* Domain of the print/parse round trip: trees the text language can express. *)
From Coq Require Import String List Bool NArith Arith.
From OP Require Import Base.Str Base.Check Base.ParserTypes Gen.GParser
                       Model.Leaf Model.SR Model.Tokenize Model.Print Spec.Render.
Import ListNotations.
Set Implicit Arguments.

Definition kcls_eqb (a b : kcls) : bool :=
  match a, b with
  | KRule, KRule | KRole, KRole | KGeneric, KGeneric | KHttp, KHttp | KHttps, KHttps => true
  | KCustom x, KCustom y => N.eqb x y
  | _, _ => false
  end.
Definition leaf_eqb (a b : leaf) : bool :=
  match a, b with
  | LTrue, LTrue | LFalse, LFalse => true
  | LCheck c k m, LCheck c' k' m' => kcls_eqb c c' && str_eqb k k' && str_eqb m m'
  | _, _ => false
  end.

Section WF.
Variable extra : list (str * kcls).

(* a leaf whose printed form is a word of the language (no whitespace, no leading "(", no trailing
   ")", not a quoted string, not a keyword) that parses back to the same leaf *)
Definition wf_leaf (l : leaf) : bool :=
  wf_word (print_leaf l) && negb (mem_str (lower (print_leaf l)) keywords)
  && leaf_eqb (parse_check extra (print_leaf l)) l.

Fixpoint wf_tree (c : check) : bool :=
  match c with
  | CLeaf l => wf_leaf l
  | CNot c' => wf_tree c'
  | CAnd cs | COr cs =>
      (2 <=? List.length cs) &&
      (fix all (l : list check) : bool :=
         match l with [] => true | x :: r => wf_tree x && all r end) cs
  end.
End WF.
