(* "follow the dot-separated path through the credentials; where the path meets a list, any
   element may be followed" -- as an inductive relation. *)
From Coq Require Import String List Bool NArith.
From OP Require Import Base.Str Base.Json.
Import ListNotations.
Set Implicit Arguments.

Inductive reach : jv -> list str -> jv -> Prop :=
| r_nil v : reach v [] v
| r_step kvs k w ks z : assoc k kvs = Some w -> fan w ks z -> reach (JDict kvs) (k :: ks) z
with fan : jv -> list str -> jv -> Prop :=
| f_list l x ks z : In x l -> reach x ks z -> fan (JList l) ks z
| f_other w ks z : (forall l, w <> JList l) -> reach w ks z -> fan w ks z.

Scheme reach_ind2 := Induction for reach Sort Prop with fan_ind2 := Induction for fan Sort Prop.
