(* The documented grammar of the rule language, as a flat left-nested chain
   (nunit = operand, expr = chain of operands joined by and/or), its token sequence and the
   tree the implementation is expected to build for it. *)
From Coq Require Import List Bool Arith Lia.
From OP Require Import Base.Check Base.ParserTypes Gen.GParser Model.SR.
Import ListNotations.
Set Implicit Arguments.

Section Grammar.
Variable leaf : Type.
Notation check := (check leaf).
Notation token := (token leaf).
Notation sym := (sym leaf).

Inductive nunit := NNot (n : nunit) | NLeaf (l : leaf) | NParen (e : expr)
with expr := E1 (n : nunit) | EBin (e : expr) (isand : bool) (n : nunit).

Scheme nunit_ind2 := Induction for nunit Sort Prop
with expr_ind2 := Induction for expr Sort Prop.
Combined Scheme nunit_expr_ind from nunit_ind2, expr_ind2.

Fixpoint toks_n (n : nunit) : list token :=
  match n with
  | NNot n => TNot :: toks_n n
  | NLeaf l => [TLeaf l]
  | NParen e => TLp :: toks e ++ [TRp]
  end
with toks (e : expr) : list token :=
  match e with
  | E1 n => toks_n n
  | EBin e b n => toks e ++ (if b then TAnd else TOr) :: toks_n n
  end.

Inductive item := ICheck (c : check) | IAnd (cs : list check) | IOr (cs : list check).
Definition isym (i : item) : sym :=
  match i with ICheck c => SCheck c | IAnd cs => SAndE cs | IOr cs => SOrE cs end.
Definition ival (i : item) : check :=
  match i with ICheck c => c | IAnd cs => CAnd cs | IOr cs => COr cs end.

Definition mix' (cs : list check) (c : check) : list check :=
  match mix cs c with Some x => x | None => cs end.

Definition step (i : item) (isand : bool) (c : check) : item :=
  match i, isand with
  | ICheck a, true => IAnd [a; c]
  | ICheck a, false => IOr [a; c]
  | IAnd cs, true => IAnd (cs ++ [c])
  | IAnd cs, false => IOr [CAnd cs; c]
  | IOr cs, true => IOr (mix' cs c)
  | IOr cs, false => IOr (cs ++ [c])
  end.

Fixpoint tree_n (n : nunit) : check :=
  match n with
  | NNot n => CNot (tree_n n)
  | NLeaf l => CLeaf l
  | NParen e => ival (item_of e)
  end
with item_of (e : expr) : item :=
  match e with
  | E1 n => ICheck (tree_n n)
  | EBin e b n => step (item_of e) b (tree_n n)
  end.

Definition tree (e : expr) : check := ival (item_of e).


Lemma toks_n_NNot n : toks_n (NNot n) = TNot :: toks_n n. Proof. reflexivity. Qed.
Lemma toks_n_NLeaf l : toks_n (NLeaf l) = [TLeaf l]. Proof. reflexivity. Qed.
Lemma toks_n_NParen e : toks_n (NParen e) = TLp :: toks e ++ [TRp]. Proof. reflexivity. Qed.
Lemma toks_E1 n : toks (E1 n) = toks_n n. Proof. reflexivity. Qed.
Lemma toks_EBin e b n : toks (EBin e b n) = toks e ++ (if b then TAnd else TOr) :: toks_n n.
Proof. reflexivity. Qed.
Lemma tree_n_NNot n : tree_n (NNot n) = CNot (tree_n n). Proof. reflexivity. Qed.
Lemma tree_n_NLeaf l : tree_n (NLeaf l) = CLeaf l. Proof. reflexivity. Qed.
Lemma tree_n_NParen e : tree_n (NParen e) = ival (item_of e). Proof. reflexivity. Qed.
Lemma item_of_E1 n : item_of (E1 n) = ICheck (tree_n n). Proof. reflexivity. Qed.
Lemma item_of_EBin e b n : item_of (EBin e b n) = step (item_of e) b (tree_n n).
Proof. reflexivity. Qed.

(* documented meaning: a chain is an OR of ANDs; carried as (value of the closed disjuncts,
   value of the open conjunction) *)
Section Den.
Variable env : leaf -> bool.
Fixpoint den_n (n : nunit) : bool :=
  match n with NNot n => negb (den_n n) | NLeaf l => env l | NParen e => let (d, c) := den2 e in d || c end
with den2 (e : expr) : bool * bool :=
  match e with
  | E1 n => (false, den_n n)
  | EBin e true n => let (d, c) := den2 e in (d, c && den_n n)
  | EBin e false n => let (d, c) := den2 e in (d || c, den_n n)
  end.
Definition den (e : expr) : bool := let (d, c) := den2 e in d || c.
Lemma den_n_NNot n : den_n (NNot n) = negb (den_n n). Proof. reflexivity. Qed.
Lemma den_n_NLeaf l : den_n (NLeaf l) = env l. Proof. reflexivity. Qed.
Lemma den_n_NParen e : den_n (NParen e) = den e. Proof. reflexivity. Qed.
Lemma den2_E1 n : den2 (E1 n) = (false, den_n n). Proof. reflexivity. Qed.
Lemma den2_EBin e b n : den2 (EBin e b n) =
  let (d, c) := den2 e in if b then (d, c && den_n n) else (d || c, den_n n).
Proof. destruct b; reflexivity. Qed.
End Den.

(* ---------- the documented grammar, stratified by precedence ----------
     oexp ::= aexp | oexp "or" aexp          (lowest)
     aexp ::= nexp | aexp "and" nexp
     nexp ::= "not" nexp | leaf | "(" oexp ")"   (highest)                      *)
Inductive oexp := OA (a : aexp) | OOr (o : oexp) (a : aexp)
with aexp := AN (n : nexp) | AAnd (a : aexp) (n : nexp)
with nexp := XNot (n : nexp) | XLeaf (l : leaf) | XParen (o : oexp).

Scheme oexp_ind3 := Induction for oexp Sort Prop
with aexp_ind3 := Induction for aexp Sort Prop
with nexp_ind3 := Induction for nexp Sort Prop.
Combined Scheme oan_ind from oexp_ind3, aexp_ind3, nexp_ind3.

Fixpoint toks_o (o : oexp) : list token :=
  match o with OA a => toks_a a | OOr o a => toks_o o ++ TOr :: toks_a a end
with toks_a (a : aexp) : list token :=
  match a with AN n => toks_x n | AAnd a n => toks_a a ++ TAnd :: toks_x n end
with toks_x (n : nexp) : list token :=
  match n with
  | XNot n => TNot :: toks_x n
  | XLeaf l => [TLeaf l]
  | XParen o => TLp :: toks_o o ++ [TRp]
  end.

(* textbook denotation: parentheses > not > and > or *)
Section DenO.
Variable env : leaf -> bool.
Fixpoint den_o (o : oexp) : bool :=
  match o with OA a => den_a a | OOr o a => den_o o || den_a a end
with den_a (a : aexp) : bool :=
  match a with AN n => den_x n | AAnd a n => den_a a && den_x n end
with den_x (n : nexp) : bool :=
  match n with XNot n => negb (den_x n) | XLeaf l => env l | XParen o => den_o o end.
End DenO.

(* flattening into the left-nested chain: [pre] is the chain already built, to which the
   conjunction is attached with "or" *)
Fixpoint flat_o (o : oexp) : expr :=
  match o with
  | OA a => flat_a None a
  | OOr o a => flat_a (Some (flat_o o)) a
  end
with flat_a (pre : option expr) (a : aexp) : expr :=
  match a with
  | AN n => match pre with None => E1 (flat_x n) | Some e => EBin e false (flat_x n) end
  | AAnd a n => EBin (flat_a pre a) true (flat_x n)
  end
with flat_x (n : nexp) : nunit :=
  match n with
  | XNot n => NNot (flat_x n)
  | XLeaf l => NLeaf l
  | XParen o => NParen (flat_o o)
  end.

End Grammar.

Ltac gsimp :=
  rewrite ?toks_n_NNot, ?toks_n_NLeaf, ?toks_n_NParen, ?toks_E1, ?toks_EBin,
          ?tree_n_NNot, ?tree_n_NLeaf, ?tree_n_NParen, ?item_of_E1, ?item_of_EBin,
          ?den_n_NNot, ?den_n_NLeaf, ?den_n_NParen, ?den2_E1, ?den2_EBin.
Ltac gsimp_in H :=
  rewrite ?toks_n_NNot, ?toks_n_NLeaf, ?toks_n_NParen, ?toks_E1, ?toks_EBin,
          ?tree_n_NNot, ?tree_n_NLeaf, ?tree_n_NParen, ?item_of_E1, ?item_of_EBin,
          ?den_n_NNot, ?den_n_NLeaf, ?den_n_NParen, ?den2_E1, ?den2_EBin in H.
