(* Lexical layer of the documented language: a rule text is a sequence of lexemes -- "(" , ")" ,
   or a word (keyword in any letter case, or a check) -- each followed by a separator that is a
   (possibly empty) whitespace string.  An empty separator ("glue") is allowed only after "("
   or before ")". *)
From Coq Require Import String List Bool NArith.
From OP Require Import Base.Str Base.Check Base.ParserTypes Gen.GParser
                       Model.Leaf Model.SR Model.Tokenize.
Import ListNotations.
Set Implicit Arguments.

Inductive lexeme := XLp | XRp | XWord (text : str).

Definition lex_text (x : lexeme) : str :=
  match x with XLp => [lp] | XRp => [rp] | XWord t => t end.

(* the text: leading whitespace, then every lexeme followed by its separator *)
Definition render (lead : str) (ps : list (lexeme * str)) : str :=
  lead ++ flat_map (fun p => lex_text (fst p) ++ snd p) ps.

Definition allws (x : str) : bool := forallb isws x.

(* a word: non-empty, free of whitespace, not starting with "(", not ending with ")",
   and not a quoted string *)
Definition wf_word (t : str) : bool :=
  match t with
  | [] => false
  | c :: _ => negb (N.eqb c lp)
  end
  && forallb (fun c => negb (isws c)) t
  && match last_cp t with Some c => negb (N.eqb c rp) | None => false end
  && negb (is_quoted t).

Definition wf_lexeme (x : lexeme) : bool :=
  match x with XWord t => wf_word t | _ => true end.

(* separators: whitespace only; empty only after "(" or before ")" *)
Fixpoint seps_ok (ps : list (lexeme * str)) : bool :=
  match ps with
  | [] => true
  | (x, sep) :: r =>
      allws sep && wf_lexeme x &&
      match r with
      | [] => true
      | (y, _) :: _ =>
          match sep with
          | [] => match x, y with XLp, _ => true | _, XRp => true | _, _ => false end
          | _ => true
          end
      end && seps_ok r
  end.

Section Lex.
Variable extra : list (str * kcls).
(* the token a lexeme stands for *)
Definition lex_token (x : lexeme) : token leaf :=
  match x with
  | XLp => TLp
  | XRp => TRp
  | XWord t => let lowered := lower t in
               if mem_str lowered keywords then kw_token lowered
               else TLeaf (parse_check extra t)
  end.
End Lex.
