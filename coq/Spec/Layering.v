(* What a freshly started enforcer is documented to compute: per policy name, the last definition
   found in the order  registered default < policy file < policy directories in configured order,
   files inside a directory in sorted name order (dot-files and sub-directories ignored); for a
   name defined in no file, the registered default, adjusted by the deprecated-rule table. *)
From Coq Require Import String List Bool NArith.
From OP Require Import Base.Str Base.Check Base.ParserTypes Base.Res Base.Json
                       Model.Leaf Model.Tokenize Model.Print Model.Eval Model.Load.
Import ListNotations.
Set Implicit Arguments.

(* maps are compared by lookup *)
Definition meq {A} (a b : list (str * A)) : Prop := forall n, assoc n a = assoc n b.

(* every (name, value) pair of every policy file, in the documented order *)
Definition file_bindings (fs : fsys) : content :=
  (match fs_main fs with Some f => pf_content f | None => [] end) ++
  flat_map (fun d => flat_map (fun p => pf_content (snd p)) (walk_files d)) (existing (fs_dirs fs)).

(* the LAST binding of a name wins *)
Fixpoint last_binding {A} (n : str) (l : list (str * A)) : option A :=
  match l with
  | [] => None
  | (k, v) :: r => match last_binding n r with
                   | Some w => Some w
                   | None => if str_eqb k n then Some v else None end
  end.

Definition file_def (fs : fsys) (n : str) : option check :=
  match last_binding n (file_bindings fs) with Some v => Some (parse_value v) | None => None end.

(* the documented override table for a registered default with a deprecated predecessor, for a
   name that no file defines (an operator override under the new name always governs: it is a
   file definition and never reaches this table) *)
Definition spec_deprecated (cf : lconf) (fdef : str -> option check) (d : rdef) (dp : deprec) : check :=
  match (if str_eqb (dp_name dp) (rd_name d) then None else fdef (dp_name dp)) with
  | Some c =>
      (* an override under the old, renamed name governs unless it is merely rule:<new name> *)
      if str_eqb (print c) (s "rule:" ++ rd_name d)
      then (if negb (c_enforce_new_defaults cf) && negb (str_eqb (dp_check_str dp) (rd_check_str d))
            then COr [rd_check d; dp_check dp] else rd_check d)
      else c
  | None =>
      (* the new default, OR-ed with the old one only when enforce_new_defaults is off and the two
         check strings differ *)
      if negb (c_enforce_new_defaults cf) && negb (str_eqb (dp_check_str dp) (rd_check_str d))
      then COr [rd_check d; dp_check dp] else rd_check d
  end.

Fixpoint find_default (n : str) (regs : list rdef) : option rdef :=
  match regs with
  | [] => None
  | d :: r => if str_eqb (rd_name d) n then Some d else find_default n r
  end.

Definition spec_rule (cf : lconf) (fs : fsys) (n : str) : option check :=
  match file_def fs n with
  | Some c => Some c
  | None =>
      match find_default n (c_registered cf) with
      | Some d => Some (match rd_dep d with
                        | Some dp => spec_deprecated cf (file_def fs) d dp
                        | None => rd_check d end)
      | None => None
      end
  end.

(* names are registered at most once (register_default raises DuplicatePolicyError otherwise) *)
Definition regs_nodup (cf : lconf) : Prop := NoDup (map rd_name (c_registered cf)).
