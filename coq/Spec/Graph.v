(* The reference graph of a rule set: an independent, declarative reading of "references an
   undefined rule" and "can reach a reference cycle". *)
From Coq Require Import String List Bool NArith.
From OP Require Import Base.Str Base.Check Base.ParserTypes Model.Leaf Model.Eval Model.CheckRules.
Import ListNotations.
Set Implicit Arguments.

(* every rule: reference anywhere in the expression, also under not *)
Fixpoint refs_all (c : check) : list str :=
  match c with
  | CLeaf l => match rule_ref l with Some m => [m] | None => [] end
  | CNot c' => refs_all c'
  | CAnd cs | COr cs => (fix cat (l : list check) : list str :=
                           match l with [] => [] | x :: r => refs_all x ++ cat r end) cs
  end.

Section G.
Variable rs : store.

Definition edge (n m : str) : Prop := exists body, assoc n rs = Some body /\ In m (refs_all body).

Inductive path : str -> str -> Prop :=
| path_refl n : path n n
| path_step n m k : edge n m -> path m k -> path n k.

Definition on_cycle (m : str) : Prop := exists k, edge m k /\ path k m.

Definition refs_undefined (c : check) : Prop :=
  exists m, In m (refs_all c) /\ assoc m rs = None.

Definition reaches_cycle (c : check) : Prop :=
  exists n m, In n (refs_all c) /\ path n m /\ on_cycle m.
End G.
