(* What "the tool's output decides as the policy it was given" means: the effective check of every
   surviving name (Spec.Layering) is the same for an enforcer reading the tool's output as for an
   enforcer reading the original policy.  Files are dictionaries (distinct names). *)
From Coq Require Import String List Bool NArith.
From OP Require Import Base.Str Base.Check Base.ParserTypes Base.Res Base.Json
                       Model.Leaf Model.Print Model.Eval Model.Load Model.Tools Spec.Layering.
Import ListNotations.
Set Implicit Arguments.

(* an enforcer whose only policy file has this content *)
Definition main_only (ct : content) : fsys :=
  {| fs_main := Some {| pf_mtime := 1%N; pf_content := ct |}; fs_dirs := [] |}.

Definition is_file (ct : content) : Prop := NoDup (keys ct).

(* the deprecated names that were renamed *)
Definition renamed_olds (regs : list rdef) : list str :=
  flat_map (fun d => match rd_dep d with
                     | Some dp => if str_eqb (dp_name dp) (rd_name d) then [] else [dp_name dp]
                     | None => [] end) regs.

(* the quantifier's exclusions: a file that defines both a deprecated name and one of its
   successors is self-conflicting; no registered name is itself the renamed predecessor of another *)
Definition not_self_conflicting (regs : list rdef) (ct : content) : Prop :=
  (forall d dp, In d regs -> rd_dep d = Some dp -> dp_name dp <> rd_name d ->
                has_key (dp_name dp) ct = true -> has_key (rd_name d) ct = false) /\
  (forall d, In d regs -> ~ In (rd_name d) (renamed_olds regs)).

(* default configuration of the quantifier: enforce_new_defaults on, overwrite mode *)
Definition default_conf (regs : list rdef) : lconf :=
  {| c_enforce_new_defaults := true; c_registered := regs; c_overwrite := true |}.
