(* Model of oslo_policy.generator._validate_policy (oslopolicy-validator): return code. *)
From Coq Require Import String List Bool NArith.
From OP Require Import Base.Str Base.Check Base.ParserTypes Base.Res Base.Json
                       Model.Leaf Model.Print Model.Eval Model.CheckRules Model.Load.
Import ListNotations.
Set Implicit Arguments.

(* the literal value in the policy file is '!' (or YAML null, which an unquoted ! reads as) *)
Definition literally_deny (v : jv) : bool :=
  match v with JNull => true | JStr x => str_eqb x [33%N] | _ => false end.

(* a file rule that was forced to '!' although its literal value is not '!' : a parse failure *)
Definition parse_failed (rules : store) (main : content) (n : str) : bool :=
  match assoc n rules, assoc n main with
  | Some c, Some v => str_eqb (print c) [33%N] && negb (literally_deny v)
  | _, _ => false
  end.

(* true = return code 0 *)
Definition validate (cf : lconf) (fs : fsys) : bool :=
  match fs_main fs with
  | None => false                                   (* configured policy file not found *)
  | Some f =>
      let st := load_rules cf init_state fs false in
      check_rules (e_rules st) false
      && forallb (fun p => has_key (fst p) (map (fun d => (rd_name d, tt)) (c_registered cf))
                           && negb (parse_failed (e_rules st) (pf_content f) (fst p)))
                 (e_file_rules st)
  end.
