(* Wire protocol: decode a request (Base.Sx.sx), run the model or a spec oracle, encode the
   answer.  The OCaml driver is generic; every suite lives here and is extracted. *)
From Coq Require Import String List Bool NArith ZArith.
From OP Require Import Base.Str Base.Check Base.ParserTypes Base.Res Base.Json Base.Sx Base.DTree
                       Gen.GParser Gen.GChecks Gen.GPolicy
                       Model.Leaf Model.SR Model.Tokenize Model.Print Model.Eval Model.Trace Model.Enforce Model.CheckRules Model.Load Model.Pick Model.Http Model.Generator Model.Checker Model.Tools Model.Validator
                       Spec.Grammar Spec.ListRule Spec.Template Spec.LeafSpec Spec.Layering.
Import ListNotations.
Set Implicit Arguments.
Local Open Scope Z_scope.

(* ---------- encoders ---------- *)
Definition exn_code (e : exn) : Z :=
  match e with
  | EKeyError => 1 | ETypeError => 2 | EValueError => 3 | ESyntaxError => 4
  | EAttributeError => 5 | EIndexError => 6 | ERuntimeError => 7 | ERecursionError => 8
  | EMemoryError => 9 | EPolicyNotAuthorized => 10 | EInvalidScope => 11
  | EInvalidContextObject => 12 | EPolicyNotRegistered => 13 | EInvalidDefinition => 14
  | ECustom t => 100 + Z.of_N t
  | EOther t => 1000 + Z.of_N t
  end.
Definition exn_of_code (z : Z) : exn :=
  if z =? 1 then EKeyError else if z =? 2 then ETypeError else if z =? 3 then EValueError
  else if z =? 4 then ESyntaxError else if z =? 5 then EAttributeError
  else if z =? 6 then EIndexError else if z =? 7 then ERuntimeError
  else if z =? 8 then ERecursionError else if z =? 9 then EMemoryError
  else if z =? 10 then EPolicyNotAuthorized else if z =? 11 then EInvalidScope
  else if z =? 12 then EInvalidContextObject else if z =? 13 then EPolicyNotRegistered
  else if z =? 14 then EInvalidDefinition
  else if z <? 1000 then ECustom (Z.to_N (z - 100)) else EOther (Z.to_N (z - 1000)).

Definition sx_of_res {T} (f : T -> sx) (r : res T) : sx :=
  match r with
  | Ok a => L [A 0; f a]
  | Raise e => L [A 1; A (exn_code e)]
  | OutOfFuel => L [A 2]
  end.

Definition kcls_code (c : kcls) : Z :=
  match c with KRule => 0 | KRole => 1 | KGeneric => 2 | KHttp => 3 | KHttps => 4
  | KCustom id => 10 + Z.of_N id end.
Definition kcls_of_code (z : Z) : kcls :=
  if z =? 0 then KRule else if z =? 1 then KRole else if z =? 2 then KGeneric
  else if z =? 3 then KHttp else if z =? 4 then KHttps else KCustom (Z.to_N (z - 10)).

Definition sx_of_leaf (l : leaf) : sx :=
  match l with
  | LTrue => L [A 0]
  | LFalse => L [A 1]
  | LCheck c k m => L [A 2; A (kcls_code c); sx_of_str k; sx_of_str m]
  end.
Fixpoint sx_of_check (c : check) : sx :=
  match c with
  | CLeaf l => sx_of_leaf l
  | CNot c' => L [A 3; sx_of_check c']
  | CAnd cs => L [A 4; L ((fix go (l : list check) : list sx :=
                             match l with [] => [] | x :: r => sx_of_check x :: go r end) cs)]
  | COr cs => L [A 5; L ((fix go (l : list check) : list sx :=
                            match l with [] => [] | x :: r => sx_of_check x :: go r end) cs)]
  end.
Definition sx_of_parsed (p : parsed leaf) : sx :=
  match p with PCheck c => L [A 0; sx_of_check c; sx_of_str (print c)] | PRaw => L [A 1] end.
Definition sx_of_token (t : token leaf) : sx :=
  match t with
  | TLp => A 0 | TRp => A 1 | TAnd => A 2 | TOr => A 3 | TNot => A 4 | TStr => A 5
  | TLeaf l => L [A 6; sx_of_leaf l]
  end.

(* ---------- decoders ---------- *)
Definition dextra (x : sx) : option (list (str * kcls)) :=
  dlist (dpair dstr (fun c => match c with A z => Some (kcls_of_code z) | _ => None end)) x.

Definition dtoken (extra : list (str * kcls)) (x : sx) : option (token leaf) :=
  match x with
  | A z => if z =? 0 then Some TLp else if z =? 1 then Some TRp else if z =? 2 then Some TAnd
           else if z =? 3 then Some TOr else if z =? 4 then Some TNot
           else if z =? 5 then Some TStr else None
  | L [A 6; t] => match dstr t with Some t' => Some (TLeaf (parse_check extra t')) | None => None end
  | _ => None
  end.

(* a check given as a rule value, parsed by the model *)
Definition dcheck (extra : list (str * kcls)) (x : sx) : option check :=
  match djv x with
  | Some v => match parse_rule_value extra v with
              | Ok (PCheck c) => Some c
              | _ => None end
  | None => None
  end.

Definition ddrule (extra : list (str * kcls)) (x : sx) : option drule :=
  match x with
  | L [A 0] => Some DNone
  | L [A 1; n] => match dstr n with Some n' => Some (DName n') | None => None end
  | L [A 2; c] => match dcheck extra c with Some c' => Some (DCheck c') | None => None end
  | L [A 3] => Some DDict
  | _ => None
  end.

Definition dlit (x : sx) : option lit_outcome :=
  match x with
  | L [A 0; v] => match dstr v with Some v' => Some (LitStr v') | None => None end
  | L [A 1; A e] => Some (LitRaise (exn_of_code e))
  | _ => None
  end.
Definition dhttp (x : sx) : option http_outcome :=
  match x with
  | L [A 0; b] => match dstr b with Some b' => Some (HReply b') | None => None end
  | L [A 1] => Some HTimeout
  | L [A 2; A e] => Some (HFault (exn_of_code e))
  | _ => None
  end.
Definition dresb (x : sx) : option (res bool) :=
  match x with
  | L [A 0; A b] => Some (Ok (negb (b =? 0)))
  | L [A 1; A e] => Some (Raise (exn_of_code e))
  | _ => None
  end.

Fixpoint assocN {T} (k : N) (l : list (N * T)) : option T :=
  match l with [] => None | (k', v) :: r => if N.eqb k' k then Some v else assocN k r end.

(* world: [rules; default; target; creds; lit table; http outcome; custom table] *)
Definition dworld (extra : list (str * kcls)) (x : sx) : option world :=
  match x with
  | L [rules; dflt; tgt; creds; lit; http; custom] =>
      match dlist (dpair dstr (dcheck extra)) rules, ddrule extra dflt, djv tgt, djv creds,
            dlist (dpair dstr dlit) lit, dhttp http, dlist (dpair dN dresb) custom with
      | Some rs, Some d, Some t, Some c, Some lt, Some h, Some cu =>
          Some {| w_rules := rs; w_default := d; w_target := t; w_creds := c;
                  w_lit := fun k => match assoc k lt with
                                    | Some o => o
                                    | None => LitRaise (EOther 97) end;    (* oracle not told *)
                  w_http := fun _ _ => h;
                  w_custom := fun id _ => match assocN id cu with
                                          | Some r => r
                                          | None => Raise (EOther 96) end |}
      | _, _, _, _, _, _, _ => None
      end
  | _ => None
  end.

Definition dectx (extra : list (str * kcls)) (x : sx) : option ectx :=
  match x with
  | L [w; reg; es] =>
      match dworld extra w, dlist (dpair dstr (dlist dstr)) reg, dbool es with
      | Some w', Some reg', Some es' =>
          Some {| e_world := w'; e_registered := reg'; e_enforce_scope := es' |}
      | _, _, _ => None
      end
  | _ => None
  end.

Definition drulearg (extra : list (str * kcls)) (x : sx) : option rulearg :=
  match x with
  | L [A 0; n] => match dstr n with Some n' => Some (RName n') | None => None end
  | L [A 1; c; types] => match dcheck extra c, dlist dstr types with
                         | Some c', Some t => Some (RObj c' t) | _, _ => None end
  | _ => None
  end.
Definition dexc (x : sx) : option excarg :=
  match x with L [] => Some XDefault | L [A t] => Some (XCustom (Z.to_N t)) | _ => None end.
Definition dcredarg (x : sx) : option credarg :=
  match x with
  | L [A 0; c] => match djv c with Some c' => Some (CMapping c') | None => None end
  | L [A 1] => Some CNotMapping
  | _ => None
  end.

(* ---------- suites ---------- *)
Definition bad : sx := sx_err 0.

Definition suite_tokenize (args : list sx) : sx :=
  match args with
  | [ex; x] => match dextra ex, dstr x with
               | Some ex', Some x' => sx_of_list sx_of_token (tokenize ex' x')
               | _, _ => bad end
  | _ => bad
  end.

Definition suite_parse_value (args : list sx) : sx :=
  match args with
  | [ex; v] => match dextra ex, djv v with
               | Some ex', Some v' => sx_of_res sx_of_parsed (parse_rule_value ex' v')
               | _, _ => bad end
  | _ => bad
  end.

Definition suite_parse_tokens (args : list sx) : sx :=
  match args with
  | [ex; ts] => match dextra ex with
                | Some ex' => match dlist (dtoken ex') ts with
                              | Some ts' => sx_of_option sx_of_parsed (parse_tokens ts')
                              | None => bad end
                | None => bad end
  | _ => bad
  end.

Definition sx_of_event (e : event) : sx :=
  match e with
  | EvCustom id cur => L [A 0; sx_of_N id; sx_of_option sx_of_str cur]
  | EvHttp url cur => L [A 1; sx_of_str url; sx_of_option sx_of_str cur]
  end.

(* -> [result; trace] *)
Definition suite_enforce (args : list sx) : sx :=
  match args with
  | [ex; cx; ca; ra; dr; xc; auth] =>
      match dextra ex with
      | Some ex' =>
          match dectx ex' cx, dcredarg ca, drulearg ex' ra, dbool dr, dexc xc, dbool auth with
          | Some cx', Some ca', Some ra', Some dr', Some xc', Some auth' =>
              let registered := match ra' with
                                | RName n => match assoc n (e_registered cx') with Some _ => true | None => false end
                                | _ => false end in
              L [sx_of_res sx_of_bool
                   (if auth' then match ra' with
                                  | RName n => authorize cx' ca' n dr' xc'
                                  | _ => Raise (EOther 95) end
                    else enforce cx' ca' ra' dr' xc');
                 sx_of_list sx_of_event
                   (if auth' && negb registered then [] else enforce_trace cx' ca' ra' dr')]
          | _, _, _, _, _, _ => bad
          end
      | None => bad
      end
  | _ => bad
  end.

(* ---------- spec oracles ---------- *)
(* oexp over leaf indices *)
Fixpoint doexp (fuel : nat) (x : sx) : option (oexp N) :=
  match fuel with O => None | S f =>
    match x with
    | L [A 0; a] => match daexp f a with Some a' => Some (OA a') | None => None end
    | L [A 1; o; a] => match doexp f o, daexp f a with
                       | Some o', Some a' => Some (OOr o' a') | _, _ => None end
    | _ => None end end
with daexp (fuel : nat) (x : sx) : option (aexp N) :=
  match fuel with O => None | S f =>
    match x with
    | L [A 0; n] => match dnexp f n with Some n' => Some (AN n') | None => None end
    | L [A 1; a; n] => match daexp f a, dnexp f n with
                       | Some a', Some n' => Some (AAnd a' n') | _, _ => None end
    | _ => None end end
with dnexp (fuel : nat) (x : sx) : option (nexp N) :=
  match fuel with O => None | S f =>
    match x with
    | L [A 0; n] => match dnexp f n with Some n' => Some (XNot n') | None => None end
    | L [A 1; A i] => Some (XLeaf (Z.to_N i))
    | L [A 2; o] => match doexp f o with Some o' => Some (XParen o') | None => None end
    | _ => None end end.

Definition sx_of_itoken (t : token N) : sx :=
  match t with
  | TLp => A 0 | TRp => A 1 | TAnd => A 2 | TOr => A 3 | TNot => A 4 | TStr => A 5
  | TLeaf i => L [A 6; A (Z.of_N i)]
  end.

(* all assignments to leaves 0..k-1, as bit masks 0 .. 2^k-1 *)
Definition masks (k : nat) : list N := map N.of_nat (seq 0 (Nat.pow 2 k)).

(* C01 oracle: the token sequence of a sentence of the documented grammar and its documented
   value under every assignment *)
Definition suite_spec_c01 (args : list sx) : sx :=
  match args with
  | [o; k] => match doexp 400 o, dnat k with
              | Some o', Some k' =>
                  L [sx_of_list sx_of_itoken (toks_o o');
                     sx_of_list (fun m => sx_of_bool (den_o (fun i => N.testbit m i) o')) (masks k')]
              | _, _ => bad end
  | _ => bad
  end.

(* leaf valuation induced by a role list (used by spec oracles over role checks) *)
Definition role_env (roles : list str) (l : leaf) : bool :=
  match l with
  | LTrue => true
  | LFalse => false
  | LCheck KRole _ m => mem_str (lower m) (map lower roles)
  | _ => false
  end.

Definition suite_spec_list (args : list sx) : sx :=
  match args with
  | [ex; v; roles] =>
      match dextra ex, djv v, dlist dstr roles with
      | Some ex', Some (JList l), Some rs =>
          L [sx_of_bool (rule_shaped_list l); sx_of_bool (spec_list ex' (role_env rs) l)]
      | _, _, _ => bad end
  | _ => bad
  end.

(* C02 oracle: is the value rule-shaped; for a text, is it a sentence of the language
   (by parser completeness and soundness: exactly when parse_tokens succeeds) *)
Definition suite_spec_c02 (args : list sx) : sx :=
  match args with
  | [ex; v] =>
      match dextra ex, djv v with
      | Some ex', Some v' =>
          let shaped := match v' with JStr _ => true | JList l => rule_shaped_list l | _ => false end in
          let sent := match v' with
                      | JStr [] => true
                      | JStr x => match parse_tokens (tokenize ex' x) with Some _ => true | None => false end
                      | _ => false end in
          L [sx_of_bool shaped; sx_of_bool sent]
      | _, _ => bad end
  | _ => bad
  end.

Definition dpart (x : sx) : option part :=
  match x with
  | L [A 0; t] => match dstr t with Some t' => Some (PLit t') | None => None end
  | L [A 1; k] => match dstr k with Some k' => Some (PHole k') | None => None end
  | _ => None
  end.

(* leaf oracles: [0; parts; tgt; creds] role,  [1; lit; path; parts; tgt; creds] generic
   -> [template text; well-formed?; documented decision] *)
Definition suite_spec_leaf (args : list sx) : sx :=
  match args with
  | [A 0; ps; tgt; creds] =>
      match dlist dpart ps, djv tgt, djv creds with
      | Some ps', Some t, Some c =>
          L [sx_of_str (tpl_text ps'); sx_of_bool (forallb wf_part ps'); sx_of_bool (spec_role ps' t c)]
      | _, _, _ => bad end
  | [A 1; lit; path; ps; tgt; creds] =>
      match dlit lit, dlist dstr path, dlist dpart ps, djv tgt, djv creds with
      | Some l, Some pa, Some ps', Some t, Some c =>
          L [sx_of_str (tpl_text ps'); sx_of_bool (forallb wf_part ps');
             sx_of_bool (spec_generic l pa ps' t c)]
      | _, _, _, _, _ => bad end
  | _ => bad
  end.

(* check_rules: [extra; rules; skip_undefined] -> [undefined names; cyclic names; result] *)
Definition suite_check_rules (args : list sx) : sx :=
  match args with
  | [ex; rules; skip] =>
      match dextra ex with
      | Some ex' =>
          match dlist (dpair dstr (dcheck ex')) rules, dbool skip with
          | Some rs, Some sk =>
              L [sx_of_list sx_of_str (undefined_names rs sk);
                 sx_of_list sx_of_str (cyclic_names rs);
                 sx_of_bool (check_rules rs sk)]
          | _, _ => bad end
      | None => bad end
  | _ => bad
  end.

(* ---------- loader ---------- *)
Definition dcontent (x : sx) : option content := dlist (dpair dstr djv) x.
Definition dpfile (x : sx) : option pfile :=
  match x with
  | L [A m; ct] => match dcontent ct with
                   | Some c => Some {| pf_mtime := Z.to_N m; pf_content := c |} | None => None end
  | _ => None end.
Definition ddentry (x : sx) : option dentry :=
  match x with
  | L [A 0; f] => match dpfile f with Some f' => Some (EFile f') | None => None end
  | L [A 1; A m] => Some (ESub (Z.to_N m))
  | _ => None end.
Definition dpdir (x : sx) : option pdir :=
  match x with
  | L [A m; es] => match dlist (dpair dstr ddentry) es with
                   | Some es' => Some {| pd_mtime := Z.to_N m; pd_entries := es' |} | None => None end
  | _ => None end.
Definition dfsys (x : sx) : option fsys :=
  match x with
  | L [m; ds] => match dopt dpfile m, dlist (dopt dpdir) ds with
                 | Some m', Some ds' => Some {| fs_main := m'; fs_dirs := ds' |} | _, _ => None end
  | _ => None end.
Definition drdef (x : sx) : option rdef :=
  match x with
  | L [n; cs; dep; sc] =>
      match dstr n, dstr cs, dopt (dpair dstr dstr) dep, dlist dstr sc with
      | Some n', Some cs', Some dep', Some sc' =>
          Some {| rd_name := n'; rd_check_str := cs'; rd_check := parse_value (JStr cs');
                  rd_dep := match dep' with
                            | Some (dn, dcs) => Some {| dp_name := dn; dp_check_str := dcs;
                                                        dp_check := parse_value (JStr dcs) |}
                            | None => None end;
                  rd_scope := sc' |}
      | _, _, _, _ => None end
  | _ => None end.
Definition dlconf (x : sx) : option lconf :=
  match x with
  | L [en; regs; ow] => match dbool en, dlist drdef regs, dbool ow with
                        | Some en', Some regs', Some ow' =>
                            Some {| c_enforce_new_defaults := en'; c_registered := regs'; c_overwrite := ow' |}
                        | _, _, _ => None end
  | _ => None end.

Definition sx_of_est (s : est) : sx :=
  L [sx_of_list (fun p => L [sx_of_str (fst p); sx_of_str (print (snd p))]) (e_rules s);
     sx_of_list (fun p => L [sx_of_str (fst p); sx_of_str (print (snd p))]) (e_file_rules s);
     sx_of_bool (e_path_known s);
     sx_of_option (fun p => sx_of_N (fst p)) (e_mcache s);
     sx_of_list (sx_of_option sx_of_N) (e_dmtimes s)].

(* history: [conf; steps] with step = [fsys; force]  ->  the state after every load *)
Definition suite_load (args : list sx) : sx :=
  match args with
  | [cf; steps] =>
      match dlconf cf, dlist (dpair dfsys dbool) steps with
      | Some cf', Some steps' =>
          L (snd (fold_left (fun acc st =>
                               let s' := load_rules cf' (fst acc) (fst st) (snd st) in
                               (s', snd acc ++ [sx_of_est s']))
                            steps' (init_state, [])))
      | _, _ => bad end
  | _ => bad
  end.

(* documented layering: [conf; fsys; names] -> printed effective check (or none) per name *)
Definition suite_spec_load (args : list sx) : sx :=
  match args with
  | [cf; fs; names] =>
      match dlconf cf, dfsys fs, dlist dstr names with
      | Some cf', Some fs', Some ns =>
          sx_of_list (fun n => sx_of_option (fun c => sx_of_str (print c)) (spec_rule cf' fs' n)) ns
      | _, _, _ => bad end
  | _ => bad
  end.

(* file selection: [is_yaml; nonempty; fallback; found_opt; loc; found_json] -> [model; spec] *)
Definition suite_pick (args : list sx) : sx :=
  match args with
  | [a; b; c; d; A l; f] =>
      match dbool a, dbool b, dbool c, dbool d, dbool f with
      | Some a', Some b', Some c', Some d', Some f' =>
          let i := {| p_opt_is_yaml := a'; p_opt_nonempty := b'; p_fallback := c'; p_found_opt := d';
                      p_loc := if l =? 0 then LocOptDefault else if l =? 1 then LocSetDefault
                               else if l =? 2 then LocUser else if l =? 3 then LocSetOverride else LocOther;
                      p_found_json := f' |} in
          L [sx_of_bool (picks_json i); sx_of_bool (spec_picks_json i)]
      | _, _, _, _, _ => bad end
  | _ => bad
  end.

(* ---------- remote checks ---------- *)
Fixpoint sx_of_jv (v : jv) : sx :=
  match v with
  | JNull => L [A 0]
  | JBool b => L [A 1; sx_of_bool b]
  | JInt z => L [A 2; A z]
  | JFloat r => L [A 3; sx_of_str r]
  | JStr x => L [A 4; sx_of_str x]
  | JList l => L [A 5; L ((fix go (l : list jv) : list sx :=
                             match l with [] => [] | x :: r => sx_of_jv x :: go r end) l)]
  | JDict kvs => L [A 6; L ((fix go (l : list (str * jv)) : list sx :=
                               match l with [] => [] | (k, x) :: r => L [sx_of_str k; sx_of_jv x] :: go r end) kvs)]
  | JObj t => L [A 7; sx_of_N t]
  end.

(* [form?; current rule (option); target; creds] -> [form?; rule; target; credentials] *)
Definition suite_payload (args : list sx) : sx :=
  match args with
  | [f; cur; tgt; creds] =>
      match dbool f, dopt dstr cur, djv tgt, djv creds with
      | Some f', Some cur', Some t, Some c =>
          match construct_payload f' cur' t c with
          | PForm r t' c' => L [A 1; sx_of_jv r; sx_of_jv t'; sx_of_jv c']
          | PJson r t' c' => L [A 0; sx_of_jv r; sx_of_jv t'; sx_of_jv c']
          end
      | _, _, _, _ => bad end
  | _ => bad
  end.

(* [cert; key; ca; verify] each file = () | (exists readable) -> res verify *)
Definition dfstat (x : sx) : option (option fstat) :=
  match x with
  | L [] => Some None
  | L [A e; A r] => Some (Some {| f_exists := negb (e =? 0); f_readable := negb (r =? 0) |})
  | _ => None end.
Definition suite_tls (args : list sx) : sx :=
  match args with
  | [c; k; ca; v] =>
      match dfstat c, dfstat k, dfstat ca, dbool v with
      | Some c', Some k', Some ca', Some v' =>
          sx_of_res (fun r => A (match r with VFalse => 0 | VTrue => 1 | VCaFile => 2 end))
                    (tls_precheck {| t_cert := c'; t_key := k'; t_ca := ca'; t_verify := v' |})
      | _, _, _, _ => bad end
  | _ => bad
  end.

(* ---------- sample generator ---------- *)
Definition ddesc (x : sx) : option (option (list str)) := dopt (dlist dstr) x.
Definition ddep (x : sx) : option deprecation :=
  match x with
  | L [A 0] => Some DepNone
  | L [A 1; since; reason] =>
      match dstr since, ddesc reason with
      | Some s', Some r' => Some (DepRemoval s' r') | _, _ => None end
  | L [A 2; on; oc; since; reason] =>
      match dstr on, dstr oc, dstr since, ddesc reason with
      | Some on', Some oc', Some s', Some r' => Some (DepRule on' oc' s' r') | _, _, _, _ => None end
  | _ => None end.
Definition dgdefault (x : sx) : option gdefault :=
  match x with
  | L [n; cs; desc; ops; sc; dep] =>
      match dstr n, dstr cs, ddesc desc, dopt (dlist (dpair dstr dstr)) ops, dopt (dlist dstr) sc, ddep dep with
      | Some n', Some cs', Some d', Some o', Some sc', Some dep' =>
          Some {| g_name := n'; g_check_str := cs'; g_description := d'; g_operations := o';
                  g_scope := sc'; g_dep := dep' |}
      | _, _, _, _, _, _ => None end
  | _ => None end.
Definition sx_of_oline (o : oline) : sx :=
  match o with OL l => L [A 0; sx_of_str l] | OW t => L [A 1; sx_of_str t] end.

(* [exclude_deprecated; defaults] -> [yaml lines with wrap placeholders; json text] *)
Definition suite_sample (args : list sx) : sx :=
  match args with
  | [ex; ds] =>
      match dbool ex, dlist dgdefault ds with
      | Some ex', Some ds' => L [sx_of_list sx_of_oline (sample_yaml ex' ds'); sx_of_str (sample_json ds')]
      | _, _ => bad end
  | _ => bad
  end.

(* ---------- oslopolicy-checker ---------- *)
Definition sx_of_verdict (v : verdict) : sx :=
  A (match v with VPassed => 1 | VFailed => 0 | VException => 2 end).

(* [rules; token; is_admin; target file (option); requested rule (option); lit table]
   -> res [listing or single verdict] *)
Definition suite_checker (args : list sx) : sx :=
  match args with
  | [rules; token; adm; tf; req; lit] =>
      match dlist (dpair dstr (dcheck [])) rules, djv token, dbool adm, dopt djv tf, dopt dstr req,
            dlist (dpair dstr dlit) lit with
      | Some rs, Some tok, Some adm', Some tf', Some req', Some lt =>
          sx_of_res (fun x => x)
            (bind (derive_creds tok adm') (fun creds =>
             bind (derive_target creds tok tf') (fun tgt =>
             let w := {| w_rules := rs; w_default := default_name; w_target := tgt; w_creds := creds;
                         w_lit := fun k => match assoc k lt with Some o => o | None => LitRaise (EOther 97) end;
                         w_http := fun _ _ => HTimeout;
                         w_custom := fun _ _ => Raise (EOther 96) |} in
             Ok (match req' with
                 | Some key => L [L [sx_of_str key; sx_of_verdict (requested w key)]]
                 | None => sx_of_list (fun p => L [sx_of_str (fst p); sx_of_verdict (snd p)]) (listing w)
                 end))))
      | _, _, _, _, _, _ => bad end
  | _ => bad
  end.

(* ---------- rewriting tools: [tool; defaults; file] -> resulting file / names ---------- *)
Definition sx_of_content (ct : content) : sx :=
  sx_of_list (fun p => L [sx_of_str (fst p); sx_of_jv (snd p)]) ct.
Definition suite_tools (args : list sx) : sx :=
  match args with
  | [A t; regs; file] =>
      match dlist drdef regs, dcontent file with
      | Some regs', Some f =>
          if t =? 0 then sx_of_content (upgrade regs' f)
          else if t =? 1 then sx_of_content (convert regs' f)
          else if t =? 2 then sx_of_content (generate regs' f)
          else sx_of_list sx_of_str (redundant regs' f)
      | _, _ => bad end
  | _ => bad
  end.

(* oslopolicy-validator: [conf; fsys] -> return code *)
Definition suite_validate (args : list sx) : sx :=
  match args with
  | [cf; fs] => match dlconf cf, dfsys fs with
                | Some cf', Some fs' => A (if validate cf' fs' then 0 else 1)
                | _, _ => bad end
  | _ => bad
  end.

Definition wire_main (x : sx) : sx :=
  match x with
  | L (A 1 :: args) => suite_tokenize args
  | L (A 2 :: args) => suite_parse_value args
  | L (A 3 :: args) => suite_parse_tokens args
  | L (A 4 :: args) => suite_enforce args
  | L (A 5 :: args) => suite_spec_c01 args
  | L (A 6 :: args) => suite_spec_list args
  | L (A 7 :: args) => suite_spec_c02 args
  | L (A 8 :: args) => suite_spec_leaf args
  | L (A 9 :: args) => suite_check_rules args
  | L (A 10 :: args) => suite_load args
  | L (A 11 :: args) => suite_spec_load args
  | L (A 12 :: args) => suite_pick args
  | L (A 13 :: args) => suite_payload args
  | L (A 14 :: args) => suite_tls args
  | L (A 15 :: args) => suite_sample args
  | L (A 16 :: args) => suite_checker args
  | L (A 17 :: args) => suite_tools args
  | L (A 18 :: args) => suite_validate args
  | _ => sx_err 1
  end.
