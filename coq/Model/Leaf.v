(* Leaves of check trees and oslo_policy._parser._parse_check. *)
From Coq Require Import List Bool NArith.
From OP Require Import Base.Str Base.Check Base.ParserTypes Gen.GParser Gen.GChecks.
Import ListNotations.
Set Implicit Arguments.

Inductive leaf :=
| LTrue | LFalse                          (* TrueCheck / FalseCheck *)
| LCheck (c : kcls) (k m : str).          (* Check subclass instance: kind, match *)

Notation check := (check leaf).

Definition colon : N := 58%N.
(* rule.split(':', 1) unpacked into (kind, match): None models the ValueError of the unpacking *)
Fixpoint split_colon (x : str) : option (str * str) :=
  match x with
  | [] => None
  | c :: r => if N.eqb c colon then Some ([], r)
              else match split_colon r with
                   | Some (k, m) => Some (c :: k, m)
                   | None => None end
  end.

Fixpoint reg_lookup (k : option str) (l : list (option str * kcls)) : option kcls :=
  match l with
  | [] => None
  | (k', c) :: r =>
      let same := match k, k' with
                  | None, None => true
                  | Some a, Some b => str_eqb a b
                  | _, _ => false end in
      (* a later @register for the same name overwrites an earlier one *)
      match reg_lookup k r with Some c' => Some c' | None => if same then Some c else None end
  end.

Section ParseCheck.
(* kinds registered by the caller at run time (policy.register), searched like registered ones *)
Variable extra : list (str * kcls).

Definition dispatch (k : str) : option kcls :=
  match assoc k extensions with
  | Some c => Some c
  | None =>
      match reg_lookup (Some k) (registered ++ map (fun p => (Some (fst p), snd p)) extra) with
      | Some c => Some c
      | None => reg_lookup None registered
      end
  end.

Definition parse_check (x : str) : leaf :=
  if str_eqb x [33%N] then LFalse           (* '!' *)
  else if str_eqb x [64%N] then LTrue       (* '@' *)
  else match split_colon x with
       | None => LFalse                      (* no colon: fail closed *)
       | Some (k, m) => match dispatch k with
                        | Some c => LCheck c k m
                        | None => LFalse     (* no handler *)
                        end
       end.
End ParseCheck.
