(* Model of oslo_policy._external: what HttpCheck/HttpsCheck send, and the TLS file pre-checks.
   (The decision itself -- URL substitution, reply test, Timeout -> RuntimeError -- is
   Model.Eval.http_check.) *)
From Coq Require Import String List Bool NArith.
From OP Require Import Base.Str Base.Res Base.Json Model.Eval.
Import ListNotations.
Set Implicit Arguments.

(* temp_target: a deep copy of the target in which top-level instances of object() are replaced
   by {} *)
Definition blank_target (tgt : jv) : jv :=
  match tgt with
  | JDict kvs => JDict (map (fun p => match snd p with
                                      | JObj _ => (fst p, JDict [])
                                      | _ => p end) kvs)
  | _ => tgt
  end.

Inductive payload :=
| PForm (rule target credentials : jv)      (* data=: each field JSON-encoded separately *)
| PJson (rule target credentials : jv).     (* json=: one document *)

Definition construct_payload (form_encoded : bool) (cur : option str) (tgt creds : jv) : payload :=
  let rule := match cur with Some n => JStr n | None => JNull end in
  if form_encoded then PForm rule (blank_target tgt) creds
  else PJson rule (blank_target tgt) creds.

(* HttpsCheck: client certificate / key / CA file pre-checks *)
Record fstat := { f_exists : bool; f_readable : bool }.
Record tlsconf := {
  t_cert : option fstat; t_key : option fstat; t_ca : option fstat; t_verify : bool
}.
Inductive verify := VFalse | VTrue | VCaFile.
Definition file_check (f : option fstat) (need_readable : bool) : res unit :=
  match f with
  | Some st => if negb (f_exists st) then Raise ERuntimeError
               else if need_readable && negb (f_readable st) then Raise ERuntimeError else Ok tt
  | None => Ok tt
  end.
Definition tls_precheck (c : tlsconf) : res verify :=
  bind (file_check (t_cert c) true) (fun _ =>
  bind (file_check (t_key c) true) (fun _ =>
  if t_verify c then
    match t_ca c with
    | Some _ => bind (file_check (t_ca c) false) (fun _ => Ok VCaFile)
    | None => Ok VTrue
    end
  else Ok VFalse)).
