(* Model of Enforcer.enforce / authorize / _enforce_scope.  The scope gate is the GENERATED
   decision tree [scope_tree] run on the atoms of the request. *)
From Coq Require Import String List Bool NArith ZArith.
From OP Require Import Base.Str Base.Check Base.ParserTypes Base.Res Base.Json Base.DTree
                       Gen.GPolicy Model.Leaf Model.Eval Model.Trace.
Import ListNotations.
Set Implicit Arguments.

Definition jset (v : jv) (k : str) (x : jv) : jv :=
  match v with JDict kvs => JDict (dset k x kvs) | _ => v end.

(* creds['system'] = creds.get('system_scope') when the latter is truthy *)
Definition mirror (creds : jv) : jv :=
  let sc := jget creds (s "system_scope") in
  if truthy sc then jset creds (s "system") sc else creds.

(* atoms of _enforce_scope (numbering fixed in gen/dtree.py) *)
Definition scope_env (creds : jv) (types : list str) (enforce_scope do_raise : bool) (a : N)
  : option bool :=
  match a with
  | 0%N => Some (truthy (jget creds (s "system")))
  | 1%N => Some (truthy (jget creds (s "domain_id")))
  | 2%N => Some (mem_str (s "system") types)
  | 3%N => Some (mem_str (s "domain") types)
  | 4%N => Some (mem_str (s "project") types)
  | 5%N => Some enforce_scope
  | 6%N => Some do_raise
  | _ => None
  end.

Definition scope_gate (creds : jv) (types : list str) (enforce_scope do_raise : bool) : res bool :=
  match run (scope_env creds types enforce_scope do_raise) scope_tree with
  | ORet 1 => Ok true
  | ORet 0 => Ok false
  | ORaise _ => Raise EInvalidScope
  | _ => Raise (EOther 98)
  end.

Inductive rulearg := RName (n : str) | RObj (c : check) (scope_types : list str).
Inductive excarg := XDefault | XCustom (tag : N).
Inductive credarg := CMapping (creds : jv) | CNotMapping.

Record ectx := {
  e_world : world;                          (* rules, default rule, target, oracles; creds unused *)
  e_registered : list (str * list str);     (* registered name -> scope_types ([] when None) *)
  e_enforce_scope : bool;
}.

Definition with_creds (w : world) (creds : jv) : world :=
  {| w_rules := w_rules w; w_default := w_default w; w_target := w_target w; w_creds := creds;
     w_lit := w_lit w; w_http := w_http w; w_custom := w_custom w |}.

Definition gate (x : ectx) (creds : jv) (types : list str) (do_raise : bool) : res bool :=
  match types with
  | [] => Ok true
  | _ => scope_gate creds types (e_enforce_scope x) do_raise
  end.

(* the value computed before the do_raise tail: None stands for the early `return False` *)
Definition decide (x : ectx) (creds : jv) (r : rulearg) (do_raise : bool) : res (option bool) :=
  let w := with_creds (e_world x) creds in
  match r with
  | RObj c types =>
      bind (gate x creds types do_raise) (fun valid =>
      if valid then bind (eval (fuel_for (w_rules w)) w None c) (fun b => Ok (Some b))
      else Ok None)
  | RName n =>
      match w_rules w with
      | [] => Ok (Some false)
      | _ =>
        match lookup (w_rules w) (w_default w) n with
        | None => Ok (Some false)
        | Some c =>
            let types := match assoc n (e_registered x) with Some t => t | None => [] end in
            bind (gate x creds types do_raise) (fun valid =>
            if valid then bind (eval (fuel_for (w_rules w)) w (Some n) c) (fun b => Ok (Some b))
            else Ok None)
        end
      end
  end.

Definition exn_of (e : excarg) : exn :=
  match e with XDefault => EPolicyNotAuthorized | XCustom t => ECustom t end.

Definition enforce (x : ectx) (ca : credarg) (r : rulearg) (do_raise : bool) (exc : excarg)
  : res bool :=
  match ca with
  | CNotMapping => Raise EInvalidContextObject
  | CMapping creds0 =>
      let creds := mirror creds0 in
      match decide x creds r do_raise with
      | Ok None => Ok false
      | Ok (Some b) => if do_raise && negb b then Raise (exn_of exc) else Ok b
      | Raise e => Raise e
      | OutOfFuel => OutOfFuel
      end
  end.

Definition authorize (x : ectx) (ca : credarg) (n : str) (do_raise : bool) (exc : excarg)
  : res bool :=
  match assoc n (e_registered x) with
  | None => Raise EPolicyNotRegistered
  | Some _ => enforce x ca (RName n) do_raise exc
  end.

(* what the recording leaves observe during that call (same gates, instrumented evaluator) *)
Definition enforce_trace (x : ectx) (ca : credarg) (r : rulearg) (do_raise : bool) : list event :=
  match ca with
  | CNotMapping => []
  | CMapping creds0 =>
      let creds := mirror creds0 in
      let w := with_creds (e_world x) creds in
      match r with
      | RObj c types =>
          match gate x creds types do_raise with
          | Ok true => snd (eval_tr (fuel_for (w_rules w)) w None c)
          | _ => []
          end
      | RName n =>
          match w_rules w with
          | [] => []
          | _ =>
            match lookup (w_rules w) (w_default w) n with
            | None => []
            | Some c =>
                let types := match assoc n (e_registered x) with Some t => t | None => [] end in
                match gate x creds types do_raise with
                | Ok true => snd (eval_tr (fuel_for (w_rules w)) w (Some n) c)
                | _ => []
                end
            end
          end
      end
  end.
