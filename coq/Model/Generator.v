(* Model of oslo_policy.generator: _format_help_text, _format_rule_default_yaml/json and the
   assembly of the sample file.  textwrap.wrap is an oracle: the model emits a placeholder
   [OW text] for every call, expanded by [expand wrap]. *)
From Coq Require Import String List Bool NArith.
From OP Require Import Base.Str Model.Tokenize Model.Print.
Import ListNotations.
Set Implicit Arguments.

Inductive oline := OL (l : str) | OW (text : str).   (* a literal line | textwrap.wrap(text, ...) *)

Definition expand (wrap : str -> list str) (ls : list oline) : list str :=
  flat_map (fun o => match o with OL l => [l] | OW t => wrap t end) ls.

Definition hash : N := 35%N.
Fixpoint rstrip_ws (l : str) : str := rev ((fix go (x : str) : str :=
                                             match x with c :: r => if isws c then go r else x | [] => [] end) (rev l)).
Definition leading_ws (l : str) : bool := match l with c :: _ => isws c | [] => false end.

(* _format_help_text, on description.strip().splitlines() *)
Definition wrap_par (paragraph : list str) : list oline :=
  match paragraph with [] => [] | _ => [OW (join [32%N] (rev paragraph))] end.

Fixpoint help_lines (paragraph : list str) (lines : list str) : list oline :=
  match lines with
  | [] => wrap_par paragraph
  | l :: r =>
      if forallb isws l then wrap_par paragraph ++ [OL [hash]] ++ help_lines [] r
      else if negb (leading_ws l) then help_lines (rstrip_ws l :: paragraph) r
      else (match paragraph with [] => [] | _ => wrap_par paragraph ++ [OL [hash]] end)
           ++ [OL (s "# " ++ rstrip_ws l)] ++ help_lines [] r
  end.

(* description: None/'' -> None ; otherwise Some (description.strip().splitlines()) *)
Definition format_help_text (desc : option (list str)) : list oline :=
  match desc with
  | None => [OL [hash]]
  | Some [] => [OL []]             (* all-whitespace description: the empty string *)
  | Some ls => help_lines [] ls
  end.

Inductive deprecation :=
| DepNone
| DepRemoval (since : str) (reason : option (list str))
| DepRule (old_name old_check_str since : str) (reason : option (list str)).

Record gdefault := {
  g_name : str; g_check_str : str;
  g_description : option (list str);
  g_operations : option (list (str * str));     (* None: a plain RuleDefault *)
  g_scope : option (list str);
  g_dep : deprecation
}.

Definition dq1 : str := [34%N].

(* jsonutils.dumps(check_str, ensure_ascii=False) for a string: JSON string escaping *)
Definition hexdigit (n : N) : N := if (n <? 10)%N then (48 + n)%N else (87 + n)%N.
Definition json_escape_cp (c : N) : str :=
  if N.eqb c 34 then [92; 34]%N
  else if N.eqb c 92 then [92; 92]%N
  else if N.eqb c 10 then [92; 110]%N
  else if N.eqb c 13 then [92; 114]%N
  else if N.eqb c 9 then [92; 116]%N
  else if N.eqb c 8 then [92; 98]%N
  else if N.eqb c 12 then [92; 102]%N
  else if (c <? 32)%N then [92; 117; 48; 48; hexdigit (c / 16); hexdigit (c mod 16)]%N
  else [c].
Definition json_string (x : str) : str := dq1 ++ flat_map json_escape_cp x ++ dq1.

(* '"%(name)s": %(check_str)s' with check_str rendered by _format_check_str *)
Definition rule_line (name check_str : str) : str :=
  dq1 ++ name ++ s """: " ++ json_string check_str.

Definition deprecated_text (d : gdefault) (old_name old_check since : str) : str :=
  dq1 ++ old_name ++ s """:""" ++ old_check ++ s """ has been deprecated since " ++ since ++
  s " in favor of """ ++ g_name d ++ s """:""" ++ g_check_str d ++ s """.".

Definition warning_lines : list str :=
  [s "# WARNING: A rule name change has been identified.";
   s "#          This may be an artifact of new rules being";
   s "#          included which require legacy fallback";
   s "#          rules to ensure proper policy behavior.";
   s "#          Alternatively, this may just be an alias.";
   s "#          Please evaluate on a case by case basis";
   s "#          keeping in mind the format for aliased";
   s "#          rules is:";
   s "#          ""old_rule_name"": ""new_rule_name""."].

(* one description as a (possibly empty) string -> the lines of  help + '\n' *)
Definition help_block (desc : option (list str)) : list oline := format_help_text desc.

(* _format_rule_default_yaml(default, include_help, comment_rule, add_deprecated_rules): lines *)
Definition yaml_lines (include_help comment_rule add_dep : bool) (d : gdefault) : list oline :=
  let rl := rule_line (g_name d) (g_check_str d) in
  let core :=
    if include_help then
      (match g_description d with
       | None => []
       | Some _ => help_block (g_description d)
       end)
      ++ (match g_operations d with
          | Some ops => flat_map (fun o => match fst o, snd o with
                                           | [], _ | _, [] => []
                                           | m, p => [OL (s "# " ++ m ++ s "  " ++ p)] end) ops
          | None => [] end)
      ++ (match g_scope d with
          | Some sc => [OL (s "# Intended scope(s): " ++ join (s ", ") sc)]
          | None => [] end)
      ++ [OL ((if comment_rule then [hash] else []) ++ rl); OL []]
    else [OL rl] in
  match (if add_dep then g_dep d else DepNone) with
  | DepNone => core
  | DepRemoval since reason =>
      [OL (s "# DEPRECATED");
       OL (s "# """ ++ g_name d ++ s """ has been deprecated since " ++ since ++ s ".")]
      ++ format_help_text reason ++ core
  | DepRule old_name old_check since reason =>
      core ++ [OL (s "# DEPRECATED")]
      ++ format_help_text (Some [deprecated_text d old_name old_check since])
      ++ format_help_text reason
      ++ (if str_eqb (g_name d) old_name then []
          else map OL warning_lines
               ++ [OL (s "# """ ++ old_name ++ s """: ""rule:" ++ g_name d ++ dq1)])
      ++ [OL []]
  end.

(* the YAML sample: sections sorted by name (done by the caller), defaults in order *)
Definition sample_yaml (exclude_deprecated : bool) (ds : list gdefault) : list oline :=
  flat_map (yaml_lines true true (negb exclude_deprecated)) ds.

(* the JSON sample *)
Definition sample_json (ds : list gdefault) : str :=
  s "{" ++ [10%N] ++ s "    " ++
  join (s "," ++ [10%N] ++ s "    ") (map (fun d => rule_line (g_name d) (g_check_str d)) ds) ++
  [10%N] ++ s "}" ++ [10%N].
