(* Model of Enforcer.load_rules and what it calls: _load_policy_file, read_cached_file,
   _is_directory_updated, _walk_through_policy_directory, _record_file_rules, the registered
   defaults loop and _handle_deprecated_rule (whose guards are the GENERATED tree deprecated_tree). *)
From Coq Require Import String List Bool NArith.
From OP Require Import Base.Str Base.Check Base.ParserTypes Base.Res Base.Json Base.DTree
                       Gen.GPolicy Model.Leaf Model.SR Model.Tokenize Model.Print Model.Eval.
Import ListNotations.
Set Implicit Arguments.

(* ---------- files ---------- *)
Definition content := list (str * jv).            (* a parsed policy file: name -> rule value *)
Record pfile := { pf_mtime : N; pf_content : content }.
Inductive dentry := EFile (f : pfile) | ESub (mtime : N).
Record pdir := { pd_mtime : N; pd_entries : list (str * dentry) }.
Record fsys := {
  fs_main : option pfile;                 (* the policy file, if it can be found *)
  fs_dirs : list (option pdir)            (* the configured policy_dirs, in order; None = missing *)
}.

(* ---------- registered defaults ---------- *)
Record deprec := { dp_name : str; dp_check_str : str; dp_check : check }.
Record rdef := {
  rd_name : str; rd_check_str : str; rd_check : check;
  rd_dep : option deprec; rd_scope : list str
}.

Record lconf := {
  c_enforce_new_defaults : bool;
  c_registered : list rdef;               (* registration order *)
  c_overwrite : bool
}.

(* ---------- enforcer state ---------- *)
Record est := {
  e_rules : store;
  e_file_rules : list (str * check);      (* name -> check parsed from the file value *)
  e_path_known : bool;                    (* self.policy_path is set *)
  e_mcache : option (N * content);        (* self._file_cache[policy_path] *)
  e_dmtimes : list (option N);            (* self._policy_dir_mtimes, per configured directory *)
  e_use_conf : bool
}.
Definition init_state : est :=
  {| e_rules := []; e_file_rules := []; e_path_known := false; e_mcache := None;
     e_dmtimes := []; e_use_conf := true |}.

Definition parse_value (v : jv) : check :=
  match parse_rule_value [] v with Ok (PCheck c) => c | _ => CLeaf LFalse end.
Definition parse_content (ct : content) : store := map (fun p => (fst p, parse_value (snd p))) ct.

(* dict.update / dict construction: later bindings overwrite, position of first insertion kept *)
Definition update {A} (base : list (str * A)) (new : list (str * A)) : list (str * A) :=
  fold_left (fun acc p => dset (fst p) (snd p) acc) new base.

(* set_rules(Rules.load(data), overwrite) + _record_file_rules(data, overwrite) *)
Definition apply_file (s : est) (ct : content) (overwrite : bool) : est :=
  let parsed := update [] (parse_content ct) in
  {| e_rules := if overwrite then parsed else update (e_rules s) parsed;
     e_file_rules := if overwrite then parsed else update (e_file_rules s) parsed;
     e_path_known := e_path_known s; e_mcache := e_mcache s; e_dmtimes := e_dmtimes s;
     e_use_conf := true |}.

(* read_cached_file on the main policy file: (reloaded, data, new cache) *)
Definition read_main (cache : option (N * content)) (f : option pfile) (force : bool)
  : bool * content * option (N * content) :=
  let cache := if force then None else cache in
  match f with
  | None => (true, [], cache)                          (* getmtime fails: (True, {}) *)
  | Some pf =>
      match cache with
      | Some (cm, cd) => if (cm <? pf_mtime pf)%N
                         then (true, pf_content pf, Some (pf_mtime pf, pf_content pf))
                         else (false, cd, cache)
      | None => (true, pf_content pf, Some (pf_mtime pf, pf_content pf))
      end
  end.

(* _load_policy_file(policy_path, force, overwrite): (rules_changed, state) *)
Definition load_main (s : est) (f : option pfile) (force overwrite : bool) : bool * est :=
  let '(reloaded, data, cache) := read_main (e_mcache s) f force in
  let s1 := {| e_rules := e_rules s; e_file_rules := e_file_rules s; e_path_known := e_path_known s;
               e_mcache := cache; e_dmtimes := e_dmtimes s; e_use_conf := e_use_conf s |} in
  if reloaded || match e_rules s with [] => true | _ => false end
  then (true, apply_file s1 data overwrite)
  else (false, s1).

(* ---------- directories ---------- *)
Fixpoint str_ltb (a b : str) : bool :=
  match a, b with
  | [], [] => false
  | [], _ :: _ => true
  | _ :: _, [] => false
  | x :: a', y :: b' => if (x <? y)%N then true else if (y <? x)%N then false else str_ltb a' b'
  end.
Fixpoint insert_sorted {A} (k : str) (v : A) (l : list (str * A)) : list (str * A) :=
  match l with
  | [] => [(k, v)]
  | (k', v') :: r => if str_ltb k k' then (k, v) :: l else (k', v') :: insert_sorted k v r
  end.
Definition sort_by_name {A} (l : list (str * A)) : list (str * A) :=
  fold_right (fun p acc => insert_sorted (fst p) (snd p) acc) [] l.

Definition dot : N := 46%N.
Definition is_dotfile (n : str) : bool := match n with c :: _ => N.eqb c dot | [] => false end.

(* the files _walk_through_policy_directory visits: top level only, sorted, dot-files skipped *)
Definition walk_files (d : pdir) : list (str * pfile) :=
  filter (fun p => negb (is_dotfile (fst p)))
    (sort_by_name (flat_map (fun p => match snd p with
                                      | EFile f => [(fst p, f)]
                                      | ESub _ => [] end) (pd_entries d))).

(* each visited file: _load_policy_file(path, force_reload=True, overwrite=False) *)
Definition walk_dir (s : est) (d : pdir) : est :=
  fold_left (fun acc p => apply_file acc (pf_content (snd p)) false) (walk_files d) s.

(* newest mtime among the directory itself and ALL its entries *)
Definition newest (d : pdir) : N :=
  fold_left (fun m p => N.max m (match snd p with EFile f => pf_mtime f | ESub t => t end))
            (pd_entries d) (pd_mtime d).

(* _is_directory_updated over the configured directories (missing ones are skipped and their
   cache entry left alone): (any updated, new cache) *)
Fixpoint dirs_updated (ds : list (option pdir)) (c : list (option N)) : bool * list (option N) :=
  match ds with
  | [] => (false, [])
  | d :: ds' =>
      let old := hd None c in
      let '(u, c') := dirs_updated ds' (tl c) in
      match d with
      | None => (u, old :: c')
      | Some pd =>
          let cached := match old with Some t => t | None => 0%N end in
          if (cached <? newest pd)%N then (true, Some (newest pd) :: c') else (u, old :: c')
      end
  end.

Definition existing (ds : list (option pdir)) : list pdir :=
  flat_map (fun d => match d with Some pd => [pd] | None => [] end) ds.

(* ---------- deprecated defaults ---------- *)
Definition has_key {A} (k : str) (l : list (str * A)) : bool :=
  match assoc k l with Some _ => true | None => false end.

(* atoms of _handle_deprecated_rule (numbering fixed in gen/dtree.py) *)
Definition deprecated_env (cf : lconf) (st : est) (d : rdef) (dp : deprec) (a : N) : option bool :=
  match a with
  | 0%N => Some (str_eqb (dp_name dp) (rd_name d))
  | 1%N => Some (has_key (dp_name dp) (e_file_rules st))
  | 2%N => Some false          (* two separately parsed trees compared by identity: never equal *)
  | 3%N => match assoc (dp_name dp) (e_file_rules st) with
           | Some c => Some (str_eqb (print c) (s "rule:" ++ rd_name d))
           | None => None end
  | 4%N => Some (has_key (rd_name d) (e_file_rules st))
  | 5%N => Some (c_enforce_new_defaults cf)
  | 6%N => Some (str_eqb (dp_check_str dp) (rd_check_str d))
  | 7%N => Some false          (* suppress_deprecation_warnings: affects warnings only *)
  | 8%N => Some false          (* suppress_default_change_warnings *)
  | _ => None
  end.

Definition handle_deprecated (cf : lconf) (st : est) (d : rdef) (dp : deprec) : check :=
  match DTree.run (deprecated_env cf st d dp) deprecated_tree with
  | ORet 1 => match assoc (dp_name dp) (e_file_rules st) with Some c => c | None => rd_check d end
  | ORet 2 => COr [rd_check d; dp_check dp]
  | _ => rd_check d
  end.

(* the registered defaults loop *)
Definition add_defaults (cf : lconf) (s : est) : est :=
  fold_left (fun acc d =>
               if has_key (rd_name d) (e_rules acc) then acc
               else
                 let chk := match rd_dep d with
                            | Some dp => handle_deprecated cf acc d dp
                            | None => rd_check d end in
                 {| e_rules := dset (rd_name d) chk (e_rules acc); e_file_rules := e_file_rules acc;
                    e_path_known := e_path_known acc; e_mcache := e_mcache acc;
                    e_dmtimes := e_dmtimes acc; e_use_conf := e_use_conf acc |})
            (c_registered cf) s.

(* ---------- load_rules(force_reload) ---------- *)
Definition with_dmtimes (s : est) (dm : list (option N)) : est :=
  {| e_rules := e_rules s; e_file_rules := e_file_rules s; e_path_known := e_path_known s;
     e_mcache := e_mcache s; e_dmtimes := dm; e_use_conf := e_use_conf s |}.
Definition with_path_known (s : est) (b : bool) : est :=
  {| e_rules := e_rules s; e_file_rules := e_file_rules s; e_path_known := b;
     e_mcache := e_mcache s; e_dmtimes := e_dmtimes s; e_use_conf := e_use_conf s |}.
Definition reset_rules (s : est) : est :=
  {| e_rules := []; e_file_rules := []; e_path_known := e_path_known s;
     e_mcache := e_mcache s; e_dmtimes := e_dmtimes s; e_use_conf := e_use_conf s |}.

Definition load_rules (cf : lconf) (s : est) (fs : fsys) (force : bool) : est :=
  if negb (e_use_conf s || force) then s else
  let s := {| e_rules := e_rules s; e_file_rules := e_file_rules s; e_path_known := e_path_known s;
              e_mcache := e_mcache s; e_dmtimes := e_dmtimes s;
              e_use_conf := e_use_conf s || force |} in
  let known := e_path_known s || match fs_main fs with Some _ => true | None => false end in
  let s := with_path_known s known in
  let '(changed, s1) := if known then load_main s (fs_main fs) force (c_overwrite cf)
                        else (false, s) in
  let '(upd, dm) := dirs_updated (fs_dirs fs) (e_dmtimes s1) in
  let s2 := with_dmtimes s1 dm in
  let force_dirs := force || changed || upd in
  let dirs := existing (fs_dirs fs) in
  let s3 :=
    if force_dirs && match dirs with [] => false | _ => true end then
      let base :=
        if known then
          if negb changed && c_overwrite cf
          then snd (load_main s2 (fs_main fs) true (c_overwrite cf))
          else s2
        else if c_overwrite cf then reset_rules s2 else s2 in
      fold_left walk_dir dirs base
    else s2 in
  add_defaults cf s3.
