(* Model of the __str__ methods of the check classes; formats are GENERATED. *)
From Coq Require Import String List Bool NArith.
From OP Require Import Base.Str Base.Check Base.ParserTypes Gen.GChecks Model.Leaf.
Import ListNotations.
Set Implicit Arguments.

Fixpoint join (sep : str) (l : list str) : str :=
  match l with
  | [] => []
  | [x] => x
  | x :: r => x ++ sep ++ join sep r
  end.

Definition print_leaf (l : leaf) : str :=
  match l with
  | LTrue => fmt_true
  | LFalse => fmt_false
  | LCheck _ k m => let '(a, b, c) := fmt_leaf in a ++ k ++ b ++ m ++ c
  end.

Fixpoint print (c : check) : str :=
  match c with
  | CLeaf l => print_leaf l
  | CNot c' => fst fmt_not ++ print c' ++ snd fmt_not
  | CAnd cs => let '(a, sep, z) := fmt_and in
               a ++ join sep ((fix go (l : list check) : list str :=
                                 match l with [] => [] | x :: r => print x :: go r end) cs) ++ z
  | COr cs => let '(a, sep, z) := fmt_or in
              a ++ join sep ((fix go (l : list check) : list str :=
                                match l with [] => [] | x :: r => print x :: go r end) cs) ++ z
  end.

