(* Model of the policy-file rewriting tools of oslo_policy.generator, over abstract policy files
   (name -> rule value): _upgrade_policies, _convert_policy_json_to_yaml (which rules are kept,
   which are commented out), _generate_policy (merged policy), _list_redundant. *)
From Coq Require Import String List Bool NArith.
From OP Require Import Base.Str Base.Check Base.ParserTypes Base.Res Base.Json
                       Model.Leaf Model.Print Model.Eval Model.Load.
Import ListNotations.
Set Implicit Arguments.

(* RuleDefault.__eq__ restricted to what matters here: same name, same printed check *)
Definition same_as_default (d : rdef) (v : jv) : bool :=
  str_eqb (print (parse_value v)) (print (rd_check d)).

Fixpoint find_rdef (n : str) (regs : list rdef) : option rdef :=
  match regs with
  | [] => None
  | d :: r => if str_eqb (rd_name d) n then Some d else find_rdef n r
  end.

(* ---- oslopolicy-policy-upgrade: _upgrade_policies (after the F7 / alias repairs) ---- *)
Definition is_alias_of (v : jv) (new : str) : bool :=
  str_eqb (print (parse_value v)) (s "rule:" ++ new).

Definition upgrade (regs : list rdef) (file : content) : content :=
  fold_left
    (fun pol d =>
       match rd_dep d with
       | Some dp =>
           match assoc (dp_name dp) file with          (* old_policies: the file as given *)
           | Some v =>
               let pol' := ddel (dp_name dp) pol in
               if negb (str_eqb (dp_name dp) (rd_name d)) && is_alias_of v (rd_name d)
               then pol'
               else dset (rd_name d) v pol'
           | None => pol
           end
       | None => pol
       end) regs file.

(* ---- oslopolicy-convert-json-to-yaml: rules equal to the default are commented out, overrides
   and unknown rules are kept ---- *)
Definition convert_keeps (regs : list rdef) (p : str * jv) : bool :=
  match find_rdef (fst p) regs with
  | Some d => negb (same_as_default d (snd p))
  | None => true
  end.
Definition convert (regs : list rdef) (file : content) : content := filter (convert_keeps regs) file.

(* ---- oslopolicy-list-redundant: file rules that equal the registered default ---- *)
Definition redundant (regs : list rdef) (file_rules : content) : list str :=
  map fst (filter (fun p => negb (convert_keeps regs p)) file_rules).
Definition without (names : list str) (file : content) : content :=
  filter (fun p => negb (mem_str (fst p) names)) file.

(* ---- oslopolicy-policy-generator: file rules, then registered rules absent from every file ---- *)
Definition generate (regs : list rdef) (file_rules : content) : content :=
  file_rules ++
  flat_map (fun d => if has_key (rd_name d) file_rules then []
                     else [(rd_name d, JStr (rd_check_str d))]) regs.
