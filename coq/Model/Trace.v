(* Instrumented evaluator: the same evaluation order as Model.Eval.eval, additionally
   recording every call of a harness-registered (custom) check and every remote request, with
   the current_rule argument it received.  [eval_tr_fst] (Proofs/TraceProofs.v) ties it to eval. *)
From Coq Require Import String List Bool NArith ZArith.
From OP Require Import Base.Str Base.Check Base.ParserTypes Base.Res Base.Json
                       Gen.GChecks Model.Leaf Model.Tokenize Model.Eval.
Import ListNotations.
Set Implicit Arguments.

Inductive event :=
| EvCustom (id : N) (cur : option str)     (* custom check called with this current_rule *)
| EvHttp (url : str) (cur : option str).   (* remote request sent for this policy name *)

(* _check passes current_rule only to __call__ methods with more than 4 arguments (self
   included): harness classes with id < 40 take (target, creds, enforcer) only *)
Definition passes_cur (id : N) : bool := (40 <=? id)%N.

Definition http_tr (w : world) (scheme m : str) (cur : option str) : res bool * list event :=
  match subst (scheme ++ [colon] ++ m) (w_target w) with
  | Ok url => (http_check w scheme m cur, [EvHttp url cur])
  | Raise e => (Raise e, [])
  | OutOfFuel => (OutOfFuel, [])
  end.

Fixpoint eval_tr (fuel : nat) (w : world) (cur : option str) (c : check) {struct fuel}
  : res bool * list event :=
  match fuel with
  | O => (OutOfFuel, [])
  | S f =>
    (fix go (c : check) : res bool * list event :=
       match c with
       | CLeaf LTrue => (Ok true, [])
       | CLeaf LFalse => (Ok false, [])
       | CLeaf (LCheck KRule _ m) =>
           match lookup (w_rules w) (w_default w) m with
           | None => (if catches catch_rule EKeyError then Ok false else Raise EKeyError, [])
           | Some body => let (r, t) := eval_tr f w cur body in
                          (try_catch r catch_rule (Ok false), t)
           end
       | CLeaf (LCheck KRole _ m) => (role_check m (w_target w) (w_creds w), [])
       | CLeaf (LCheck KGeneric k m) => (generic_check (w_lit w) k m (w_target w) (w_creds w), [])
       | CLeaf (LCheck KHttp k m) => http_tr w k m cur
       | CLeaf (LCheck KHttps k m) => http_tr w k m cur
       | CLeaf (LCheck (KCustom id) _ _) =>
           (w_custom w id cur, [EvCustom id (if passes_cur id then cur else None)])
       | CNot c' => let (r, t) := go c' in (match r with Ok b => Ok (negb b) | r => r end, t)
       | CAnd cs => (fix all (l : list check) : res bool * list event :=
                       match l with
                       | [] => (Ok true, [])
                       | x :: r => let (v, t) := go x in
                                   match v with
                                   | Ok true => let (v', t') := all r in (v', t ++ t')
                                   | Ok false => (Ok false, t)
                                   | e => (e, t) end
                       end) cs
       | COr cs => (fix any (l : list check) : res bool * list event :=
                      match l with
                      | [] => (Ok false, [])
                      | x :: r => let (v, t) := go x in
                                  match v with
                                  | Ok false => let (v', t') := any r in (v', t ++ t')
                                  | Ok true => (Ok true, t)
                                  | e => (e, t) end
                      end) cs
       end) c
  end.
