(* Model of oslo_policy._parser._parse_tokenize, _parse_text_rule, _parse_list_rule, parse_rule.
   Keywords, quote pairs, whitespace set and the lower-casing table are GENERATED. *)
From Coq Require Import String List Bool NArith.
From OP Require Import Base.Str Base.Check Base.ParserTypes Base.Res Base.Json
                       Gen.GParser Gen.GChecks Gen.GUnicode Model.Leaf Model.SR.
Import ListNotations.
Set Implicit Arguments.

Definition isws (c : N) : bool := memN c ws_table.

(* str.lower(), code point by code point (exact except for the context-sensitive final sigma) *)
Fixpoint lower_cp_in (t : list (N * list N)) (c : N) : list N :=
  match t with
  | [] => [c]
  | (k, v) :: r => if N.eqb k c then v else lower_cp_in r c
  end.
Definition lower_cp (c : N) : list N :=
  if (c <? 65)%N then [c]                       (* fast path: nothing below 'A' changes *)
  else lower_cp_in lower_table c.
Definition lower (x : str) : str := flat_map lower_cp x.

(* re.split(r'\s+', rule) followed by "skip empty pieces" *)
Fixpoint words_aux (acc : list N) (x : str) : list str :=
  match x with
  | [] => match acc with [] => [] | _ => [rev acc] end
  | c :: x' => if isws c then match acc with [] => words_aux [] x' | _ => rev acc :: words_aux [] x' end
               else words_aux (c :: acc) x'
  end.
Definition words := words_aux [].

Definition lp : N := 40%N.
Definition rp : N := 41%N.

(* tok.lstrip('(') : number of stripped characters and the rest *)
Fixpoint lstrip (w : str) : nat * str :=
  match w with
  | c :: w' => if N.eqb c lp then let (n, r) := lstrip w' in (S n, r) else (0, w)
  | [] => (0, [])
  end.
Fixpoint lstrip_rp (w : str) : nat * str :=
  match w with
  | c :: w' => if N.eqb c rp then let (n, r) := lstrip_rp w' in (S n, r) else (0, w)
  | [] => (0, [])
  end.
(* tok.rstrip(')') *)
Definition rstrip (w : str) : str * nat :=
  let (n, r) := lstrip_rp (rev w) in (rev r, n).

Definition last_cp (w : str) : option N := hd_error (rev w).
Definition is_quoted (tok : str) : bool :=
  match tok, last_cp tok with
  | a :: _ :: _, Some b => existsb (fun p => N.eqb (fst p) a && N.eqb (snd p) b) quote_pairs
  | _, _ => false
  end.

Section Tok.
Variable extra : list (str * kcls).
Notation token := (token leaf).

Definition kw_token (lowered : str) : token :=
  if str_eqb lowered (s "and") then TAnd
  else if str_eqb lowered (s "or") then TOr
  else if str_eqb lowered (s "not") then TNot
  else TStr.      (* unreachable: the translator refuses other keywords *)

(* tokens of one whitespace-free piece *)
Definition word_tokens (w : str) : list token :=
  let (nl, clean) := lstrip w in
  repeat TLp nl ++
  match clean with
  | [] => []
  | _ =>
    let tok := clean in
    let (clean2, trail) := rstrip tok in
    let lowered := lower clean2 in
    (if mem_str lowered keywords then [kw_token lowered]
     else match clean2 with
          | [] => []
          | _ => if is_quoted (if quote_test_on_clean then clean2 else tok)
                 then [TStr] else [TLeaf (parse_check extra clean2)]
          end)
    ++ repeat TRp trail
  end.

Definition tokenize (x : str) : list token := flat_map word_tokens (words x).

Notation parsed := (parsed leaf).

(* _parse_text_rule *)
Definition parse_text_rule (x : str) : parsed :=
  match x with
  | [] => PCheck (CLeaf LTrue)
  | _ => match parse_tokens (tokenize x) with
         | Some p => p
         | None => PCheck (CLeaf LFalse)        (* ValueError from result: fail closed *)
         end
  end.

(* _parse_list_rule on a value that passed (or, before the F2 repair, was never subjected to)
   the shape validation *)
Definition is_strs (l : list jv) : bool :=
  forallb (fun v => match v with JStr _ => true | _ => false end) l.
Definition rule_shaped_list (l : list jv) : bool :=
  forallb (fun v => match v with
                    | JStr _ => true
                    | JList l' => is_strs l'
                    | _ => false end) l.

Definition and_of (cs : list check) : check :=
  match cs with [c] => c | _ => CAnd cs end.

Definition inner_checks (v : jv) : option (list check) :=
  match v with
  | JStr x => match x with [] => None | _ => Some [CLeaf (parse_check extra x)] end
  | JList l => match l with
               | [] => None
               | _ => Some (map (fun r => match r with
                                          | JStr x => CLeaf (parse_check extra x)
                                          | _ => CLeaf LFalse   (* _parse_check's except Exception *)
                                          end) l)
               end
  | _ => None
  end.

Definition translate_list (l : list jv) : check :=
  match l with
  | [] => CLeaf LTrue
  | _ =>
    let or_list := flat_map (fun v => match inner_checks v with
                                      | Some cs => [and_of cs]
                                      | None => [] end) l in
    match or_list with
    | [] => CLeaf LFalse
    | [c] => c
    | _ => COr or_list
    end
  end.

(* parse_rule(value) for any JSON-like value *)
Definition parse_rule_value (v : jv) : res parsed :=
  match v with
  | JStr x => Ok (parse_text_rule x)
  | JList l =>
      if list_rule_validates then
        if rule_shaped_list l then Ok (PCheck (translate_list l))
        else Ok (PCheck (CLeaf LFalse))
      else
        (* pre-repair behaviour, approximated: falsy members skipped, non-iterables raise *)
        if rule_shaped_list l then Ok (PCheck (translate_list l)) else Raise ETypeError
  | _ =>
      if list_rule_validates then Ok (PCheck (CLeaf LFalse))
      else if truthy v then Raise ETypeError else Ok (PCheck (CLeaf LTrue))
  end.

End Tok.
