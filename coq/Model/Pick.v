(* Model of pick_default_policy_file: the GENERATED tree pick_tree run on the facts about the
   configuration. *)
From Coq Require Import String List Bool NArith.
From OP Require Import Base.DTree Gen.GPolicy.
Import ListNotations.

Inductive location := LocOptDefault | LocSetDefault | LocUser | LocSetOverride | LocOther.

Record pickin := {
  p_opt_is_yaml : bool;        (* conf.oslo_policy.policy_file == 'policy.yaml' *)
  p_opt_nonempty : bool;       (* the option value is a non-empty string *)
  p_fallback : bool;           (* fallback_to_json_file *)
  p_found_opt : bool;          (* conf.find_file(conf.oslo_policy.policy_file) *)
  p_loc : location;            (* where the option value comes from *)
  p_found_json : bool          (* conf.find_file('policy.json') *)
}.

Definition pick_env (i : pickin) (a : N) : option bool :=
  match a with
  | 0%N => Some (p_opt_is_yaml i)
  | 1%N => Some (p_fallback i)
  | 2%N => Some (p_found_opt i)
  | 3%N => Some (match p_loc i with LocOptDefault => true | _ => false end)
  | 4%N => Some (match p_loc i with LocSetDefault => true | _ => false end)
  | 5%N => Some (p_found_json i)
  | 6%N => Some (p_opt_nonempty i)
  | _ => None
  end.

(* true = the legacy 'policy.json' is picked; false = the configured file *)
Definition picks_json (i : pickin) : bool :=
  match run (pick_env i) pick_tree with ORet 1 => true | _ => false end.

(* the statement: the configured file, except that a deployment which never configured the option
   (value still the default 'policy.yaml', set by nobody but the library/service defaults) and has
   no policy.yaml but does have a policy.json uses that -- unless the fallback is switched off *)
Definition spec_picks_json (i : pickin) : bool :=
  p_opt_is_yaml i && p_fallback i && negb (p_found_opt i) &&
  (match p_loc i with LocOptDefault | LocSetDefault => true | _ => false end) && p_found_json i.

