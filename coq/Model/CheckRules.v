(* Model of Enforcer._undefined_check, _cycle_check and check_rules.  Which children the walkers
   descend into is GENERATED (Gen/GPolicy.v): AndCheck/OrCheck.rules and, since the F5 repair,
   NotCheck.rule. *)
From Coq Require Import String List Bool NArith.
From OP Require Import Base.Str Base.Check Base.ParserTypes Gen.GPolicy Model.Leaf Model.Eval.
Import ListNotations.
Set Implicit Arguments.

Definition rule_ref (l : leaf) : option str :=
  match l with LCheck KRule _ m => Some m | _ => None end.

Section CR.
Variable rs : store.

Definition defined (n : str) : bool := match assoc n rs with Some _ => true | None => false end.

(* _undefined_check(check) *)
Fixpoint undefined_check (c : check) : bool :=
  match c with
  | CLeaf l => match rule_ref l with Some m => negb (defined m) | None => false end
  | CNot c' => if undefined_descends_not then undefined_check c' else false
  | CAnd cs | COr cs =>
      if undefined_descends_rules
      then (fix any (l : list check) : bool :=
              match l with [] => false | x :: r => if undefined_check x then true else any r end) cs
      else false
  end.

(* _cycle_check(check, seen): one unit of fuel per reference hop; each And/Or branch works on
   its own copy of seen (so the functional reading is exact) *)
Fixpoint cycle_check (fuel : nat) (seen : list str) (c : check) {struct fuel} : bool :=
  match fuel with
  | O => false
  | S f =>
    (fix go (c : check) : bool :=
       match c with
       | CLeaf l =>
           match rule_ref l with
           | Some n => if mem_str n seen then true
                       else match assoc n rs with
                            | Some body => cycle_check f (n :: seen) body
                            | None => false end
           | None => false
           end
       | CNot c' => if cycle_descends_not then go c' else false
       | CAnd cs | COr cs =>
           if cycle_descends_rules
           then (fix any (l : list check) : bool :=
                   match l with [] => false | x :: r => if go x then true else any r end) cs
           else false
       end) c
  end.

Definition cycle_fuel : nat := S (S (List.length rs)).

(* check_rules(): names with an undefined reference, names that reach a cycle *)
Definition undefined_names (skip : bool) : list str :=
  if skip then [] else map fst (filter (fun p => undefined_check (snd p)) rs).
Definition cyclic_names : list str :=
  map fst (filter (fun p => cycle_check cycle_fuel [] (snd p)) rs).
Definition check_rules (skip : bool) : bool :=
  match undefined_names skip, cyclic_names with [], [] => true | _, _ => false end.
End CR.
