(* The reload as a sequence of shared-state snapshots: Enforcer.load_rules rebuilds self.rules and
   self.file_rules IN PLACE, in steps (main file applied with overwrite; every directory file
   applied with update; registered defaults added one by one).  [load_trace] lists the enforcer
   state after each of those steps; its last element is the atomic [load_rules] (ReloadTraceProofs).
   A decision taken concurrently at snapshot st is the decision after the deciding thread's own
   load_rules on st. *)
From Coq Require Import String List Bool NArith.
From OP Require Import Base.Str Base.Check Base.ParserTypes Base.Res Base.Json
                       Model.Leaf Model.Eval Model.Load.
Import ListNotations.
Set Implicit Arguments.

(* a :: [f a x1; f (f a x1) x2; ...] *)
Fixpoint scan {A B} (f : A -> B -> A) (a : A) (l : list B) : list A :=
  a :: match l with [] => [] | x :: r => scan f (f a x) r end.

Definition file_step (acc : est) (p : str * pfile) : est := apply_file acc (pf_content (snd p)) false.

Definition default_step (cf : lconf) (acc : est) (d : rdef) : est :=
  if has_key (rd_name d) (e_rules acc) then acc
  else
    let chk := match rd_dep d with
               | Some dp => handle_deprecated cf acc d dp
               | None => rd_check d end in
    {| e_rules := dset (rd_name d) chk (e_rules acc); e_file_rules := e_file_rules acc;
       e_path_known := e_path_known acc; e_mcache := e_mcache acc;
       e_dmtimes := e_dmtimes acc; e_use_conf := e_use_conf acc |}.

(* the snapshots of load_rules(force_reload=False), in order *)
Definition load_trace (cf : lconf) (s0 : est) (fs : fsys) : list est :=
  if negb (e_use_conf s0 || false) then [s0] else
  let s := {| e_rules := e_rules s0; e_file_rules := e_file_rules s0; e_path_known := e_path_known s0;
              e_mcache := e_mcache s0; e_dmtimes := e_dmtimes s0;
              e_use_conf := e_use_conf s0 || false |} in
  let known := e_path_known s || match fs_main fs with Some _ => true | None => false end in
  let s := with_path_known s known in
  let '(changed, s1) := if known then load_main s (fs_main fs) false (c_overwrite cf)
                        else (false, s) in
  let '(upd, dm) := dirs_updated (fs_dirs fs) (e_dmtimes s1) in
  let s2 := with_dmtimes s1 dm in
  let force_dirs := false || changed || upd in
  let dirs := existing (fs_dirs fs) in
  let walked :=
    if force_dirs && match dirs with [] => false | _ => true end then
      let base :=
        if known then
          if negb changed && c_overwrite cf
          then snd (load_main s2 (fs_main fs) true (c_overwrite cf))
          else s2
        else if c_overwrite cf then reset_rules s2 else s2 in
      scan file_step base (flat_map walk_files dirs)
    else [s2] in
  [s0; s1; s2] ++ walked ++ scan (default_step cf) (last walked s2) (c_registered cf).

(* the rules a concurrent decision is based on, if it is taken at snapshot st *)
Definition rules_seen (cf : lconf) (fs : fsys) (st : est) : store :=
  e_rules (load_rules cf st fs false).
