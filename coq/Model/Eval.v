(* Model of check evaluation: _checks._check, the __call__ methods of every check class,
   Rules.__missing__ (through the GENERATED decision tree), with Python's exception flow.
   The handler sets of every try/except are GENERATED (Gen/GChecks.v). *)
From Coq Require Import String List Bool NArith ZArith.
From OP Require Import Base.Str Base.Check Base.ParserTypes Base.Res Base.Json Base.DTree
                       Gen.GParser Gen.GChecks Gen.GPolicy Model.Leaf Model.Tokenize.
Import ListNotations.
Set Implicit Arguments.

(* ---------- "template % mapping" ---------- *)
(* Exact for templates whose only use of % is %(key)s and %%; anything else is outside the
   model and reported as [EOther 99] so that the harness can exclude the case. *)
Definition pct : N := 37%N.
Definition out_of_model : exn := EOther 99.

Fixpoint take_key (x : str) : option (str * str) :=      (* up to ')' *)
  match x with
  | [] => None
  | c :: r => if N.eqb c rp then Some ([], r)
              else match take_key r with Some (k, r') => Some (c :: k, r') | None => None end
  end.

Fixpoint subst_aux (fuel : nat) (x : str) (tgt : jv) : res str :=
  match fuel with
  | O => Raise out_of_model
  | S f =>
    match x with
    | [] => Ok []
    | c :: r =>
      if N.eqb c pct then
        match r with
        | c2 :: r2 =>
          if N.eqb c2 pct then bind (subst_aux f r2 tgt) (fun t => Ok (pct :: t))
          else if N.eqb c2 lp then
            match take_key r2 with
            | Some (k, c3 :: r3) =>
                if N.eqb c3 115%N (* 's' *) then
                  bind (getitem tgt k) (fun v =>
                  bind (subst_aux f r3 tgt) (fun t => Ok (pystr v ++ t)))
                else Raise out_of_model
            | _ => Raise out_of_model
            end
          else Raise out_of_model
        | [] => Raise out_of_model
        end
      else bind (subst_aux f r tgt) (fun t => Ok (c :: t))
    end
  end.
Definition subst (x : str) (tgt : jv) : res str := subst_aux (S (List.length x)) x tgt.

(* ---------- rule store and default rule ---------- *)
Notation store := (list (str * check)).
Inductive drule := DNone | DName (n : str) | DCheck (c : check) | DDict.

(* the atoms of Rules.__missing__ (numbering fixed in gen/dtree.py) *)
Definition missing_env (rs : store) (d : drule) (a : N) : option bool :=
  match a with
  | 0%N => Some (match d with DDict => true | _ => false end)
  | 1%N => Some (match d with DNone => false | DName [] => false | _ => true end)
  | 2%N => Some (match d with DCheck _ => true | _ => false end)
  | 3%N => match d with
           | DName n => Some (match assoc n rs with Some _ => true | None => false end)
           | DCheck _ => Some false        (* check objects hash by identity: never a key *)
           | DNone => Some false
           | DDict => None                 (* unhashable: TypeError *)
           end
  | 4%N => Some (match d with DName _ => true | _ => false end)
  | _ => None
  end.

(* Rules.__missing__(key): Some check | None = KeyError *)
Definition missing (rs : store) (d : drule) : option check :=
  match run (missing_env rs d) missing_tree with
  | ORet 1 => match d with DCheck c => Some c | _ => None end
  | ORet 2 => match d with DName n => assoc n rs | _ => None end
  | _ => None
  end.
(* self.rules[name] *)
Definition lookup (rs : store) (d : drule) (n : str) : option check :=
  match assoc n rs with Some c => Some c | None => missing rs d end.

(* ---------- oracles ---------- *)
Inductive lit_outcome := LitStr (x : str) (* str(ast.literal_eval(kind)) *) | LitRaise (e : exn).
Inductive http_outcome := HReply (body : str) | HTimeout | HFault (e : exn).

Record world := {
  w_rules : store;
  w_default : drule;
  w_target : jv;
  w_creds : jv;
  w_lit : str -> lit_outcome;                 (* ast.literal_eval, then str() *)
  w_http : str -> str -> http_outcome;        (* url, current rule *)
  w_custom : N -> option str -> res bool;     (* harness-registered check classes *)
}.

(* ---------- leaves ---------- *)
Definition roles_key : str := [114; 111; 108; 101; 115]%N.   (* "roles" *)

Definition role_names (v : jv) : res (list str) :=
  match v with
  | JList l => (fix go (l : list jv) : res (list str) :=
                  match l with
                  | [] => Ok []
                  | JStr x :: r => bind (go r) (fun t => Ok (lower x :: t))
                  | _ :: _ => Raise EAttributeError     (* x.lower() on a non-string *)
                  end) l
  | JStr x => Ok (map (fun c => lower [c]) x)
  | JDict kvs => Ok (map (fun p => lower (fst p)) kvs)
  | _ => Raise ETypeError                               (* not iterable *)
  end.

Definition role_check (m : str) (tgt creds : jv) : res bool :=
  match subst m tgt with
  | Raise e => if catches catch_role_subst e then Ok false else Raise e
  | OutOfFuel => OutOfFuel
  | Ok mt =>
      if jhas creds roles_key then
        bind (role_names (jget creds roles_key)) (fun names => Ok (mem_str (lower mt) names))
      else Ok false
  end.

Definition dot : N := 46%N.
Fixpoint split_dots_aux (acc : list N) (x : str) : list str :=
  match x with
  | [] => [rev acc]
  | c :: r => if N.eqb c dot then rev acc :: split_dots_aux [] r else split_dots_aux (c :: acc) r
  end.
Definition split_dots (x : str) : list str := split_dots_aux [] x.

(* GenericCheck._find_in_dict *)
Fixpoint find_in_dict (v : jv) (ks : list str) (m : str) {struct ks} : res bool :=
  match ks with
  | [] => Ok (str_eqb m (pystr v))
  | k :: ks' =>
      match getitem v k with
      | Raise e => if catches catch_find_in_dict e then Ok false else Raise e
      | OutOfFuel => OutOfFuel
      | Ok w =>
          match w with
          | JList l =>
              (fix any (l : list jv) : res bool :=
                 match l with
                 | [] => Ok false
                 | x :: r => match find_in_dict x ks' m with
                             | Ok true => Ok true
                             | Ok false => any r
                             | e => e end
                 end) l
          | _ => find_in_dict w ks' m
          end
      end
  end.

Definition generic_check (lit : str -> lit_outcome) (k m : str) (tgt creds : jv) : res bool :=
  match subst m tgt with
  | Raise e => if catches catch_generic_subst e then Ok false else Raise e
  | OutOfFuel => OutOfFuel
  | Ok mt =>
      match lit k with
      | LitStr x => Ok (str_eqb mt x)
      | LitRaise e =>
          if catches catch_generic_literal e
          then find_in_dict creds (split_dots k) mt
          else Raise e
      end
  end.

(* HttpCheck / HttpsCheck: the reply body, stripped of double quotes, must be exactly "True" *)
Definition dq : N := 34%N.
Fixpoint lstrip_dq (x : str) : str :=
  match x with c :: r => if N.eqb c dq then lstrip_dq r else x | [] => [] end.
Definition strip_dq (x : str) : str := rev (lstrip_dq (rev (lstrip_dq x))).
Definition accept (body : str) : bool := str_eqb (strip_dq body) (s "True").

Definition http_check (w : world) (scheme m : str) (cur : option str) : res bool :=
  match subst (scheme ++ [colon] ++ m) (w_target w) with
  | Ok url => match w_http w url (match cur with Some c => c | None => [] end) with
              | HReply body => Ok (accept body)
              | HTimeout => Raise ERuntimeError
              | HFault e => Raise e
              end
  | Raise e => Raise e
  | OutOfFuel => OutOfFuel
  end.

(* ---------- the evaluator ---------- *)
Fixpoint eval (fuel : nat) (w : world) (cur : option str) (c : check) {struct fuel} : res bool :=
  match fuel with
  | O => OutOfFuel
  | S f =>
    (fix go (c : check) : res bool :=
       match c with
       | CLeaf LTrue => Ok true
       | CLeaf LFalse => Ok false
       | CLeaf (LCheck KRule _ m) =>
           match lookup (w_rules w) (w_default w) m with
           | None => if catches catch_rule EKeyError then Ok false else Raise EKeyError
           | Some body => try_catch (eval f w cur body) catch_rule (Ok false)
           end
       | CLeaf (LCheck KRole _ m) => role_check m (w_target w) (w_creds w)
       | CLeaf (LCheck KGeneric k m) => generic_check (w_lit w) k m (w_target w) (w_creds w)
       | CLeaf (LCheck KHttp k m) => http_check w k m cur
       | CLeaf (LCheck KHttps k m) => http_check w k m cur
       | CLeaf (LCheck (KCustom id) _ _) => w_custom w id cur
       | CNot c' => match go c' with Ok b => Ok (negb b) | r => r end
       | CAnd cs => (fix all (l : list check) : res bool :=
                       match l with
                       | [] => Ok true
                       | x :: r => match go x with Ok true => all r | Ok false => Ok false | e => e end
                       end) cs
       | COr cs => (fix any (l : list check) : res bool :=
                      match l with
                      | [] => Ok false
                      | x :: r => match go x with Ok false => any r | Ok true => Ok true | e => e end
                      end) cs
       end) c
  end.

(* fuel that is always enough for an acyclic store: one unit per reference hop *)
Definition fuel_for (rs : store) : nat := S (S (List.length rs)).
