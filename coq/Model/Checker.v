(* Model of oslo_policy.shell.tool (oslopolicy-checker): credential and target derivation,
   flatten, the listing and the verdicts. *)
From Coq Require Import String List Bool NArith.
From OP Require Import Base.Str Base.Check Base.ParserTypes Base.Res Base.Json
                       Model.Leaf Model.Eval Model.Enforce Model.Load.
Import ListNotations.
Set Implicit Arguments.

(* flatten(d): nested mappings become dotted keys *)
Fixpoint flatten_kvs (prefix : str) (v : jv) : list (str * jv) :=
  match v with
  | JDict kvs =>
      (fix go (l : list (str * jv)) : list (str * jv) :=
         match l with
         | [] => []
         | (k, x) :: r =>
             let nk := match prefix with [] => k | _ => prefix ++ [46%N] ++ k end in
             (match x with
              | JDict _ => flatten_kvs nk x
              | _ => [(nk, x)] end) ++ go r
         end) kvs
  | _ => []
  end.
(* dict(items): later duplicates overwrite *)
Definition flatten (v : jv) : jv := JDict (update [] (flatten_kvs [] v)).

Definition role_name (r : jv) : res jv := getitem r (s "name").
Fixpoint role_names_of (l : list jv) : res (list jv) :=
  match l with
  | [] => Ok []
  | r :: t => bind (role_name r) (fun n => bind (role_names_of t) (fun ns => Ok (n :: ns)))
  end.

(* access_data as tool() builds it from the token *)
Definition derive_creds (token : jv) (is_admin : bool) : res jv :=
  match token with
  | JDict kvs =>
      bind (getitem token (s "roles")) (fun roles =>
      match roles with
      | JList rl =>
          bind (role_names_of rl) (fun names =>
          bind (getitem token (s "user")) (fun user =>
          bind (getitem user (s "id")) (fun uid =>
          let c1 := dset (s "user_id") uid (dset (s "roles") (JList names) kvs) in
          bind (if truthy (jget token (s "project"))
                then bind (getitem (jget token (s "project")) (s "id")) (fun pid =>
                     Ok (dset (s "project_id") pid c1))
                else Ok c1) (fun c2 =>
          let c3 := if truthy (jget token (s "system"))
                    then dset (s "system") (JStr (s "all")) (dset (s "system_scope") (JStr (s "all")) c2)
                    else c2 in
          Ok (JDict (dset (s "is_admin") (JBool is_admin) c3))))))
      | _ => Raise ETypeError
      end)
  | _ => Raise ETypeError
  end.

Definition derive_target (creds : jv) (token : jv) (target_file : option jv) : res jv :=
  match target_file with
  | Some t => Ok (flatten t)
  | None =>
      bind (getitem token (s "user")) (fun user =>
      bind (getitem user (s "id")) (fun uid =>
      let t1 := [(s "user_id", uid)] in
      Ok (JDict (if truthy (jget creds (s "project_id"))
                 then dset (s "project_id") (jget creds (s "project_id")) t1 else t1))))
  end.

Inductive verdict := VPassed | VFailed | VException.
Definition verdict_of (r : res bool) : verdict :=
  match r with Ok true => VPassed | Ok false => VFailed | _ => VException end.

Fixpoint has_colon (x : str) : bool :=
  match x with [] => false | c :: r => N.eqb c 58 || has_colon r end.

Definition default_name : drule := DName (s "default").

Section Tool.
Variable w : world.     (* rules of the policy file, creds/target as derived, oracles *)

Definition try_rule (key : str) (c : check) : verdict :=
  verdict_of (eval (fuel_for (w_rules w)) w (Some key) c).

(* the whole listing: sorted(rules.items()), names containing a colon *)
Definition listing : list (str * verdict) :=
  map (fun p => (fst p, try_rule (fst p) (snd p)))
      (filter (fun p => has_colon (fst p)) (sort_by_name (w_rules w))).

(* one requested rule: rules[apply_rule] goes through the default-rule fallback; an unresolvable
   name is reported as failed (F9 repair) *)
Definition requested (key : str) : verdict :=
  match lookup (w_rules w) default_name key with
  | Some c => try_rule key c
  | None => VFailed
  end.
End Tool.
