(* Model of oslo_policy._parser.ParseState: the greedy, table-driven shift-reduce parser.
   The reducer table (order and method binding) is GENERATED: Gen/GParser.v. *)
From Coq Require Import List Bool Arith Lia.
From OP Require Import Base.Check Base.ParserTypes Gen.GParser.
Import ListNotations.
Set Implicit Arguments.

Section SR.
Variable leaf : Type.
Notation check := (check leaf).

(* stack symbols: kind + value *)
Inductive sym :=
| SLp | SRp | SAnd | SOr | SNot | SStr
| SCheck (c : check) | SAndE (cs : list check) | SOrE (cs : list check).
Definition kind (s : sym) : tk :=
  match s with SLp => KLp | SRp => KRp | SAnd => KAnd | SOr => KOr | SNot => KNot
  | SStr => KStr | SCheck _ => KCheck | SAndE _ => KAndE | SOrE _ => KOrE end.

Definition val (s : sym) : option check :=
  match s with SCheck c => Some c | SAndE cs => Some (CAnd cs) | SOrE cs => Some (COr cs) | _ => None end.

Definition and_join (c1 c : check) : check :=
  match c1 with CAnd l => CAnd (l ++ [c]) | _ => CAnd [c1; c] end.

Definition mix (cs : list check) (c : check) : option (list check) :=
  match rev cs with
  | [] => None
  | c1 :: r => Some (rev r ++ [and_join c1 c])
  end.

(* args are bottom-to-top as in Python: meth called with the last n values *)
Definition act (m : meth) (args : list sym) : option sym :=
  match m, args with
  | MWrap, [_; x; _] => match val x with Some c => Some (SCheck c) | None => None end
  | MMakeAnd, [SCheck a; _; SCheck b] => Some (SAndE [a; b])
  | MMixOrAnd, [SOrE cs; _; SCheck c] => match mix cs c with Some cs' => Some (SOrE cs') | None => None end
  | MExtendAnd, [SAndE cs; _; SCheck c] => Some (SAndE (cs ++ [c]))
  | MMakeOr, [x; _; SCheck b] => match val x with Some a => Some (SOrE [a; b]) | None => None end
  | MExtendOr, [SOrE cs; _; SCheck c] => Some (SOrE (cs ++ [c]))
  | MMakeNot, [_; SCheck c] => Some (SCheck (CNot c))
  | _, _ => None
  end.

(* stack: head = top. match pattern (bottom-to-top) against the top of the stack *)
Fixpoint match_top (rpat : list tk) (st : list sym) : option (list sym * list sym) :=
  match rpat with
  | [] => Some ([], st)
  | k :: rp => match st with
               | [] => None
               | s :: st' => if tk_eqb k (kind s) then
                               match match_top rp st' with
                               | Some (args, rest) => Some (args ++ [s], rest)
                               | None => None end
                             else None
               end
  end.

Inductive red := RNone | RCrash | RTo (st : list sym).

Fixpoint find_red (tbl : list (list tk * meth)) (st : list sym) : red :=
  match tbl with
  | [] => RNone
  | (pat, m) :: tbl' =>
      match match_top (rev pat) st with
      | Some (args, rest) => match act m args with Some s => RTo (s :: rest) | None => RCrash end
      | None => find_red tbl' st
      end
  end.

Fixpoint reduce (fuel : nat) (st : list sym) : option (list sym) :=
  match fuel with
  | 0 => Some st
  | S f => match find_red table st with
           | RNone => Some st
           | RCrash => None
           | RTo st' => reduce f st'
           end
  end.

Definition shift (st : list sym) (s : sym) : option (list sym) :=
  reduce (S (length st)) (s :: st).

Inductive token := TLp | TRp | TAnd | TOr | TNot | TStr | TLeaf (l : leaf).
Definition sym_of (t : token) : sym :=
  match t with TLp => SLp | TRp => SRp | TAnd => SAnd | TOr => SOr | TNot => SNot | TStr => SStr
  | TLeaf l => SCheck (CLeaf l) end.

Fixpoint run (st : list sym) (ts : list token) : option (list sym) :=
  match ts with
  | [] => Some st
  | t :: ts' => match shift st (sym_of t) with Some st' => run st' ts' | None => None end
  end.

(* ParseState.result: exactly one value on the stack, and (since the F1 repair) not a lone
   terminal token; [PRaw] is what the pre-repair code leaked: the raw token string *)
Inductive parsed := PCheck (c : check) | PRaw.
Definition result (st : list sym) : option parsed :=
  match st with
  | [s] => if existsb (tk_eqb (kind s)) result_rejects then None
           else Some (match val s with Some c => PCheck c | None => PRaw end)
  | _ => None
  end.

Definition parse_tokens (ts : list token) : option parsed :=
  match run [] ts with
  | Some st => result st
  | None => None        (* a reducer crashed: proved impossible (parser_total) *)
  end.

End SR.

Arguments SLp {leaf}. Arguments SRp {leaf}. Arguments SAnd {leaf}. Arguments SOr {leaf}.
Arguments SNot {leaf}. Arguments SStr {leaf}.
Arguments TLp {leaf}. Arguments TRp {leaf}. Arguments TAnd {leaf}. Arguments TOr {leaf}.
Arguments TNot {leaf}. Arguments TStr {leaf}.
Arguments PRaw {leaf}.
Arguments RNone {leaf}. Arguments RCrash {leaf}.
