(* Check trees (the objects of oslo_policy._checks), generic in the leaf type. *)
From Coq Require Import List Bool Lia.
Import ListNotations.
Set Implicit Arguments.

Section Check.
Variable leaf : Type.

Inductive check :=
| CLeaf (l : leaf) | CNot (c : check) | CAnd (cs : list check) | COr (cs : list check).

Lemma check_ind' (P : check -> Prop) :
  (forall l, P (CLeaf l)) -> (forall c, P c -> P (CNot c)) ->
  (forall cs, Forall P cs -> P (CAnd cs)) -> (forall cs, Forall P cs -> P (COr cs)) ->
  forall c, P c.
Proof.
  intros H1 H3 H4 H5. fix IH 1. intros [l | c | cs | cs].
  - apply H1. - apply H3, IH.
  - apply H4. induction cs as [|x r IHr]; constructor; [apply IH|exact IHr].
  - apply H5. induction cs as [|x r IHr]; constructor; [apply IH|exact IHr].
Qed.

Fixpoint csize (c : check) : nat :=
  match c with
  | CLeaf _ => 1
  | CNot c' => S (csize c')
  | CAnd cs | COr cs => S ((fix sum (l : list check) : nat :=
                              match l with [] => 0 | x :: r => csize x + sum r end) cs)
  end.

Fixpoint leaves (c : check) : list leaf :=
  match c with
  | CLeaf l => [l]
  | CNot c' => leaves c'
  | CAnd cs | COr cs => (fix cat (l : list check) : list leaf :=
                           match l with [] => [] | x :: r => leaves x ++ cat r end) cs
  end.
Lemma leaves_and cs : leaves (CAnd cs) = flat_map leaves cs.
Proof. cbn [leaves]. induction cs as [|x r IH]; [reflexivity|]. cbn [flat_map]. now rewrite <- IH. Qed.
Lemma leaves_or cs : leaves (COr cs) = flat_map leaves cs.
Proof. cbn [leaves]. induction cs as [|x r IH]; [reflexivity|]. cbn [flat_map]. now rewrite <- IH. Qed.

(* plain Boolean evaluation under an assignment to the leaves (short-circuit is invisible here) *)
Section BEval.
Variable env : leaf -> bool.
Fixpoint beval (c : check) : bool :=
  match c with
  | CLeaf l => env l
  | CNot c => negb (beval c)
  | CAnd cs => (fix all l := match l with [] => true | x :: r => if beval x then all r else false end) cs
  | COr cs => (fix any l := match l with [] => false | x :: r => if beval x then true else any r end) cs
  end.
Lemma beval_and cs : beval (CAnd cs) = forallb beval cs.
Proof. induction cs as [|x r IH]; [reflexivity|]. cbn [forallb]. rewrite <- IH. cbn. destruct (beval x); reflexivity. Qed.
Lemma beval_or cs : beval (COr cs) = existsb beval cs.
Proof. induction cs as [|x r IH]; [reflexivity|]. cbn [existsb]. rewrite <- IH. cbn. destruct (beval x); reflexivity. Qed.
End BEval.

End Check.
Arguments CLeaf {leaf} l.
Arguments CNot {leaf} c.
Arguments CAnd {leaf} cs.
Arguments COr {leaf} cs.
