(* Exceptions and the result monad.  Which classes a handler catches is generated from the source
   (Gen/GChecks.v, Gen/GPolicy.v) as a list of [xclass]; [catches] is Python's subclass test. *)
From Coq Require Import List Bool NArith.
Import ListNotations.
Set Implicit Arguments.

(* exception *instances* that can occur in the modelled code *)
Inductive exn :=
| EKeyError | ETypeError | EValueError | ESyntaxError | EAttributeError | EIndexError
| ERuntimeError | ERecursionError | EMemoryError
| EPolicyNotAuthorized | EInvalidScope | EInvalidContextObject | EPolicyNotRegistered
| EInvalidDefinition
| ECustom (tag : N)          (* the caller's exc class, tagged *)
| EOther (tag : N).          (* anything else (transport faults, ...) *)

Definition exn_eqb (a b : exn) : bool :=
  match a, b with
  | EKeyError, EKeyError | ETypeError, ETypeError | EValueError, EValueError
  | ESyntaxError, ESyntaxError | EAttributeError, EAttributeError | EIndexError, EIndexError
  | ERuntimeError, ERuntimeError | ERecursionError, ERecursionError | EMemoryError, EMemoryError
  | EPolicyNotAuthorized, EPolicyNotAuthorized | EInvalidScope, EInvalidScope
  | EInvalidContextObject, EInvalidContextObject | EPolicyNotRegistered, EPolicyNotRegistered
  | EInvalidDefinition, EInvalidDefinition => true
  | ECustom x, ECustom y | EOther x, EOther y => N.eqb x y
  | _, _ => false
  end.

(* exception *classes* that can be named in an except clause *)
Inductive xclass :=
| XKeyError | XTypeError | XValueError | XSyntaxError | XAttributeError | XIndexError
| XLookupError | XRuntimeError | XRecursionError | XException | XBaseException.

Definition catches1 (c : xclass) (e : exn) : bool :=
  match c, e with
  | XBaseException, _ | XException, _ => true
  | XKeyError, EKeyError | XTypeError, ETypeError | XValueError, EValueError
  | XAttributeError, EAttributeError | XIndexError, EIndexError
  | XLookupError, EKeyError | XLookupError, EIndexError
  | XRuntimeError, ERuntimeError | XRuntimeError, ERecursionError
  | XRecursionError, ERecursionError
  | XSyntaxError, ESyntaxError => true      (* note: SyntaxError is not a ValueError *)
  | _, _ => false
  end.
Definition catches (cs : list xclass) (e : exn) : bool := existsb (fun c => catches1 c e) cs.

Inductive res (T : Type) := Ok (a : T) | Raise (e : exn) | OutOfFuel.
Arguments Ok {T} a. Arguments Raise {T} e. Arguments OutOfFuel {T}.

Definition bind {T U} (r : res T) (f : T -> res U) : res U :=
  match r with Ok a => f a | Raise e => Raise e | OutOfFuel => OutOfFuel end.

(* try: body except <classes>: handler *)
Definition try_catch {T} (body : res T) (cls : list xclass) (handler : res T) : res T :=
  match body with
  | Raise e => if catches cls e then handler else Raise e
  | r => r
  end.
