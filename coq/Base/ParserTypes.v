(* Token kinds and reducer method names of oslo_policy._parser.ParseState; the reducer *table*
   itself is generated from the source into Gen/GParser.v. *)
From Coq Require Import List Bool NArith.
Import ListNotations.

(* token kinds as the Python strings '(' ')' 'and' 'or' 'not' 'check' 'and_expr' 'or_expr' 'string' *)
Inductive tk := KLp | KRp | KAnd | KOr | KNot | KCheck | KAndE | KOrE | KStr.
Definition tk_eqb (a b : tk) : bool :=
  match a, b with
  | KLp, KLp | KRp, KRp | KAnd, KAnd | KOr, KOr | KNot, KNot
  | KCheck, KCheck | KAndE, KAndE | KOrE, KOrE | KStr, KStr => true
  | _, _ => false end.

(* the @reducer methods *)
Inductive meth := MWrap | MMakeAnd | MMixOrAnd | MExtendAnd | MMakeOr | MExtendOr | MMakeNot.

(* check classes a leaf "kind:match" can be dispatched to: RuleCheck, RoleCheck, GenericCheck
   (registered in _checks.py), HttpCheck, HttpsCheck (entry points), and classes the test
   harness registers itself (KCustom id; id also encodes the arity of __call__) *)
Inductive kcls := KRule | KRole | KGeneric | KHttp | KHttps | KCustom (id : N).
