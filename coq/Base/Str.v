(* Strings are lists of Unicode code points (Python str is code-point level). *)
From Coq Require Import List Bool NArith ZArith Ascii String Lia.
Import ListNotations.
Set Implicit Arguments.

Definition str := list N.

Fixpoint str_eqb (a b : str) : bool :=
  match a, b with
  | [], [] => true
  | x :: a', y :: b' => if N.eqb x y then str_eqb a' b' else false
  | _, _ => false
  end.

Lemma str_eqb_eq a b : str_eqb a b = true <-> a = b.
Proof.
  revert b. induction a as [|x a IH]; intros [|y b]; cbn; split; intros H;
    try reflexivity; try discriminate.
  - destruct (N.eqb x y) eqn:E; [|discriminate]. apply N.eqb_eq in E. subst.
    f_equal. now apply IH.
  - inversion H; subst. rewrite N.eqb_refl. now apply IH.
Qed.
Lemma str_eqb_refl a : str_eqb a a = true.
Proof. now apply str_eqb_eq. Qed.
Lemma str_eqb_neq a b : str_eqb a b = false <-> a <> b.
Proof. rewrite <- str_eqb_eq. destruct (str_eqb a b); intuition congruence. Qed.

Definition str_dec (a b : str) : {a = b} + {a <> b}.
Proof.
  destruct (str_eqb a b) eqn:E; [left; now apply str_eqb_eq|right; now apply str_eqb_neq].
Defined.

(* ASCII literals *)
Fixpoint s (x : string) : str :=
  match x with
  | EmptyString => []
  | String c r => N_of_ascii c :: s r
  end.
Arguments s x%string_scope.

Definition mem_str (x : str) (l : list str) : bool := existsb (str_eqb x) l.
Lemma mem_str_In x l : mem_str x l = true <-> In x l.
Proof.
  unfold mem_str. rewrite existsb_exists. split.
  - intros (y & Hy & E). apply str_eqb_eq in E. now subst.
  - intros H. exists x. split; [assumption|apply str_eqb_refl].
Qed.
Lemma mem_str_nIn x l : mem_str x l = false <-> ~ In x l.
Proof. rewrite <- mem_str_In. destruct (mem_str x l); intuition congruence. Qed.

Definition memN (c : N) (l : list N) : bool := existsb (N.eqb c) l.
Lemma memN_In c l : memN c l = true <-> In c l.
Proof.
  unfold memN. rewrite existsb_exists. split.
  - intros (y & Hy & E). apply N.eqb_eq in E. now subst.
  - intros H. exists c. split; [assumption|apply N.eqb_refl].
Qed.

(* association lists keyed by strings: first match wins (dict built left to right with later
   keys overwriting is handled where dicts are built) *)
Fixpoint assoc {A} (k : str) (l : list (str * A)) : option A :=
  match l with
  | [] => None
  | (k', v) :: r => if str_eqb k' k then Some v else assoc k r
  end.

(* Python dict semantics for building: set key (overwrite in place, keep position) *)
Fixpoint dset {A} (k : str) (v : A) (l : list (str * A)) : list (str * A) :=
  match l with
  | [] => [(k, v)]
  | (k', v') :: r => if str_eqb k' k then (k', v) :: r else (k', v') :: dset k v r
  end.

Fixpoint ddel {A} (k : str) (l : list (str * A)) : list (str * A) :=
  match l with
  | [] => []
  | (k', v') :: r => if str_eqb k' k then r else (k', v') :: ddel k r
  end.

Definition keys {A} (l : list (str * A)) : list str := map fst l.

Lemma assoc_dset_same {A} k (v : A) l : assoc k (dset k v l) = Some v.
Proof.
  induction l as [|[k' v'] r IH]; cbn.
  - now rewrite str_eqb_refl.
  - destruct (str_eqb k' k) eqn:E; cbn; rewrite E; [reflexivity|exact IH].
Qed.
Lemma assoc_dset_other {A} k k2 (v : A) l : k <> k2 -> assoc k2 (dset k v l) = assoc k2 l.
Proof.
  intros Hn. induction l as [|[k' v'] r IH]; cbn.
  - apply str_eqb_neq in Hn. now rewrite Hn.
  - destruct (str_eqb k' k) eqn:E; cbn.
    + apply str_eqb_eq in E. subst k'. apply str_eqb_neq in Hn. now rewrite Hn.
    + destruct (str_eqb k' k2); [reflexivity|exact IH].
Qed.
Lemma assoc_In_keys {A} k (l : list (str * A)) : (exists v, assoc k l = Some v) <-> In k (keys l).
Proof.
  induction l as [|[k' v'] r IH]; cbn.
  - split; [intros (v & H); discriminate|intros []].
  - destruct (str_eqb k' k) eqn:E.
    + apply str_eqb_eq in E. subst. split; eauto.
    + rewrite IH. apply str_eqb_neq in E. intuition congruence.
Qed.
Lemma assoc_None_keys {A} k (l : list (str * A)) : assoc k l = None <-> ~ In k (keys l).
Proof.
  rewrite <- assoc_In_keys. destruct (assoc k l); split; intros H; try congruence.
  - exfalso. apply H. eauto.
  - intros (v & Hv). discriminate.
Qed.

(* code point helpers *)
Definition ch (x : string) : N := match x with String c _ => N_of_ascii c | _ => 0%N end.
