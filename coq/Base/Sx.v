(* Universal wire format between the OCaml driver and the extracted model:
   an S-expression whose atoms are integers.  All decoding/encoding logic lives here (in Coq),
   so that the hand-written OCaml driver is a 40-line generic reader/printer. *)
From Coq Require Import List Bool NArith ZArith Lia.
From OP Require Import Base.Str.
Import ListNotations.
Set Implicit Arguments.

Inductive sx := A (z : Z) | L (l : list sx).

Definition sx_of_str (x : str) : sx := L (map (fun c => A (Z.of_N c)) x).
Definition sx_of_bool (b : bool) : sx := A (if b then 1 else 0)%Z.
Definition sx_of_N (n : N) : sx := A (Z.of_N n).
Definition sx_of_nat (n : nat) : sx := A (Z.of_nat n).
Definition sx_of_list {T} (f : T -> sx) (l : list T) : sx := L (map f l).
Definition sx_of_option {T} (f : T -> sx) (o : option T) : sx :=
  match o with None => L [] | Some x => L [f x] end.

Definition dZ (x : sx) : option Z := match x with A z => Some z | _ => None end.
Definition dN (x : sx) : option N := match x with A z => Some (Z.to_N z) | _ => None end.
Definition dnat (x : sx) : option nat := match x with A z => Some (Z.to_nat z) | _ => None end.
Definition dbool (x : sx) : option bool := match x with A z => Some (negb (Z.eqb z 0)) | _ => None end.

Fixpoint dall {T} (f : sx -> option T) (l : list sx) : option (list T) :=
  match l with
  | [] => Some []
  | x :: r => match f x, dall f r with Some a, Some b => Some (a :: b) | _, _ => None end
  end.
Definition dlist {T} (f : sx -> option T) (x : sx) : option (list T) :=
  match x with L l => dall f l | _ => None end.
Definition dstr (x : sx) : option str := dlist dN x.
Definition dopt {T} (f : sx -> option T) (x : sx) : option (option T) :=
  match x with
  | L [] => Some None
  | L [y] => match f y with Some v => Some (Some v) | None => None end
  | _ => None end.
Definition dpair {T U} (f : sx -> option T) (g : sx -> option U) (x : sx) : option (T * U) :=
  match x with
  | L [a; b] => match f a, g b with Some u, Some v => Some (u, v) | _, _ => None end
  | _ => None end.

Definition sx_err (code : Z) : sx := L [A (-1)%Z; A code].
