(* JSON-like values: targets, credentials, raw rule values from policy files. *)
From Coq Require Import List Bool NArith ZArith Lia String.
From OP Require Import Base.Str Base.Res Base.Sx.
Import ListNotations.
Set Implicit Arguments.

Inductive jv :=
| JNull | JBool (b : bool) | JInt (z : Z)
| JFloat (repr : str)                    (* a float is carried as Python's repr of it *)
| JStr (x : str) | JList (l : list jv) | JDict (kvs : list (str * jv))
| JObj (tag : N).                        (* an opaque Python object (object(), a custom class) *)

(* ---- decimal rendering of integers: str(int) *)
Fixpoint digits_aux (fuel : nat) (n : N) (acc : str) : str :=
  match fuel with
  | O => acc
  | S f => let acc' := (48 + n mod 10)%N :: acc in
           if (n <? 10)%N then acc' else digits_aux f (n / 10)%N acc'
  end.
Definition dec_of_N (n : N) : str := digits_aux (S (N.size_nat n)) n [].
Definition dec_of_Z (z : Z) : str :=
  match z with
  | Z0 => [48%N]
  | Zpos p => dec_of_N (Npos p)
  | Zneg p => 45%N :: dec_of_N (Npos p)
  end.

(* ---- str(value): exact for scalars; for containers exact when every string inside is
   "plain" (printable, no quote, no backslash) -- the [plain_jv] domain predicate below *)
Definition sq : N := 39%N.   (* ' *)
Fixpoint pyrepr (v : jv) : str :=
  match v with
  | JNull => (s "None"%string)
  | JBool true => (s "True"%string)
  | JBool false => (s "False"%string)
  | JInt z => dec_of_Z z
  | JFloat r => r
  | JStr x => sq :: x ++ [sq]
  | JList l => (s "["%string) ++ (fix go (l : list jv) : str :=
                           match l with
                           | [] => []
                           | [x] => pyrepr x
                           | x :: r => pyrepr x ++ (s ", "%string) ++ go r
                           end) l ++ (s "]"%string)
  | JDict kvs => (s "{"%string) ++ (fix go (l : list (str * jv)) : str :=
                             match l with
                             | [] => []
                             | [(k, x)] => sq :: k ++ [sq] ++ (s ": "%string) ++ pyrepr x
                             | (k, x) :: r => sq :: k ++ [sq] ++ (s ": "%string) ++ pyrepr x ++ (s ", "%string) ++ go r
                             end) kvs ++ (s "}"%string)
  | JObj t => (s "<object "%string) ++ dec_of_N t ++ (s ">"%string)
  end.
Definition pystr (v : jv) : str := match v with JStr x => x | _ => pyrepr v end.

Definition plain_char (c : N) : bool :=
  (32 <=? c)%N && (c <? 127)%N && negb (N.eqb c 39) && negb (N.eqb c 34) && negb (N.eqb c 92).
Definition plain_str (x : str) : bool := forallb plain_char x.
Fixpoint plain_jv (v : jv) : bool :=
  match v with
  | JStr _ => true            (* top-level strings print as themselves *)
  | JList l => (fix go (l : list jv) : bool :=
                  match l with [] => true | x :: r => plain_in x && go r end) l
  | JDict kvs => (fix go (l : list (str * jv)) : bool :=
                    match l with [] => true | (k, x) :: r => plain_str k && plain_in x && go r end) kvs
  | JObj _ => false
  | _ => true
  end
with plain_in (v : jv) : bool :=
  match v with
  | JStr x => plain_str x
  | JList l => (fix go (l : list jv) : bool :=
                  match l with [] => true | x :: r => plain_in x && go r end) l
  | JDict kvs => (fix go (l : list (str * jv)) : bool :=
                    match l with [] => true | (k, x) :: r => plain_str k && plain_in x && go r end) kvs
  | JObj _ => false
  | _ => true
  end.

(* ---- truthiness: bool(value) *)
Definition truthy (v : jv) : bool :=
  match v with
  | JNull => false
  | JBool b => b
  | JInt z => negb (Z.eqb z 0)
  | JFloat r => negb (str_eqb r ((s "0.0"%string)) || str_eqb r ((s "-0.0"%string)))
  | JStr x => match x with [] => false | _ => true end
  | JList l => match l with [] => false | _ => true end
  | JDict l => match l with [] => false | _ => true end
  | JObj _ => true
  end.

(* ---- value[key] with a string key, as CPython raises *)
Definition getitem (v : jv) (k : str) : res jv :=
  match v with
  | JDict kvs => match assoc k kvs with Some w => Ok w | None => Raise EKeyError end
  | _ => Raise ETypeError     (* str / int / None / list / float / bool indexed by a str *)
  end.
(* mapping.get(key) on a dict *)
Definition jget (v : jv) (k : str) : jv :=
  match v with
  | JDict kvs => match assoc k kvs with Some w => w | None => JNull end
  | _ => JNull
  end.
Definition jhas (v : jv) (k : str) : bool :=
  match v with
  | JDict kvs => match assoc k kvs with Some _ => true | None => false end
  | _ => false
  end.

(* ---- wire format *)
Fixpoint jv_of_sx (fuel : nat) (x : sx) : option jv :=
  match fuel with
  | O => None
  | S f =>
    match x with
    | L [A 0%Z] => Some JNull
    | L [A 1%Z; A b] => Some (JBool (negb (Z.eqb b 0)))
    | L [A 2%Z; A z] => Some (JInt z)
    | L [A 3%Z; r] => match dstr r with Some r' => Some (JFloat r') | None => None end
    | L [A 4%Z; r] => match dstr r with Some r' => Some (JStr r') | None => None end
    | L [A 5%Z; L items] =>
        match dall (jv_of_sx f) items with Some l => Some (JList l) | None => None end
    | L [A 6%Z; L items] =>
        match dall (fun p => match p with
                             | L [k; v] => match dstr k, jv_of_sx f v with
                                           | Some k', Some v' => Some (k', v')
                                           | _, _ => None end
                             | _ => None end) items
        with Some l => Some (JDict l) | None => None end
    | L [A 7%Z; A t] => Some (JObj (Z.to_N t))
    | _ => None
    end
  end.
Definition djv (x : sx) : option jv := jv_of_sx 64 x.
