(* Decision trees: the target of the Python decision-function translator (gen/dtree.py).
   Atoms are numbered Python sub-expressions (the numbering is fixed per function in the
   translator's atom map and echoed as a comment in the generated file).  An atom may be
   effectful: its evaluation yields a boolean or raises (None); evaluation order and
   short-circuiting follow Python. *)
From Coq Require Import List Bool NArith.
Import ListNotations.

Inductive cond := CA (a : N) | CNeg (c : cond) | CAndb (a b : cond) | COrb (a b : cond) | CT | CF.
Inductive dt := DRet (tag : N) | DRaise (tag : N) | DIf (c : cond) (t e : dt).

Inductive outcome := ORet (tag : N) | ORaise (tag : N) | OAtomRaised (a : N).

Section Run.
Variable env : N -> option bool.

Fixpoint ceval (c : cond) : bool + N :=       (* inl value | inr atom-that-raised *)
  match c with
  | CT => inl true
  | CF => inl false
  | CA a => match env a with Some b => inl b | None => inr a end
  | CNeg c => match ceval c with inl b => inl (negb b) | r => r end
  | CAndb a b => match ceval a with inl true => ceval b | r => r end
  | COrb a b => match ceval a with inl false => ceval b | r => r end
  end.

Fixpoint run (t : dt) : outcome :=
  match t with
  | DRet tag => ORet tag
  | DRaise tag => ORaise tag
  | DIf c t e => match ceval c with
                 | inl true => run t
                 | inl false => run e
                 | inr a => OAtomRaised a
                 end
  end.
End Run.

Definition outcome_eqb (a b : outcome) : bool :=
  match a, b with
  | ORet x, ORet y | ORaise x, ORaise y | OAtomRaised x, OAtomRaised y => N.eqb x y
  | _, _ => false
  end.

(* all total environments over atoms 0..n-1, for bridge lemmas proved by exhaustive evaluation *)
Fixpoint envs (n : nat) : list (list (option bool)) :=
  match n with
  | 0 => [[]]
  | S k => flat_map (fun e => [Some true :: e; Some false :: e; None :: e]) (envs k)
  end.
Definition env_of (l : list (option bool)) (a : N) : option bool := nth (N.to_nat a) l None.
