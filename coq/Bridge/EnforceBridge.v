(* Bridge: the hand-written model of Enforcer.enforce (Model/Enforce.v) is the decision tree
   GENERATED from the source of enforce (from the isinstance(rule, BaseCheck) dispatch to the
   end) and of authorize.  Proved by exhaustive case analysis over the atoms, so logically
   equivalent rewrites of the Python still check and a behavioural change breaks it. *)
From Coq Require Import String List Bool NArith.
From OP Require Import Base.Str Base.Check Base.ParserTypes Base.Res Base.Json Base.DTree
                       Gen.GPolicy Model.Leaf Model.Eval Model.Enforce.
Import ListNotations.
Set Implicit Arguments.

Definition ob (r : res bool) : option bool := match r with Ok b => Some b | _ => None end.

(* the skeleton of the decision, over abstract atom values *)
Record atoms := {
  a_isobj : bool; a_obj_types : bool; a_obj_gate : res bool; a_obj_eval : res bool;
  a_rules_ne : bool; a_lookup_ok : bool; a_registered : bool; a_name_types : bool;
  a_name_gate : res bool; a_name_eval : res bool; a_do_raise : bool; a_exc : excarg }.

Definition tail (a : atoms) (r : res bool) : res bool :=
  match r with
  | Ok b => if a_do_raise a && negb b then Raise (exn_of (a_exc a)) else Ok b
  | e => e
  end.

Definition skeleton (a : atoms) : res bool :=
  if a_isobj a then
    match (if a_obj_types a then a_obj_gate a else Ok true) with
    | Ok true => tail a (a_obj_eval a)
    | Ok false => Ok false
    | e => e
    end
  else if negb (a_rules_ne a) then tail a (Ok false)
  else if negb (a_lookup_ok a) then tail a (Ok false)
  else
    match (if a_registered a && a_name_types a then a_name_gate a else Ok true) with
    | Ok true => tail a (a_name_eval a)
    | Ok false => Ok false
    | e => e
    end.

Definition atoms_env (a : atoms) (n : N) : option bool :=
  match n with
  | 0%N => Some (a_isobj a)
  | 1%N => Some (a_obj_types a)
  | 2%N => ob (a_obj_gate a)
  | 3%N => ob (a_obj_eval a)
  | 4%N => Some (a_rules_ne a)
  | 5%N => Some (a_lookup_ok a)
  | 6%N => Some (a_registered a)
  | 7%N => Some (a_name_types a)
  | 8%N => ob (a_name_gate a)
  | 9%N => ob (a_name_eval a)
  | 10%N => Some (a_do_raise a)
  | 11%N => Some (match a_exc a with XCustom _ => true | XDefault => false end)
  | _ => None
  end.

Definition interp (a : atoms) (o : outcome) : res bool :=
  match o with
  | ORet 0 => Ok false
  | ORet 1 | ORet 3 => Ok true
  | ORet 2 | ORet 4 => Ok false
  | ORaise 0 => Raise (exn_of (a_exc a))
  | ORaise 1 => Raise EPolicyNotAuthorized
  | ORaise 2 => Raise EKeyError
  | OAtomRaised 2 => a_obj_gate a
  | OAtomRaised 3 => a_obj_eval a
  | OAtomRaised 8 => a_name_gate a
  | OAtomRaised 9 => a_name_eval a
  | _ => Raise (EOther 94)
  end.

Ltac case_res r := destruct r as [[|]|?|].

Theorem tree_is_skeleton (a : atoms) : interp a (run (atoms_env a) enforce_tree) = skeleton a.
Proof.
  destruct a as [isobj ot og oe rne lok reg nt ng ne dr exc].
  destruct isobj.
  - destruct ot, dr, exc; case_res og; case_res oe; reflexivity.
  - destruct rne; [|destruct dr, exc; reflexivity].
    destruct lok; [|destruct dr, exc; reflexivity].
    destruct reg, nt, dr, exc; case_res ng; case_res ne; reflexivity.
Qed.

(* the concrete atoms of one call *)
Definition atoms_of (x : ectx) (creds : jv) (r : rulearg) (do_raise : bool) (exc : excarg) : atoms :=
  let w := with_creds (e_world x) creds in
  let f := fuel_for (w_rules w) in
  match r with
  | RObj c types =>
      {| a_isobj := true; a_obj_types := match types with [] => false | _ => true end;
         a_obj_gate := scope_gate creds types (e_enforce_scope x) do_raise;
         a_obj_eval := eval f w None c;
         a_rules_ne := false; a_lookup_ok := false; a_registered := false; a_name_types := false;
         a_name_gate := Ok true; a_name_eval := Ok false; a_do_raise := do_raise; a_exc := exc |}
  | RName n =>
      let types := match assoc n (e_registered x) with Some t => t | None => [] end in
      {| a_isobj := false; a_obj_types := false; a_obj_gate := Ok true; a_obj_eval := Ok false;
         a_rules_ne := match w_rules w with [] => false | _ => true end;
         a_lookup_ok := match lookup (w_rules w) (w_default w) n with Some _ => true | None => false end;
         a_registered := match assoc n (e_registered x) with Some _ => true | None => false end;
         a_name_types := match types with [] => false | _ => true end;
         a_name_gate := scope_gate creds types (e_enforce_scope x) do_raise;
         a_name_eval := match lookup (w_rules w) (w_default w) n with
                        | Some c => eval f w (Some n) c | None => Ok false end;
         a_do_raise := do_raise; a_exc := exc |}
  end.

Lemma enforce_is_skeleton x creds0 r do_raise exc :
  enforce x (CMapping creds0) r do_raise exc
  = skeleton (atoms_of x (mirror creds0) r do_raise exc).
Proof.
  unfold enforce, decide, skeleton, atoms_of, gate, tail.
  set (creds := mirror creds0).
  destruct r as [n|c types]; cbn [a_isobj a_obj_types a_obj_gate a_obj_eval a_rules_ne a_lookup_ok
                                  a_registered a_name_types a_name_gate a_name_eval a_do_raise a_exc].
  - cbn [with_creds w_rules w_default].
    destruct (w_rules (e_world x)) as [|p q] eqn:R; cbn [negb].
    + destruct do_raise; reflexivity.
    + destruct (lookup (p :: q) (w_default (e_world x)) n) as [c|] eqn:L; cbn [negb].
      * destruct (assoc n (e_registered x)) as [[|t ts]|] eqn:A; cbn [andb bind].
        -- match goal with |- context [eval ?f ?w ?cu c] => destruct (eval f w cu c) as [[|]|?|] end;
             destruct do_raise; reflexivity.
        -- destruct (scope_gate creds (t :: ts) (e_enforce_scope x) do_raise) as [[|]|?|]; cbn [bind];
             try reflexivity.
           match goal with |- context [eval ?f ?w ?cu c] => destruct (eval f w cu c) as [[|]|?|] end;
             destruct do_raise; reflexivity.
        -- match goal with |- context [eval ?f ?w ?cu c] => destruct (eval f w cu c) as [[|]|?|] end;
             destruct do_raise; reflexivity.
      * destruct do_raise; reflexivity.
  - destruct types as [|t ts]; cbn [bind].
    + match goal with |- context [eval ?f ?w ?cu c] => destruct (eval f w cu c) as [[|]|?|] end;
        destruct do_raise; reflexivity.
    + destruct (scope_gate creds (t :: ts) (e_enforce_scope x) do_raise) as [[|]|?|]; cbn [bind];
        try reflexivity.
      match goal with |- context [eval ?f ?w ?cu c] => destruct (eval f w cu c) as [[|]|?|] end;
        destruct do_raise; reflexivity.
Qed.

(* the model of enforce IS the generated tree run on the atoms of the call *)
Theorem enforce_is_tree x creds0 r do_raise exc :
  enforce x (CMapping creds0) r do_raise exc
  = let a := atoms_of x (mirror creds0) r do_raise exc in
    interp a (run (atoms_env a) enforce_tree).
Proof. cbv zeta. rewrite tree_is_skeleton. apply enforce_is_skeleton. Qed.

(* authorize: registration gate, then enforce *)
Theorem authorize_is_tree x ca n do_raise exc :
  authorize x ca n do_raise exc =
  match run (fun a => match a with
                      | 0%N => Some (match assoc n (e_registered x) with Some _ => true | None => false end)
                      | _ => None end) authorize_tree with
  | ORaise 0 => Raise EPolicyNotRegistered
  | ORet 0 => enforce x ca (RName n) do_raise exc
  | _ => Raise (EOther 94)
  end.
Proof. unfold authorize. destruct (assoc n (e_registered x)); reflexivity. Qed.
