(* The leaf checks: the credential path walk (C05), "%(key)s" templates, the role check (C04),
   the generic check (C05, C14) and the reply-body test of the http check (C16).

   Facts about the GENERATED handler lists (Gen/GChecks.v) are used only through the small
   lemmas of the first section, each proved by [reflexivity]: if the source's except clauses
   change, the build fails there, by name. *)
From Coq Require Import String List Bool NArith Arith Lia.
From OP Require Import Base.Str Base.Res Base.Json Gen.GChecks Model.Tokenize Model.Eval
                       Spec.Reach Spec.Template.
Import ListNotations.
Set Implicit Arguments.

#[local] Opaque lower.

(* ------------------------------------------------------------------------------------ *)
(* the generated except clauses                                                           *)
(* ------------------------------------------------------------------------------------ *)
Lemma find_catches_key : catches catch_find_in_dict EKeyError = true.
Proof. reflexivity. Qed.
Lemma find_catches_type : catches catch_find_in_dict ETypeError = true.
Proof. reflexivity. Qed.
Lemma role_subst_catches_key : catches catch_role_subst EKeyError = true.
Proof. reflexivity. Qed.
Lemma generic_subst_catches_key : catches catch_generic_subst EKeyError = true.
Proof. reflexivity. Qed.

(* ------------------------------------------------------------------------------------ *)
(* value[key]                                                                             *)
(* ------------------------------------------------------------------------------------ *)
Lemma getitem_ok v k w :
  getitem v k = Ok w -> exists kvs, v = JDict kvs /\ assoc k kvs = Some w.
Proof.
  intros G. destruct v as [ | b | z | r | x | l | kvs | t]; try discriminate G.
  cbn [getitem] in G. destruct (assoc k kvs) as [w'|] eqn:D; [|discriminate G].
  inversion G as [Ew]. subst w'. exists kvs. split; [reflexivity|exact D].
Qed.

Lemma getitem_raise v k e : getitem v k = Raise e -> e = EKeyError \/ e = ETypeError.
Proof.
  intros G. destruct v as [ | b | z | r | x | l | kvs | t]; cbn [getitem] in G;
    try (inversion G; right; reflexivity).
  destruct (assoc k kvs) as [w'|]; [discriminate G|]. inversion G. left. reflexivity.
Qed.

Lemma getitem_no_oof v k : getitem v k <> OutOfFuel.
Proof.
  destruct v as [ | b | z | r | x | l | kvs | t]; cbn [getitem]; try discriminate.
  destruct (assoc k kvs); discriminate.
Qed.

Lemma getitem_raise_caught v k e :
  getitem v k = Raise e -> catches catch_find_in_dict e = true.
Proof.
  intros G. destruct (getitem_raise _ _ G) as [-> | ->];
    [exact find_catches_key|exact find_catches_type].
Qed.

(* ------------------------------------------------------------------------------------ *)
(* C05: the credential path walk                                                          *)
(* ------------------------------------------------------------------------------------ *)
(* the inner [fix any] of find_in_dict, named *)
Fixpoint find_any (ks : list str) (m : str) (l : list jv) : res bool :=
  match l with
  | [] => Ok false
  | x :: r => match find_in_dict x ks m with
              | Ok true => Ok true
              | Ok false => find_any ks m r
              | e => e
              end
  end.

Lemma find_in_dict_nil v m : find_in_dict v [] m = Ok (str_eqb m (pystr v)).
Proof. reflexivity. Qed.

Lemma find_in_dict_cons v k ks m :
  find_in_dict v (k :: ks) m =
  match getitem v k with
  | Raise e => if catches catch_find_in_dict e then Ok false else Raise e
  | OutOfFuel => OutOfFuel
  | Ok w => match w with
            | JList l => find_any ks m l
            | _ => find_in_dict w ks m
            end
  end.
Proof.
  cbn [find_in_dict]. destruct (getitem v k) as [w|e|]; [|reflexivity|reflexivity].
  destruct w as [ | b | z | r | x | l | kvs | t]; try reflexivity.
  induction l as [|y r IHr]; [reflexivity|].
  cbn [find_any]. rewrite <- IHr. reflexivity.
Qed.

Lemma find_any_never_raises ks m :
  (forall v, exists b, find_in_dict v ks m = Ok b) ->
  forall l, exists b, find_any ks m l = Ok b.
Proof.
  intros IH l. induction l as [|x r IHr]; cbn [find_any]; [eauto|].
  destruct (IH x) as ([|] & ->); [eauto|exact IHr].
Qed.

Theorem find_never_raises ks v m : exists b, find_in_dict v ks m = Ok b.
Proof.
  revert v. induction ks as [|k ks IH]; intros v.
  - rewrite find_in_dict_nil. eauto.
  - rewrite find_in_dict_cons. destruct (getitem v k) as [w|e|] eqn:G.
    + destruct w as [ | b | z | r | x | l | kvs | t]; try apply IH.
      apply find_any_never_raises. exact IH.
    + rewrite (getitem_raise_caught _ _ G). eauto.
    + exfalso. exact (getitem_no_oof _ _ G).
Qed.

Lemma find_any_iff ks m l :
  find_any ks m l = Ok true <-> exists x, In x l /\ find_in_dict x ks m = Ok true.
Proof.
  induction l as [|x r IHr]; cbn [find_any].
  - split; [discriminate|intros (x & [] & _)].
  - destruct (find_never_raises ks x m) as ([|] & E); rewrite E.
    + split; [intros _; exists x; split; [now left|exact E]|reflexivity].
    + rewrite IHr. split.
      * intros (y & Hy & Ey). exists y. split; [now right|exact Ey].
      * intros (y & [<-|Hy] & Ey); [congruence|eauto].
Qed.

Theorem find_in_dict_iff ks v m :
  find_in_dict v ks m = Ok true <-> exists z, reach v ks z /\ pystr z = m.
Proof.
  revert v. induction ks as [|k ks IH]; intros v.
  - rewrite find_in_dict_nil. split.
    + intros H. inversion H as [E]. apply str_eqb_eq in E.
      exists v. split; [constructor|now symmetry].
    + intros (z & R & <-). inversion R; subst. now rewrite str_eqb_refl.
  - rewrite find_in_dict_cons. destruct (getitem v k) as [w|e|] eqn:G.
    + destruct (getitem_ok _ _ G) as (kvs & -> & D).
      assert (Hnon : (forall l, w <> JList l) ->
                (find_in_dict w ks m = Ok true <->
                 exists z, reach (JDict kvs) (k :: ks) z /\ pystr z = m)).
      { intros Hn. rewrite IH. split.
        - intros (z' & R & E). exists z'. split; [|exact E].
          econstructor; [exact D|]. apply f_other; assumption.
        - intros (z' & R & E). inversion R as [|? ? ? ? ? D' F]; subst.
          rewrite D in D'. inversion D'; subst.
          inversion F as [? ? ? ? Hin|? ? ? Hn' R']; subst;
            [exfalso; eapply Hn; reflexivity|eauto]. }
      destruct w as [ | b | z | r | x | l | kvs' | t]; try (apply Hnon; congruence).
      rewrite find_any_iff. split.
      * intros (x & Hx & E). apply IH in E. destruct E as (z & R & E).
        exists z. split; [|exact E].
        econstructor; [exact D|]. eapply f_list; eauto.
      * intros (z & R & E). inversion R as [|? ? ? ? ? D' F]; subst.
        rewrite D in D'. inversion D'; subst.
        inversion F as [? x ? ? Hin R'|? ? ? Hn R']; subst.
        -- exists x. split; [exact Hin|]. apply IH. eauto.
        -- exfalso. now apply (Hn l).
    + rewrite (getitem_raise_caught _ _ G). split; [discriminate|].
      intros (z & R & _). inversion R as [|kvs ? w ? ? D F]; subst.
      cbn [getitem] in G. rewrite D in G. discriminate.
    + exfalso. exact (getitem_no_oof _ _ G).
Qed.

(* ------------------------------------------------------------------------------------ *)
(* templates                                                                              *)
(* ------------------------------------------------------------------------------------ *)
Lemma subst_aux_nil f tgt : subst_aux (S f) [] tgt = Ok [].
Proof. reflexivity. Qed.

Lemma subst_aux_lit f c r tgt :
  N.eqb c pct = false ->
  subst_aux (S f) (c :: r) tgt = bind (subst_aux f r tgt) (fun t => Ok (c :: t)).
Proof. intros H. cbn [subst_aux]. rewrite H. reflexivity. Qed.

Lemma take_key_app k rest :
  forallb (fun c => negb (N.eqb c rp)) k = true -> take_key (k ++ rp :: rest) = Some (k, rest).
Proof.
  induction k as [|c k IH]; intros Hk.
  - cbn [app take_key]. rewrite N.eqb_refl. reflexivity.
  - cbn [forallb] in Hk. apply andb_true_iff in Hk. destruct Hk as (Hc & Hk).
    apply negb_true_iff in Hc. cbn [app take_key]. rewrite Hc, (IH Hk). reflexivity.
Qed.

Lemma subst_aux_hole f k r tgt :
  forallb (fun c => negb (N.eqb c rp)) k = true ->
  subst_aux (S f) (pct :: lp :: k ++ rp :: 115%N :: r) tgt =
  bind (getitem tgt k) (fun v => bind (subst_aux f r tgt) (fun t => Ok (pystr v ++ t))).
Proof.
  intros Hk. cbn [subst_aux].
  change (N.eqb pct pct) with true. change (N.eqb lp pct) with false.
  change (N.eqb lp lp) with true. cbv iota.
  rewrite (take_key_app _ _ Hk). change (N.eqb 115 115) with true. reflexivity.
Qed.

Lemma tpl_text_cons p ps : tpl_text (p :: ps) = part_text p ++ tpl_text ps.
Proof. reflexivity. Qed.

(* a run of '%'-free text in front of a tail whose substitution is fuel independent *)
Lemma subst_aux_lits tgt t : forall f rest R,
  forallb (fun c => negb (N.eqb c pct)) t = true ->
  (forall f', length rest < f' -> subst_aux f' rest tgt = R) ->
  length (t ++ rest) < f ->
  subst_aux f (t ++ rest) tgt = bind R (fun x => Ok (t ++ x)).
Proof.
  induction t as [|c t IH]; intros f rest R Hwf Hrest Hlen.
  - cbn [app] in Hlen. cbn [app]. rewrite (Hrest f Hlen). destruct R; reflexivity.
  - cbn [forallb] in Hwf. apply andb_true_iff in Hwf. destruct Hwf as (Hc & Hwf).
    apply negb_true_iff in Hc.
    cbn [app length] in Hlen. cbn [app].
    destruct f as [|f]; [inversion Hlen|].
    rewrite subst_aux_lit by exact Hc.
    rewrite (IH f rest R Hwf Hrest) by lia.
    destruct R; reflexivity.
Qed.

(* substitution into a well-formed template with ANY sufficient fuel is [fill] *)
Lemma subst_aux_tpl tgt ps : forall f,
  forallb wf_part ps = true -> length (tpl_text ps) < f ->
  subst_aux f (tpl_text ps) tgt = fill ps tgt.
Proof.
  induction ps as [|p ps IH]; intros f Hwf Hlen.
  - destruct f as [|f]; [inversion Hlen|]. reflexivity.
  - cbn [forallb] in Hwf. apply andb_true_iff in Hwf. destruct Hwf as (Hp & Hwf).
    rewrite tpl_text_cons in Hlen. rewrite tpl_text_cons.
    destruct p as [t|k]; cbn [part_text wf_part] in Hp, Hlen; cbn [part_text fill].
    + apply subst_aux_lits; [exact Hp| |exact Hlen].
      intros f' Hf'. apply IH; assumption.
    + replace (([pct; lp] ++ k ++ [rp; 115%N]) ++ tpl_text ps)
        with (pct :: lp :: k ++ rp :: 115%N :: tpl_text ps)
        by (cbn [app]; rewrite <- app_assoc; reflexivity).
      rewrite !app_length in Hlen. cbn [length] in Hlen.
      destruct f as [|f]; [inversion Hlen|].
      rewrite subst_aux_hole by exact Hp. rewrite (IH f Hwf) by lia. reflexivity.
Qed.

Theorem subst_template (ps : list part) (tgt : jv) :
  forallb wf_part ps = true -> subst (tpl_text ps) tgt = fill ps tgt.
Proof.
  intros Hwf. unfold subst. apply subst_aux_tpl; [exact Hwf|lia].
Qed.

Lemma subst_aux_no_oof tgt f : forall x, subst_aux f x tgt <> OutOfFuel.
Proof.
  induction f as [|f IH]; intros x; cbn [subst_aux]; [discriminate|].
  destruct x as [|c r]; [discriminate|].
  destruct (N.eqb c pct).
  - destruct r as [|c2 r2]; [discriminate|].
    destruct (N.eqb c2 pct).
    + specialize (IH r2). destruct (subst_aux f r2 tgt); cbn [bind]; congruence.
    + destruct (N.eqb c2 lp); [|discriminate].
      destruct (take_key r2) as [[k [|c3 r3]]|]; try discriminate.
      destruct (N.eqb c3 115); [|discriminate].
      pose proof (getitem_no_oof tgt k) as G.
      destruct (getitem tgt k) as [v|e|]; cbn [bind]; try congruence.
      specialize (IH r3). destruct (subst_aux f r3 tgt); cbn [bind]; congruence.
  - specialize (IH r). destruct (subst_aux f r tgt); cbn [bind]; congruence.
Qed.

Theorem subst_no_oof x tgt : subst x tgt <> OutOfFuel.
Proof. unfold subst. apply subst_aux_no_oof. Qed.

(* ------------------------------------------------------------------------------------ *)
(* C04: role check                                                                        *)
(* ------------------------------------------------------------------------------------ *)
(* the inner [fix go] of role_names, named *)
Fixpoint role_go (l : list jv) : res (list str) :=
  match l with
  | [] => Ok []
  | JStr x :: r => bind (role_go r) (fun t => Ok (lower x :: t))
  | _ :: _ => Raise EAttributeError
  end.

Lemma role_names_list l : role_names (JList l) = role_go l.
Proof. reflexivity. Qed.

Lemma role_go_strs rs : role_go (map JStr rs) = Ok (map lower rs).
Proof.
  induction rs as [|r rs IH]; [reflexivity|].
  cbn [map role_go]. rewrite IH. reflexivity.
Qed.

Lemma mem_lower_iff x rs :
  mem_str (lower x) (map lower rs) = true <-> exists r, In r rs /\ lower r = lower x.
Proof.
  rewrite mem_str_In, in_map_iff. split; intros (r & A & B); exists r; auto.
Qed.

Theorem role_check_iff (m : str) (tgt creds : jv) (rs : list str) :
  jhas creds roles_key = true -> jget creds roles_key = JList (map JStr rs) ->
  (role_check m tgt creds = Ok true <->
   exists x r, subst m tgt = Ok x /\ In r rs /\ lower r = lower x).
Proof.
  intros Hh Hg. unfold role_check.
  destruct (subst m tgt) as [x|e|] eqn:Sx.
  - rewrite Hh, Hg, role_names_list, role_go_strs. cbn [bind]. split.
    + intros H. inversion H as [Hm]. apply mem_lower_iff in Hm. destruct Hm as (r & Hin & E).
      exists x, r. auto.
    + intros (x' & r & Ex & Hin & E). inversion Ex as [Ex']. subst x'.
      f_equal. apply mem_lower_iff. exists r. auto.
  - split.
    + destruct (catches catch_role_subst e); discriminate.
    + intros (x' & r & Ex & _). discriminate Ex.
  - split; [discriminate|]. intros (x' & r & Ex & _). discriminate Ex.
Qed.

Theorem role_check_missing_key m tgt creds :
  subst m tgt = Raise EKeyError -> role_check m tgt creds = Ok false.
Proof.
  intros Sx. unfold role_check. rewrite Sx, role_subst_catches_key. reflexivity.
Qed.

(* the middle hypothesis of the draft statement ("forall e, subst m tgt <> Raise e \/ True")
   was trivially true and is dropped *)
Theorem role_check_no_roles m tgt creds :
  jhas creds roles_key = false -> (exists x, subst m tgt = Ok x) ->
  role_check m tgt creds = Ok false.
Proof.
  intros Hh (x & Sx). unfold role_check. rewrite Sx, Hh. reflexivity.
Qed.

Theorem role_check_never_raises m tgt creds rs :
  jhas creds roles_key = false \/ jget creds roles_key = JList (map JStr rs) ->
  (forall e, subst m tgt = Raise e -> e = EKeyError) ->
  exists b, role_check m tgt creds = Ok b.
Proof.
  intros Hc Hs. unfold role_check.
  destruct (subst m tgt) as [x|e|] eqn:Sx.
  - destruct (jhas creds roles_key) eqn:Hh; [|eauto].
    destruct Hc as [Hc|Hg]; [discriminate Hc|].
    rewrite Hg, role_names_list, role_go_strs. cbn [bind]. eauto.
  - rewrite (Hs e eq_refl), role_subst_catches_key. eauto.
  - exfalso. exact (subst_no_oof _ _ Sx).
Qed.

(* ------------------------------------------------------------------------------------ *)
(* C05 / C14: generic check                                                               *)
(* ------------------------------------------------------------------------------------ *)
Theorem generic_literal lit k m tgt creds x v :
  subst m tgt = Ok x -> lit k = LitStr v -> generic_check lit k m tgt creds = Ok (str_eqb x v).
Proof.
  intros Sx Hl. unfold generic_check. rewrite Sx, Hl. reflexivity.
Qed.

Theorem generic_path lit k m tgt creds x e :
  subst m tgt = Ok x -> lit k = LitRaise e -> catches catch_generic_literal e = true ->
  (generic_check lit k m tgt creds = Ok true <->
   exists z, reach creds (split_dots k) z /\ pystr z = x).
Proof.
  intros Sx Hl Hc. unfold generic_check. rewrite Sx, Hl, Hc. apply find_in_dict_iff.
Qed.

Theorem generic_missing_key lit k m tgt creds :
  subst m tgt = Raise EKeyError -> generic_check lit k m tgt creds = Ok false.
Proof.
  intros Sx. unfold generic_check. rewrite Sx, generic_subst_catches_key. reflexivity.
Qed.

(* C14: a generic check never raises when literal_eval raises only what the handler catches *)
Theorem generic_never_raises lit k m tgt creds :
  (forall e, subst m tgt = Raise e -> e = EKeyError) ->
  (forall e, lit k = LitRaise e -> catches catch_generic_literal e = true) ->
  exists b, generic_check lit k m tgt creds = Ok b.
Proof.
  intros Hs Hl. unfold generic_check.
  destruct (subst m tgt) as [x|e|] eqn:Sx.
  - destruct (lit k) as [v|e] eqn:Lk; [eauto|].
    rewrite (Hl e eq_refl). apply find_never_raises.
  - rewrite (Hs e eq_refl), generic_subst_catches_key. eauto.
  - exfalso. exact (subst_no_oof _ _ Sx).
Qed.

(* ------------------------------------------------------------------------------------ *)
(* C16: the reply body test                                                               *)
(* ------------------------------------------------------------------------------------ *)
Lemma repeat_snoc {A} (a : A) n : repeat a n ++ [a] = a :: repeat a n.
Proof.
  induction n as [|n IH]; [reflexivity|]. cbn [repeat app]. rewrite IH. reflexivity.
Qed.

Lemma rev_repeat_same {A} (a : A) n : rev (repeat a n) = repeat a n.
Proof.
  induction n as [|n IH]; [reflexivity|]. cbn [repeat rev]. rewrite IH. apply repeat_snoc.
Qed.

Lemma lstrip_dq_split x : exists i, x = repeat dq i ++ lstrip_dq x.
Proof.
  induction x as [|c r IH]; [exists 0; reflexivity|].
  cbn [lstrip_dq]. destruct (N.eqb c dq) eqn:E.
  - apply N.eqb_eq in E. subst c. destruct IH as (i & Hi).
    exists (S i). cbn [repeat app]. f_equal. exact Hi.
  - exists 0. reflexivity.
Qed.

Lemma lstrip_dq_repeat i x : lstrip_dq (repeat dq i ++ x) = lstrip_dq x.
Proof.
  induction i as [|i IH]; [reflexivity|].
  cbn [repeat app lstrip_dq]. rewrite N.eqb_refl. exact IH.
Qed.

Lemma lstrip_dq_nq c r : N.eqb c dq = false -> lstrip_dq (c :: r) = c :: r.
Proof. intros H. cbn [lstrip_dq]. rewrite H. reflexivity. Qed.

Theorem accept_iff (b : str) :
  accept b = true <-> exists i j, b = repeat dq i ++ s "True" ++ repeat dq j.
Proof.
  unfold accept. rewrite str_eqb_eq. unfold strip_dq. split.
  - intros H. apply (f_equal (@rev N)) in H. rewrite rev_involutive in H.
    destruct (lstrip_dq_split (rev (lstrip_dq b))) as (j & Hj).
    rewrite H in Hj. apply (f_equal (@rev N)) in Hj.
    rewrite rev_involutive, rev_app_distr, rev_involutive, rev_repeat_same in Hj.
    destruct (lstrip_dq_split b) as (i & Hi).
    exists i, j. rewrite Hj in Hi. exact Hi.
  - intros (i & j & ->). rewrite lstrip_dq_repeat.
    change (s "True") with [84; 114; 117; 101]%N.
    change ([84; 114; 117; 101]%N ++ repeat dq j)
      with (84%N :: ([114; 117; 101]%N ++ repeat dq j)).
    rewrite lstrip_dq_nq by reflexivity.
    change (84%N :: ([114; 117; 101]%N ++ repeat dq j))
      with ([84; 114; 117; 101]%N ++ repeat dq j).
    rewrite rev_app_distr, rev_repeat_same, lstrip_dq_repeat.
    change (rev [84; 114; 117; 101]%N) with [101; 117; 114; 84]%N.
    rewrite lstrip_dq_nq by reflexivity. reflexivity.
Qed.

Print Assumptions find_never_raises.
Print Assumptions find_in_dict_iff.
Print Assumptions subst_template.
Print Assumptions subst_no_oof.
Print Assumptions role_check_iff.
Print Assumptions role_check_missing_key.
Print Assumptions role_check_no_roles.
Print Assumptions role_check_never_raises.
Print Assumptions generic_literal.
Print Assumptions generic_path.
Print Assumptions generic_missing_key.
Print Assumptions generic_never_raises.
Print Assumptions accept_iff.
