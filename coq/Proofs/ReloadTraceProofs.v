From Coq Require Import String List Bool NArith.
From OP Require Import Base.Str Base.Check Base.ParserTypes Base.Res Base.Json
                       Model.Leaf Model.Eval Model.Load Model.Reload.
Import ListNotations.
Set Implicit Arguments.

Lemma last_scan {A B} (f : A -> B -> A) (l : list B) (a d : A) : last (scan f a l) d = fold_left f l a.
Proof.
  revert a d. induction l as [|x r IH]; intros a d; [reflexivity|].
  cbn [scan fold_left]. destruct r as [|y r']; [reflexivity|].
  change (last (a :: scan f (f a x) (y :: r')) d) with (last (scan f (f a x) (y :: r')) d).
  apply IH.
Qed.

Lemma scan_nonempty {A B} (f : A -> B -> A) a (l : list B) : scan f a l <> [].
Proof. destruct l; discriminate. Qed.

Lemma last_app_ne {A} (l1 l2 : list A) d : l2 <> [] -> last (l1 ++ l2) d = last l2 d.
Proof.
  intros H. induction l1 as [|x r IH]; [reflexivity|].
  cbn [app]. destruct (r ++ l2) as [|a l] eqn:E.
  - apply app_eq_nil in E. destruct E; contradiction.
  - cbn [last]. exact IH.
Qed.

Lemma fold_walk_dirs (dirs : list pdir) (base : est) :
  fold_left walk_dir dirs base = fold_left file_step (flat_map walk_files dirs) base.
Proof.
  revert base. induction dirs as [|d r IH]; intros base; [reflexivity|].
  cbn [fold_left flat_map]. rewrite fold_left_app. rewrite <- IH. reflexivity.
Qed.

Lemma add_defaults_steps cf st : add_defaults cf st = fold_left (default_step cf) (c_registered cf) st.
Proof. reflexivity. Qed.

(* the last snapshot of the trace is the atomic load *)
Theorem load_trace_last (cf : lconf) (s0 : est) (fs : fsys) :
  last (load_trace cf s0 fs) s0 = load_rules cf s0 fs false.
Proof.
  unfold load_trace, load_rules.
  destruct (negb (e_use_conf s0 || false)); [reflexivity|].
  set (s := with_path_known _ _).
  destruct (if e_path_known _ || _ then load_main s (fs_main fs) false (c_overwrite cf) else (false, s))
    as [changed s1] eqn:E1.
  destruct (dirs_updated (fs_dirs fs) (e_dmtimes s1)) as [upd dm] eqn:E2.
  rewrite (last_app_ne [s0; s1; with_dmtimes s1 dm]).
  2:{ intro H. apply app_eq_nil in H. destruct H as [_ H]. now apply scan_nonempty in H. }
  rewrite last_app_ne by apply scan_nonempty.
  rewrite last_scan, add_defaults_steps. f_equal.
  destruct (_ && _); [|reflexivity].
  rewrite last_scan, fold_walk_dirs. reflexivity.
Qed.
