(* rule:NAME references: fuel monotonicity, fuel adequacy for acyclic stores, transparency of
   aliases, denial of undefined references, and invariance of decisions under inlining. *)
From Coq Require Import String List Bool NArith Arith Lia.
From OP Require Import Base.Str Base.Check Base.ParserTypes Base.Res Base.Json
                       Gen.GChecks Model.Leaf Model.Tokenize Model.Eval Proofs.EvalProofs.
Import ListNotations.

(* ---------- the only facts used about the GENERATED handler lists ---------- *)
Lemma catch_rule_keyerror : catches catch_rule EKeyError = true.
Proof. reflexivity. Qed.

(* ---------- references ---------- *)
Fixpoint refs (c : check) : list str :=
  match c with
  | CLeaf (LCheck KRule _ m) => [m]
  | CLeaf _ => []
  | CNot c' => refs c'
  | CAnd cs | COr cs => flat_map refs cs
  end.

Definition is_ref (l : leaf) : bool :=
  match l with LCheck KRule _ _ => true | _ => false end.

(* leaves other than rule references do not look at the fuel *)
Lemma eval_leaf_fuel_indep f g w cur l :
  is_ref l = false -> eval_leaf f w cur l = eval_leaf g w cur l.
Proof.
  intros Hl. destruct l as [| |k kk m]; [reflexivity|reflexivity|].
  destruct k; [discriminate Hl|reflexivity..].
Qed.

Lemma eval_leaf_rule f w cur k m :
  eval_leaf f w cur (LCheck KRule k m) =
  match lookup (w_rules w) (w_default w) m with
  | None => if catches catch_rule EKeyError then Ok false else Raise EKeyError
  | Some body => try_catch (eval f w cur body) catch_rule (Ok false)
  end.
Proof. reflexivity. Qed.

(* ---------- more fuel never changes a definite answer ---------- *)
Theorem fuel_mono f w cur c r :
  eval f w cur c = r -> r <> OutOfFuel -> forall g, f <= g -> eval g w cur c = r.
Proof.
  revert c r. induction f as [|f IHf]; intros c r H Hr g Hg.
  - rewrite eval_0 in H. congruence.
  - destruct g as [|g]; [lia|]. assert (Hfg : f <= g) by lia. clear Hg.
    revert r H Hr.
    induction c as [l|c IHc|cs IHcs|cs IHcs] using check_ind'; intros r H Hr;
      rewrite eval_S in H; rewrite eval_S.
    + destruct (is_ref l) eqn:Il.
      * destruct l as [| |k kk m]; [discriminate Il|discriminate Il|].
        destruct k; try discriminate Il.
        rewrite eval_leaf_rule in H. rewrite eval_leaf_rule.
        destruct (lookup (w_rules w) (w_default w) m) as [body|]; [|exact H].
        destruct (eval f w cur body) as [b|e|] eqn:E.
        -- rewrite (IHf body (Ok b) E ltac:(discriminate) g Hfg). exact H.
        -- rewrite (IHf body (Raise e) E ltac:(discriminate) g Hfg). exact H.
        -- cbn [try_catch] in H. congruence.
      * rewrite (eval_leaf_fuel_indep g f w cur l Il). exact H.
    + destruct (eval (S f) w cur c) as [b|e|] eqn:E.
      * rewrite (IHc (Ok b) eq_refl ltac:(discriminate)). exact H.
      * rewrite (IHc (Raise e) eq_refl ltac:(discriminate)). exact H.
      * congruence.
    + revert r H Hr. induction IHcs as [|x l Hx Hl IHl]; intros r H Hr;
        cbn [all_of] in H; cbn [all_of]; [exact H|].
      destruct (eval (S f) w cur x) as [[|]|e|] eqn:E.
      * rewrite (Hx (Ok true) eq_refl ltac:(discriminate)). apply IHl; assumption.
      * rewrite (Hx (Ok false) eq_refl ltac:(discriminate)). exact H.
      * rewrite (Hx (Raise e) eq_refl ltac:(discriminate)). exact H.
      * congruence.
    + revert r H Hr. induction IHcs as [|x l Hx Hl IHl]; intros r H Hr;
        cbn [any_of] in H; cbn [any_of]; [exact H|].
      destruct (eval (S f) w cur x) as [[|]|e|] eqn:E.
      * rewrite (Hx (Ok true) eq_refl ltac:(discriminate)). exact H.
      * rewrite (Hx (Ok false) eq_refl ltac:(discriminate)). apply IHl; assumption.
      * rewrite (Hx (Raise e) eq_refl ltac:(discriminate)). exact H.
      * congruence.
Qed.

(* ---------- the non-reference leaves never answer OutOfFuel ---------- *)
Lemma bind_total {T U} (r : res T) (g : T -> res U) :
  r <> OutOfFuel -> (forall a, g a <> OutOfFuel) -> bind r g <> OutOfFuel.
Proof. intros Hr Hg. destruct r; cbn [bind]; [apply Hg|discriminate|congruence]. Qed.

Lemma getitem_total v k : getitem v k <> OutOfFuel.
Proof.
  destruct v; cbn [getitem]; try discriminate. destruct (assoc k kvs); discriminate.
Qed.

Lemma subst_aux_total tgt f : forall x, subst_aux f x tgt <> OutOfFuel.
Proof.
  induction f as [|f IH]; intros x; cbn [subst_aux]; [discriminate|].
  destruct x as [|c r]; [discriminate|].
  destruct (N.eqb c pct).
  - destruct r as [|c2 r2]; [discriminate|].
    destruct (N.eqb c2 pct).
    + apply bind_total; [apply IH|intros; discriminate].
    + destruct (N.eqb c2 lp); [|discriminate].
      destruct (take_key r2) as [[k [|c3 r3]]|]; try discriminate.
      destruct (N.eqb c3 115%N); [|discriminate].
      apply bind_total; [apply getitem_total|]. intros v.
      apply bind_total; [apply IH|intros; discriminate].
  - apply bind_total; [apply IH|intros; discriminate].
Qed.

Lemma subst_total x tgt : subst x tgt <> OutOfFuel.
Proof. unfold subst. apply subst_aux_total. Qed.

Lemma role_names_total v : role_names v <> OutOfFuel.
Proof.
  destruct v; cbn [role_names]; try discriminate.
  induction l as [|x r IH]; [discriminate|].
  destruct x; try discriminate. apply bind_total; [exact IH|intros; discriminate].
Qed.

Lemma role_check_total m tgt creds : role_check m tgt creds <> OutOfFuel.
Proof.
  unfold role_check. pose proof (subst_total m tgt) as Hs.
  destruct (subst m tgt) as [mt|e|]; [| |congruence].
  - destruct (jhas creds roles_key); [|discriminate].
    apply bind_total; [apply role_names_total|intros; discriminate].
  - destruct (catches catch_role_subst e); discriminate.
Qed.

Lemma find_in_dict_total m : forall ks v, find_in_dict v ks m <> OutOfFuel.
Proof.
  induction ks as [|k ks IH]; intros v; cbn [find_in_dict]; [discriminate|].
  pose proof (getitem_total v k) as Hg.
  destruct (getitem v k) as [w|e|]; [| |congruence].
  - clear Hg. destruct w; try apply IH.
    induction l as [|x r IHr]; [discriminate|].
    pose proof (IH x) as Hx.
    destruct (find_in_dict x ks m) as [[|]|e|]; [discriminate|exact IHr|discriminate|congruence].
  - destruct (catches catch_find_in_dict e); discriminate.
Qed.

Lemma generic_check_total lit k m tgt creds : generic_check lit k m tgt creds <> OutOfFuel.
Proof.
  unfold generic_check. pose proof (subst_total m tgt) as Hs.
  destruct (subst m tgt) as [mt|e|]; [| |congruence].
  - destruct (lit k) as [x|e]; [discriminate|].
    destruct (catches catch_generic_literal e); [apply find_in_dict_total|discriminate].
  - destruct (catches catch_generic_subst e); discriminate.
Qed.

Lemma http_check_total w sch m cur : http_check w sch m cur <> OutOfFuel.
Proof.
  unfold http_check. pose proof (subst_total (sch ++ [colon] ++ m) (w_target w)) as Hs.
  destruct (subst (sch ++ [colon] ++ m) (w_target w)) as [url|e|]; [|discriminate|congruence].
  destruct (w_http w url match cur with Some c => c | None => [] end); discriminate.
Qed.

(* oracles of a world never "run out of fuel" *)
Definition oracles_total (w : world) : Prop := forall id cu, w_custom w id cu <> OutOfFuel.

Lemma eval_leaf_total f w cur l :
  oracles_total w -> is_ref l = false -> eval_leaf f w cur l <> OutOfFuel.
Proof.
  intros Ho Hl. destruct l as [| |k kk m]; [discriminate|discriminate|].
  destruct k; cbn [eval_leaf].
  - discriminate Hl.
  - apply role_check_total.
  - apply generic_check_total.
  - apply http_check_total.
  - apply http_check_total.
  - apply Ho.
Qed.

(* ---------- acyclicity as a rank; fuel adequacy ---------- *)
Definition ranked (w : world) (rank : str -> nat) : Prop :=
  forall n body, lookup (w_rules w) (w_default w) n = Some body ->
                 forall m, In m (refs body) -> rank m < rank n.

(* one level: if the definitions of all references of c are decided with fuel f, then c is
   decided with fuel S f *)
Lemma adequate_tree f w cur : oracles_total w ->
  forall c,
  (forall m body, In m (refs c) -> lookup (w_rules w) (w_default w) m = Some body ->
                  eval f w cur body <> OutOfFuel) ->
  eval (S f) w cur c <> OutOfFuel.
Proof.
  intros Ho.
  induction c as [l|c IHc|cs IHcs|cs IHcs] using check_ind'; intros Hc; rewrite eval_S.
  - destruct (is_ref l) eqn:Il; [|apply eval_leaf_total; assumption].
    destruct l as [| |k kk m]; [discriminate Il|discriminate Il|].
    destruct k; try discriminate Il.
    rewrite eval_leaf_rule.
    destruct (lookup (w_rules w) (w_default w) m) as [body|] eqn:L.
    + pose proof (Hc m body (or_introl eq_refl) L) as Hb.
      destruct (eval f w cur body) as [b|e|]; cbn [try_catch]; [discriminate| |congruence].
      destruct (catches catch_rule e); discriminate.
    + destruct (catches catch_rule EKeyError); discriminate.
  - specialize (IHc Hc). destruct (eval (S f) w cur c); [discriminate|discriminate|congruence].
  - cbn [refs] in Hc. induction IHcs as [|x l Hx Hl IHl]; cbn [all_of]; [discriminate|].
    assert (Hx' : eval (S f) w cur x <> OutOfFuel).
    { apply Hx. intros m body Hm. apply Hc. cbn [flat_map]. apply in_or_app. now left. }
    assert (Hl' : all_of (eval (S f) w cur) l <> OutOfFuel).
    { apply IHl. intros m body Hm. apply Hc. cbn [flat_map]. apply in_or_app. now right. }
    destruct (eval (S f) w cur x) as [[|]|e|]; [exact Hl'|discriminate|discriminate|congruence].
  - cbn [refs] in Hc. induction IHcs as [|x l Hx Hl IHl]; cbn [any_of]; [discriminate|].
    assert (Hx' : eval (S f) w cur x <> OutOfFuel).
    { apply Hx. intros m body Hm. apply Hc. cbn [flat_map]. apply in_or_app. now left. }
    assert (Hl' : any_of (eval (S f) w cur) l <> OutOfFuel).
    { apply IHl. intros m body Hm. apply Hc. cbn [flat_map]. apply in_or_app. now right. }
    destruct (eval (S f) w cur x) as [[|]|e|]; [discriminate|exact Hl'|discriminate|congruence].
Qed.

Theorem fuel_adequate w cur rank : oracles_total w -> ranked w rank ->
  forall k c, (forall m, In m (refs c) -> rank m < k) -> eval (S k) w cur c <> OutOfFuel.
Proof.
  intros Ho HR. induction k as [|k IHk]; intros c Hc;
    apply adequate_tree; try exact Ho; intros m body Hm L; specialize (Hc m Hm).
  - lia.
  - apply IHk. intros m' Hm'. specialize (HR m body L m' Hm'). lia.
Qed.

(* ---------- rule:NAME is transparent ---------- *)
Theorem alias_transparent f w cur k n body :
  lookup (w_rules w) (w_default w) n = Some body ->
  (forall e, eval f w cur body = Raise e -> catches catch_rule e = false) ->
  eval (S f) w cur (CLeaf (LCheck KRule k n)) = eval f w cur body.
Proof.
  intros L Hnc. rewrite eval_S, eval_leaf_rule, L.
  destruct (eval f w cur body) as [b|e|] eqn:E; cbn [try_catch]; [reflexivity| |reflexivity].
  rewrite (Hnc e eq_refl). reflexivity.
Qed.

Theorem undefined_ref_denies f w cur k n :
  lookup (w_rules w) (w_default w) n = None ->
  eval (S f) w cur (CLeaf (LCheck KRule k n)) = Ok false.
Proof.
  intros L. rewrite eval_S, eval_leaf_rule, L, catch_rule_keyerror. reflexivity.
Qed.

(* ---------- inlining ---------- *)
Fixpoint inline (n : str) (def c : check) : check :=
  match c with
  | CLeaf (LCheck KRule _ m) => if str_eqb m n then def else c
  | CLeaf _ => c
  | CNot c' => CNot (inline n def c')
  | CAnd cs => CAnd (map (inline n def) cs)
  | COr cs => COr (map (inline n def) cs)
  end.

Lemma inline_nonref n def l : is_ref l = false -> inline n def (CLeaf l) = CLeaf l.
Proof.
  intros Hl. destruct l as [| |k kk m]; [reflexivity|reflexivity|].
  destruct k; [discriminate Hl|reflexivity..].
Qed.

Theorem inline_same w cur n def :
  lookup (w_rules w) (w_default w) n = Some def ->
  (forall g e, eval g w cur def = Raise e -> catches catch_rule e = false) ->
  forall f c, eval f w cur c <> OutOfFuel -> eval (S f) w cur (inline n def c) = eval f w cur c.
Proof.
  intros L NK f c. destruct f as [|f]; [rewrite eval_0; congruence|].
  induction c as [l|c IHc|cs IHcs|cs IHcs] using check_ind'; intros H.
  - destruct (is_ref l) eqn:Il.
    + destruct l as [| |k kk m]; [discriminate Il|discriminate Il|].
      destruct k; try discriminate Il. cbn [inline].
      destruct (str_eqb m n) eqn:E.
      * apply str_eqb_eq in E. subst m.
        rewrite (alias_transparent f w cur kk n def L (NK f)) in H.
        rewrite (alias_transparent f w cur kk n def L (NK f)).
        apply (fuel_mono f w cur def (eval f w cur def) eq_refl H). lia.
      * rewrite (eval_S f) in H. rewrite (eval_S (S f)), (eval_S f).
        rewrite eval_leaf_rule in H. rewrite !eval_leaf_rule.
        destruct (lookup (w_rules w) (w_default w) m) as [body|]; [|reflexivity].
        assert (Hb : eval f w cur body <> OutOfFuel).
        { intros Hb. rewrite Hb in H. cbn [try_catch] in H. congruence. }
        rewrite (fuel_mono f w cur body (eval f w cur body) eq_refl Hb (S f) ltac:(lia)).
        reflexivity.
    + rewrite (inline_nonref n def l Il). rewrite (eval_S (S f)), (eval_S f).
      apply eval_leaf_fuel_indep. exact Il.
  - cbn [inline]. rewrite (eval_S f) in H. rewrite (eval_S (S f)), (eval_S f).
    destruct (eval (S f) w cur c) as [b|e|] eqn:E; [| |congruence];
      rewrite IHc by discriminate; reflexivity.
  - cbn [inline]. rewrite (eval_S f) in H. rewrite (eval_S (S f)), (eval_S f).
    induction IHcs as [|x l Hx Hl IHl]; cbn [map all_of] in H; cbn [map all_of]; [reflexivity|].
    destruct (eval (S f) w cur x) as [[|]|e|] eqn:E; [| | |congruence];
      rewrite Hx by discriminate; [|reflexivity|reflexivity].
    apply IHl. exact H.
  - cbn [inline]. rewrite (eval_S f) in H. rewrite (eval_S (S f)), (eval_S f).
    induction IHcs as [|x l Hx Hl IHl]; cbn [map any_of] in H; cbn [map any_of]; [reflexivity|].
    destruct (eval (S f) w cur x) as [[|]|e|] eqn:E; [| | |congruence];
      rewrite Hx by discriminate; [reflexivity| |reflexivity].
    apply IHl. exact H.
Qed.

Print Assumptions fuel_mono.
Print Assumptions fuel_adequate.
Print Assumptions alias_transparent.
Print Assumptions undefined_ref_denies.
Print Assumptions inline_same.
