(* Exactness of the model of Enforcer._undefined_check / _cycle_check against the declarative
   reference graph (Spec/Graph.v), and the consequence for evaluation: a store on which
   check_rules reports nothing cannot exhaust the evaluator's fuel. *)
From Coq Require Import String List Bool NArith Arith Lia.
From OP Require Import Base.Str Base.Check Base.ParserTypes Base.Res Base.Json
                       Gen.GChecks Gen.GPolicy Model.Leaf Model.Tokenize Model.Eval Model.CheckRules
                       Spec.Graph Proofs.EvalProofs.
Import ListNotations.
Set Implicit Arguments.

(* ---------- the only places where the GENERATED walker flags are inspected ---------- *)
Lemma und_rules : undefined_descends_rules = true. Proof. reflexivity. Qed.
Lemma und_not : undefined_descends_not = true. Proof. reflexivity. Qed.
Lemma cyc_rules : cycle_descends_rules = true. Proof. reflexivity. Qed.
Lemma cyc_not : cycle_descends_not = true. Proof. reflexivity. Qed.

(* ---------- unfolding equations (inner fix = existsb / flat_map) ---------- *)
Lemma undefined_check_eq rs c : undefined_check rs c =
  match c with
  | CLeaf l => match rule_ref l with Some m => negb (defined rs m) | None => false end
  | CNot c' => if undefined_descends_not then undefined_check rs c' else false
  | CAnd cs | COr cs =>
      if undefined_descends_rules then existsb (undefined_check rs) cs else false
  end.
Proof.
  destruct c as [l|c'|cs|cs]; [reflexivity|reflexivity| |].
  - cbn [undefined_check]. rewrite und_rules.
    induction cs as [|x r IH]; [reflexivity|]. cbn [existsb]. rewrite <- IH.
    destruct (undefined_check rs x); reflexivity.
  - cbn [undefined_check]. rewrite und_rules.
    induction cs as [|x r IH]; [reflexivity|]. cbn [existsb]. rewrite <- IH.
    destruct (undefined_check rs x); reflexivity.
Qed.

Lemma cycle_check_S rs f seen c : cycle_check rs (S f) seen c =
  match c with
  | CLeaf l =>
      match rule_ref l with
      | Some n => if mem_str n seen then true
                  else match assoc n rs with
                       | Some body => cycle_check rs f (n :: seen) body
                       | None => false end
      | None => false
      end
  | CNot c' => if cycle_descends_not then cycle_check rs (S f) seen c' else false
  | CAnd cs | COr cs =>
      if cycle_descends_rules then existsb (cycle_check rs (S f) seen) cs else false
  end.
Proof.
  destruct c as [l|c'|cs|cs]; [reflexivity|reflexivity| |].
  - cbn [cycle_check]. rewrite cyc_rules.
    induction cs as [|x r IH]; [reflexivity|]. cbn [existsb]. rewrite <- IH. reflexivity.
  - cbn [cycle_check]. rewrite cyc_rules.
    induction cs as [|x r IH]; [reflexivity|]. cbn [existsb]. rewrite <- IH. reflexivity.
Qed.

Lemma refs_all_and cs : refs_all (CAnd cs) = flat_map refs_all cs.
Proof.
  cbn [refs_all]. induction cs as [|x r IH]; [reflexivity|]. cbn [flat_map]. now rewrite <- IH.
Qed.
Lemma refs_all_or cs : refs_all (COr cs) = flat_map refs_all cs.
Proof.
  cbn [refs_all]. induction cs as [|x r IH]; [reflexivity|]. cbn [flat_map]. now rewrite <- IH.
Qed.
Lemma refs_all_leaf l :
  refs_all (CLeaf l) = match rule_ref l with Some m => [m] | None => [] end.
Proof. reflexivity. Qed.
Lemma refs_all_not c : refs_all (CNot c) = refs_all c.
Proof. reflexivity. Qed.

(* ================================================================================== *)
(* undefined references                                                                *)
(* ================================================================================== *)
Theorem undefined_exact (rs : store) (c : check) :
  undefined_check rs c = true <-> refs_undefined rs c.
Proof.
  unfold refs_undefined.
  induction c as [l|c IHc|cs IHcs|cs IHcs] using check_ind'; rewrite undefined_check_eq.
  - rewrite refs_all_leaf. destruct (rule_ref l) as [m|].
    + unfold defined. split.
      * intros H. exists m. split; [now left|]. destruct (assoc m rs); [discriminate|reflexivity].
      * intros (k & [<-|[]] & Hk). now rewrite Hk.
    + split; [discriminate|]. intros (k & [] & _).
  - rewrite und_not, refs_all_not. exact IHc.
  - rewrite und_rules, refs_all_and. rewrite Forall_forall in IHcs. split.
    + intros H. apply existsb_exists in H. destruct H as (x & Hx & Hc).
      apply (IHcs x Hx) in Hc. destruct Hc as (m & Hm & Hu).
      exists m. split; [|exact Hu]. apply in_flat_map. eauto.
    + intros (m & Hm & Hu). apply in_flat_map in Hm. destruct Hm as (x & Hx & Hm).
      apply existsb_exists. exists x. split; [exact Hx|]. apply (IHcs x Hx). eauto.
  - rewrite und_rules, refs_all_or. rewrite Forall_forall in IHcs. split.
    + intros H. apply existsb_exists in H. destruct H as (x & Hx & Hc).
      apply (IHcs x Hx) in Hc. destruct Hc as (m & Hm & Hu).
      exists m. split; [|exact Hu]. apply in_flat_map. eauto.
    + intros (m & Hm & Hu). apply in_flat_map in Hm. destruct Hm as (x & Hx & Hm).
      apply existsb_exists. exists x. split; [exact Hx|]. apply (IHcs x Hx). eauto.
Qed.

(* ================================================================================== *)
(* cycles                                                                              *)
(* ================================================================================== *)
Section Cyc.
Variable rs : store.

(* what the DFS explores: from n, following edges, we come back to a name already seen *)
Inductive hit : list str -> str -> Prop :=
| hit_seen seen n : In n seen -> hit seen n
| hit_step seen n m : ~ In n seen -> edge rs n m -> hit (n :: seen) m -> hit seen n.

Definition hits (seen : list str) (c : check) : Prop :=
  exists n, In n (refs_all c) /\ hit seen n.

(* ---------- DFS true => hits (any fuel) ---------- *)
Lemma cyc_sound f : forall seen c, cycle_check rs f seen c = true -> hits seen c.
Proof.
  induction f as [|f IHf]; intros seen c; [discriminate|].
  induction c as [l|c IHc|cs IHcs|cs IHcs] using check_ind'; rewrite cycle_check_S.
  - destruct (rule_ref l) as [n|] eqn:R; [|discriminate].
    destruct (mem_str n seen) eqn:M.
    + intros _. exists n. split; [rewrite refs_all_leaf, R; now left|].
      apply hit_seen. now apply mem_str_In.
    + destruct (assoc n rs) as [body|] eqn:L; [|discriminate].
      intros H. apply IHf in H. destruct H as (m & Hm & Hh).
      exists n. split; [rewrite refs_all_leaf, R; now left|].
      eapply hit_step; [now apply mem_str_nIn| |exact Hh].
      exists body. split; assumption.
  - rewrite cyc_not. intros H. apply IHc in H. exact H.
  - rewrite cyc_rules. intros H. apply existsb_exists in H. destruct H as (x & Hx & Hc).
    rewrite Forall_forall in IHcs. destruct (IHcs x Hx Hc) as (n & Hn & R).
    exists n. split; [|exact R]. rewrite refs_all_and. apply in_flat_map. eauto.
  - rewrite cyc_rules. intros H. apply existsb_exists in H. destruct H as (x & Hx & Hc).
    rewrite Forall_forall in IHcs. destruct (IHcs x Hx Hc) as (n & Hn & R).
    exists n. split; [|exact R]. rewrite refs_all_or. apply in_flat_map. eauto.
Qed.

(* ---------- hits => DFS true, given enough fuel ---------- *)
Definition dom : list str := nodup str_dec (keys rs).
Definition room (seen : list str) : nat :=
  List.length (filter (fun k => negb (mem_str k seen)) dom).

Lemma assoc_dom n body : assoc n rs = Some body -> In n dom.
Proof. intros H. unfold dom. apply nodup_In. apply assoc_In_keys. eauto. Qed.

Lemma filter_le (A : Type) (p : A -> bool) (l : list A) :
  List.length (filter p l) <= List.length l.
Proof. induction l as [|a l IH]; cbn [filter List.length]; [lia|]. destruct (p a); cbn [List.length]; lia. Qed.

Lemma room_nil_le : room [] <= List.length rs.
Proof.
  unfold room. etransitivity; [apply filter_le|]. unfold dom.
  replace (List.length rs) with (List.length (keys rs)) by (unfold keys; apply map_length).
  apply NoDup_incl_length; [apply NoDup_nodup|]. intros x Hx. now apply nodup_In in Hx.
Qed.

Lemma filter_shrink (A : Type) (p q : A -> bool) (l : list A) x :
  (forall y, q y = true -> p y = true) -> In x l -> p x = true -> q x = false ->
  List.length (filter q l) < List.length (filter p l).
Proof.
  intros Hpq. induction l as [|a l IH]; intros Hin Hp Hq; [destruct Hin|].
  assert (Hle : List.length (filter q l) <= List.length (filter p l)).
  { clear -Hpq. induction l as [|b l IH]; cbn [filter List.length]; [lia|].
    destruct (q b) eqn:Q; [rewrite (Hpq _ Q); cbn [List.length]; lia|].
    destruct (p b); cbn [List.length]; lia. }
  cbn [filter]. destruct Hin as [->|Hin].
  - rewrite Hp, Hq. cbn [List.length]. lia.
  - specialize (IH Hin Hp Hq). destruct (q a) eqn:Q; [rewrite (Hpq _ Q); cbn [List.length]; lia|].
    destruct (p a); cbn [List.length]; lia.
Qed.

Lemma room_shrink seen n : In n dom -> ~ In n seen -> room (n :: seen) < room seen.
Proof.
  intros Hd Hs. unfold room. apply filter_shrink with (x := n).
  - intros y H. apply negb_true_iff in H. apply negb_true_iff.
    unfold mem_str in H |- *. cbn [existsb] in H. apply orb_false_iff in H. apply H.
  - exact Hd.
  - apply negb_true_iff. now apply mem_str_nIn.
  - apply negb_false_iff. unfold mem_str. cbn [existsb]. now rewrite str_eqb_refl.
Qed.

(* a reference leaf for a given name (the kind string is irrelevant) *)
Definition ref_leaf (n : str) : check := CLeaf (LCheck KRule [] n).

Lemma cyc_find f seen c n :
  In n (refs_all c) -> cycle_check rs (S f) seen (ref_leaf n) = true ->
  cycle_check rs (S f) seen c = true.
Proof.
  intros Hn Hr. induction c as [l|c IHc|cs IHcs|cs IHcs] using check_ind'.
  - rewrite refs_all_leaf in Hn. rewrite cycle_check_S.
    unfold ref_leaf in Hr. rewrite cycle_check_S in Hr. cbn [rule_ref] in Hr.
    destruct (rule_ref l) as [k|]; [|destruct Hn]. destruct Hn as [->|[]]. exact Hr.
  - rewrite cycle_check_S, cyc_not. rewrite refs_all_not in Hn. now apply IHc.
  - rewrite cycle_check_S, cyc_rules. rewrite refs_all_and in Hn. apply in_flat_map in Hn.
    destruct Hn as (x & Hx & Hn). apply existsb_exists. exists x. split; [exact Hx|].
    rewrite Forall_forall in IHcs. now apply IHcs.
  - rewrite cycle_check_S, cyc_rules. rewrite refs_all_or in Hn. apply in_flat_map in Hn.
    destruct Hn as (x & Hx & Hn). apply existsb_exists. exists x. split; [exact Hx|].
    rewrite Forall_forall in IHcs. now apply IHcs.
Qed.

Lemma hit_complete seen n : hit seen n ->
  forall f, room seen < f -> cycle_check rs f seen (ref_leaf n) = true.
Proof.
  induction 1 as [seen n Hin | seen n m Hn (body & L & Hm) Hh IH]; intros f Hf.
  - destruct f as [|f]; [lia|]. unfold ref_leaf. rewrite cycle_check_S. cbn [rule_ref].
    apply mem_str_In in Hin. now rewrite Hin.
  - destruct f as [|f]; [lia|]. unfold ref_leaf. rewrite cycle_check_S. cbn [rule_ref].
    apply mem_str_nIn in Hn as Hn'. rewrite Hn', L.
    pose proof (@room_shrink seen n (assoc_dom _ L) Hn) as Hr.
    destruct f as [|f]; [lia|].
    apply cyc_find with (n := m); [exact Hm|]. apply IH. lia.
Qed.

Lemma cyc_complete seen c f : room seen < f -> hits seen c -> cycle_check rs f seen c = true.
Proof.
  intros Hf (n & Hn & Hh). destruct f as [|f]; [lia|].
  apply cyc_find with (n := n); [exact Hn|]. apply hit_complete; [exact Hh|exact Hf].
Qed.

(* ---------- hit [] n  <->  n reaches a name that lies on a cycle ---------- *)
Lemma hit_weaken seen n : hit seen n -> forall seen', incl seen seen' -> hit seen' n.
Proof.
  induction 1 as [seen n Hin | seen n m Hn He Hh IH]; intros seen' Hi.
  - apply hit_seen. now apply Hi.
  - destruct (in_dec str_dec n seen') as [Hin|Hnin]; [now apply hit_seen|].
    eapply hit_step; [exact Hnin|exact He|]. apply IH.
    intros x [->|Hx]; [now left|right; now apply Hi].
Qed.

Lemma hit_graph seen n : hit seen n ->
  (exists s, In s seen /\ path rs n s) \/ (exists m, path rs n m /\ on_cycle rs m).
Proof.
  induction 1 as [seen n Hin | seen n m Hn He Hh IH].
  - left. exists n. split; [exact Hin|constructor].
  - destruct IH as [(s & [<-|Hs] & Hp) | (k & Hp & Hc)].
    + right. exists n. split; [constructor|]. exists m. split; assumption.
    + left. exists s. split; [exact Hs|]. econstructor; eassumption.
    + right. exists k. split; [econstructor; eassumption|exact Hc].
Qed.

Lemma path_hit n m : path rs n m -> forall seen, hit seen m -> hit seen n.
Proof.
  induction 1 as [n | n k m He Hp IH]; intros seen Hm; [exact Hm|].
  destruct (in_dec str_dec n seen) as [Hin|Hnin]; [now apply hit_seen|].
  eapply hit_step; [exact Hnin|exact He|]. apply IH. eapply hit_weaken; [exact Hm|].
  intros x Hx. now right.
Qed.

Theorem hit_nil_iff n : hit [] n <-> exists m, path rs n m /\ on_cycle rs m.
Proof.
  split.
  - intros H. destruct (hit_graph H) as [(s & [] & _)|R]; exact R.
  - intros (m & Hp & (k & He & Hk)). apply (path_hit Hp).
    eapply hit_step; [intros []|exact He|]. apply (path_hit Hk). apply hit_seen. now left.
Qed.

Lemma hits_nil_iff c : hits [] c <-> reaches_cycle rs c.
Proof.
  unfold hits, reaches_cycle. split.
  - intros (n & Hn & Hh). apply hit_nil_iff in Hh. destruct Hh as (m & Hp & Hc). eauto.
  - intros (n & m & Hn & Hp & Hc). exists n. split; [exact Hn|]. apply hit_nil_iff. eauto.
Qed.

Lemma cycle_fuel_room : room [] < cycle_fuel rs.
Proof. unfold cycle_fuel. pose proof room_nil_le. lia. Qed.

End Cyc.

Theorem cycle_exact (rs : store) (c : check) :
  cycle_check rs (cycle_fuel rs) [] c = true <-> reaches_cycle rs c.
Proof.
  rewrite <- hits_nil_iff. split.
  - apply cyc_sound.
  - apply cyc_complete. apply cycle_fuel_room.
Qed.

(* ================================================================================== *)
(* leaves other than rule references and custom classes never run out of fuel          *)
(* ================================================================================== *)
Lemma getitem_no_oof v k : getitem v k <> OutOfFuel.
Proof. unfold getitem. destruct v; try discriminate. destruct (assoc k kvs); discriminate. Qed.

Lemma subst_aux_no_oof f : forall x tgt, subst_aux f x tgt <> OutOfFuel.
Proof.
  induction f as [|f IH]; intros x tgt; cbn [subst_aux]; [discriminate|].
  destruct x as [|c r]; [discriminate|].
  destruct (N.eqb c pct).
  - destruct r as [|c2 r2]; [discriminate|].
    destruct (N.eqb c2 pct).
    + specialize (IH r2 tgt). destruct (subst_aux f r2 tgt); cbn [bind]; congruence.
    + destruct (N.eqb c2 lp); [|discriminate].
      destruct (take_key r2) as [[k [|c3 r3]]|]; try discriminate.
      destruct (N.eqb c3 115); [|discriminate].
      pose proof (getitem_no_oof tgt k) as Hg.
      destruct (getitem tgt k) as [v|e|]; cbn [bind]; [|discriminate|congruence].
      specialize (IH r3 tgt). destruct (subst_aux f r3 tgt); cbn [bind]; congruence.
  - specialize (IH r tgt). destruct (subst_aux f r tgt); cbn [bind]; congruence.
Qed.

Lemma subst_no_oof x tgt : subst x tgt <> OutOfFuel.
Proof. unfold subst. apply subst_aux_no_oof. Qed.

Lemma role_names_no_oof v : role_names v <> OutOfFuel.
Proof.
  destruct v as [| | | | |l| |]; try discriminate.
  induction l as [|x r IH]; [discriminate|].
  cbn [role_names] in IH |- *. destruct x; try discriminate.
  match goal with |- bind ?g _ <> _ => destruct g end; cbn [bind]; congruence.
Qed.

Lemma role_check_no_oof m tgt creds : role_check m tgt creds <> OutOfFuel.
Proof.
  unfold role_check. pose proof (subst_no_oof m tgt) as Hs.
  destruct (subst m tgt) as [mt|e|]; [| |congruence].
  - destruct (jhas creds roles_key); [|discriminate].
    pose proof (role_names_no_oof (jget creds roles_key)) as Hr.
    destruct (role_names (jget creds roles_key)); cbn [bind]; congruence.
  - destruct (catches catch_role_subst e); discriminate.
Qed.

Lemma find_in_dict_no_oof ks m : forall v, find_in_dict v ks m <> OutOfFuel.
Proof.
  induction ks as [|k ks IH]; intros v; cbn [find_in_dict]; [discriminate|].
  pose proof (getitem_no_oof v k) as Hg.
  destruct (getitem v k) as [w|e|]; [| |congruence].
  - destruct w as [| | | | |l| |]; try apply IH.
    clear Hg. induction l as [|x r IHr]; [discriminate|].
    pose proof (IH x) as Hx.
    destruct (find_in_dict x ks m) as [[|]|e|]; [discriminate|exact IHr|discriminate|congruence].
  - destruct (catches catch_find_in_dict e); discriminate.
Qed.

Lemma generic_check_no_oof lit k m tgt creds : generic_check lit k m tgt creds <> OutOfFuel.
Proof.
  unfold generic_check. pose proof (subst_no_oof m tgt) as Hs.
  destruct (subst m tgt) as [mt|e|]; [| |congruence].
  - destruct (lit k) as [x|e]; [discriminate|].
    destruct (catches catch_generic_literal e); [apply find_in_dict_no_oof|discriminate].
  - destruct (catches catch_generic_subst e); discriminate.
Qed.

Lemma http_check_no_oof w scheme m cur : http_check w scheme m cur <> OutOfFuel.
Proof.
  unfold http_check. pose proof (subst_no_oof (scheme ++ [colon] ++ m) (w_target w)) as Hs.
  destruct (subst (scheme ++ [colon] ++ m) (w_target w)) as [url|e|]; [|discriminate|congruence].
  destruct (w_http w url _); discriminate.
Qed.

(* ================================================================================== *)
(* a clean store cannot exhaust the evaluator                                          *)
(* ================================================================================== *)
Section Term.
Variable w : world.
Variable cur : option str.
Hypothesis custom_ok : forall id cu, w_custom w id cu <> OutOfFuel.

(* every name referenced from c is defined and the DFS from it never comes back to seen *)
Definition safe (seen : list str) (c : check) : Prop :=
  forall m, In m (refs_all c) ->
    (exists body, assoc m (w_rules w) = Some body) /\ ~ hit (w_rules w) seen m.

(* the store is closed under reference: bodies only mention defined names *)
Hypothesis store_closed : forall n body, assoc n (w_rules w) = Some body ->
  forall m, In m (refs_all body) -> exists b, assoc m (w_rules w) = Some b.

Lemma eval_no_oof : forall f seen c,
  room (w_rules w) seen < f -> safe seen c -> eval f w cur c <> OutOfFuel.
Proof.
  induction f as [|f IHf]; intros seen c Hroom; [lia|].
  induction c as [l|c IHc|cs IHcs|cs IHcs] using check_ind'; intros Hs; rewrite eval_S.
  - destruct l as [| |k kd m]; cbn [eval_leaf]; [discriminate|discriminate|].
    destruct k as [| | | | |id].
    + destruct (Hs m) as ((body & Hb) & Hnh).
      { rewrite refs_all_leaf. cbn [rule_ref]. now left. }
      unfold lookup. rewrite Hb.
      assert (Hnin : ~ In m seen) by (intros Hin; apply Hnh; now apply hit_seen).
      assert (He : eval f w cur body <> OutOfFuel).
      { apply IHf with (seen := m :: seen).
        - pose proof (@room_shrink (w_rules w) seen m (assoc_dom _ _ Hb) Hnin). lia.
        - intros k Hk. split; [eapply store_closed; eassumption|].
          intros Hh. apply Hnh. eapply hit_step; [exact Hnin| |exact Hh].
          exists body. split; assumption. }
      destruct (eval f w cur body) as [b|e|]; cbn [try_catch]; [discriminate| |congruence].
      destruct (catches catch_rule e); discriminate.
    + apply role_check_no_oof.
    + apply generic_check_no_oof.
    + apply http_check_no_oof.
    + apply http_check_no_oof.
    + apply custom_ok.
  - specialize (IHc Hs). destruct (eval (S f) w cur c); congruence.
  - unfold safe in Hs. rewrite refs_all_and in Hs.
    induction IHcs as [|x l Hx Hl IHl]; cbn [all_of]; [discriminate|].
    assert (Hx' : eval (S f) w cur x <> OutOfFuel).
    { apply Hx. intros m Hm. apply Hs. cbn [flat_map]. apply in_or_app. now left. }
    assert (Hl' : all_of (eval (S f) w cur) l <> OutOfFuel).
    { apply IHl. intros m Hm. apply Hs. cbn [flat_map]. apply in_or_app. now right. }
    destruct (eval (S f) w cur x) as [[|]|e|]; congruence.
  - unfold safe in Hs. rewrite refs_all_or in Hs.
    induction IHcs as [|x l Hx Hl IHl]; cbn [any_of]; [discriminate|].
    assert (Hx' : eval (S f) w cur x <> OutOfFuel).
    { apply Hx. intros m Hm. apply Hs. cbn [flat_map]. apply in_or_app. now left. }
    assert (Hl' : any_of (eval (S f) w cur) l <> OutOfFuel).
    { apply IHl. intros m Hm. apply Hs. cbn [flat_map]. apply in_or_app. now right. }
    destruct (eval (S f) w cur x) as [[|]|e|]; congruence.
Qed.
End Term.

(* ---------- what check_rules = true says about every stored rule ---------- *)
Lemma filter_nil (A : Type) (p : A -> bool) (l : list A) :
  filter p l = [] -> forall x, In x l -> p x = false.
Proof.
  induction l as [|a l IH]; intros H x Hin; [destruct Hin|].
  cbn [filter] in H. destruct (p a) eqn:Pa; [discriminate|].
  destruct Hin as [<-|Hin]; [exact Pa|now apply IH].
Qed.

Lemma assoc_In (A : Type) n (l : list (str * A)) v : assoc n l = Some v -> In (n, v) l.
Proof.
  induction l as [|[k x] r IH]; cbn [assoc]; [discriminate|].
  destruct (str_eqb k n) eqn:E.
  - intros H. apply str_eqb_eq in E. inversion H; subst. now left.
  - intros H. right. now apply IH.
Qed.

Lemma check_rules_clean rs : check_rules rs false = true ->
  forall n c, In (n, c) rs ->
    undefined_check rs c = false /\ cycle_check rs (cycle_fuel rs) [] c = false.
Proof.
  unfold check_rules, undefined_names, cyclic_names. intros H n c Hin.
  destruct (filter (fun p => undefined_check rs (snd p)) rs) as [|p1 l1] eqn:F1;
    cbn [map] in H; [|discriminate].
  destruct (filter (fun p => cycle_check rs (cycle_fuel rs) [] (snd p)) rs) as [|p2 l2] eqn:F2;
    cbn [map] in H; [|discriminate].
  split.
  - apply (filter_nil _ _ F1 (n, c) Hin).
  - apply (filter_nil _ _ F2 (n, c) Hin).
Qed.

(* when validation reports nothing, evaluating any stored rule terminates *)
Theorem clean_terminates (w : world) (cur : option str) (n : str) (c : check) :
  check_rules (w_rules w) false = true ->
  (forall id cu, w_custom w id cu <> OutOfFuel) ->
  assoc n (w_rules w) = Some c ->
  eval (fuel_for (w_rules w)) w cur c <> OutOfFuel.
Proof.
  intros Hcr Hcu Hn.
  pose proof (check_rules_clean _ Hcr) as Hclean.
  assert (Hclosed : forall k body, assoc k (w_rules w) = Some body ->
            forall m, In m (refs_all body) -> exists b, assoc m (w_rules w) = Some b).
  { intros k body Hk m Hm. destruct (Hclean k body (assoc_In _ _ Hk)) as (Hu & _).
    destruct (assoc m (w_rules w)) as [b|] eqn:E; [eauto|].
    exfalso. assert (Ht : undefined_check (w_rules w) body = true).
    { apply undefined_exact. exists m. split; assumption. }
    congruence. }
  apply eval_no_oof with (seen := []).
  - exact Hcu.
  - exact Hclosed.
  - unfold fuel_for. pose proof (room_nil_le (w_rules w)). lia.
  - intros m Hm. split; [eapply Hclosed; eassumption|].
    intros Hh. destruct (Hclean n c (assoc_In _ _ Hn)) as (_ & Hc).
    assert (Ht : cycle_check (w_rules w) (cycle_fuel (w_rules w)) [] c = true).
    { apply cyc_complete; [apply cycle_fuel_room|]. exists m. split; assumption. }
    congruence.
Qed.

Print Assumptions undefined_exact.
Print Assumptions cycle_exact.
Print Assumptions clean_terminates.
