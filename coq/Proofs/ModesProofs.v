(* do_raise on/off: the two modes of Enforcer.enforce are two views of the same decision. *)
From Coq Require Import String List Bool NArith.
From OP Require Import Base.Str Base.Check Base.ParserTypes Base.Res Base.Json Base.DTree
                       Gen.GPolicy Model.Leaf Model.Eval Model.Enforce Bridge.EnforceBridge.
Import ListNotations.
Set Implicit Arguments.

(* _enforce_scope (GENERATED tree): with do_raise it raises InvalidScope exactly where it would
   otherwise return False; it never fails in any other way *)
Lemma scope_gate_modes creds types es :
  (scope_gate creds types es false = Ok true /\ scope_gate creds types es true = Ok true) \/
  (scope_gate creds types es false = Ok false /\ scope_gate creds types es true = Raise EInvalidScope).
Proof.
  unfold scope_gate, scope_env.
  destruct (truthy (jget creds (s "system"))), (truthy (jget creds (s "domain_id"))),
           (mem_str (s "system") types), (mem_str (s "domain") types), (mem_str (s "project") types), es;
    cbv [scope_tree run ceval]; auto.
Qed.

Section Modes.
Variables (x : ectx) (creds0 : jv) (r : rulearg) (exc : excarg).
Let off := enforce x (CMapping creds0) r false exc.
Let on := enforce x (CMapping creds0) r true exc.

Lemma modes_cases :
  (off = Ok true /\ on = Ok true) \/
  (off = Ok false /\ (on = Raise (exn_of exc) \/ on = Raise EInvalidScope)) \/
  (exists e, off = Raise e /\ on = Raise e) \/
  (off = OutOfFuel /\ on = OutOfFuel).
Proof.
  unfold off, on. rewrite !enforce_is_skeleton. unfold skeleton, atoms_of, tail.
  set (creds := mirror creds0).
  destruct r as [n|c types];
    cbn [a_isobj a_obj_types a_obj_gate a_obj_eval a_rules_ne a_lookup_ok
         a_registered a_name_types a_name_gate a_name_eval a_do_raise a_exc negb andb].
  - destruct (w_rules (with_creds (e_world x) creds)) as [|p q]; cbn [negb]; [auto|].
    destruct (lookup _ _ n) as [c|]; cbn [negb]; [|auto].
    destruct (assoc n (e_registered x)) as [[|t ts]|]; cbn [andb].
    + match goal with |- context [eval ?f ?w ?cu c] => destruct (eval f w cu c) as [[|]|?|] end; eauto 6.
    + destruct (scope_gate_modes creds (t :: ts) (e_enforce_scope x)) as [[-> ->]|[-> ->]]; [|auto].
      match goal with |- context [eval ?f ?w ?cu c] => destruct (eval f w cu c) as [[|]|?|] end; eauto 6.
    + match goal with |- context [eval ?f ?w ?cu c] => destruct (eval f w cu c) as [[|]|?|] end; eauto 6.
  - destruct types as [|t ts].
    + match goal with |- context [eval ?f ?w ?cu c] => destruct (eval f w cu c) as [[|]|?|] end; eauto 6.
    + destruct (scope_gate_modes creds (t :: ts) (e_enforce_scope x)) as [[-> ->]|[-> ->]]; [|auto].
      match goal with |- context [eval ?f ?w ?cu c] => destruct (eval f w cu c) as [[|]|?|] end; eauto 6.
Qed.

(* enforce with do_raise off returns a falsy value exactly when enforce with do_raise on raises
   (given that the evaluation itself does not raise) *)
Theorem modes_agree b : off = Ok b -> (b = false <-> exists e, on = Raise e).
Proof.
  intros H. destruct modes_cases as [[H1 H2]|[[H1 H2]|[(e & H1 & H2)|[H1 H2]]]]; rewrite H in H1.
  - inversion H1; subst. split; [discriminate|]. intros (e & He). rewrite H2 in He. discriminate.
  - inversion H1; subst. split; [|reflexivity]. intros _. destruct H2 as [->| ->]; eauto.
  - discriminate.
  - discriminate.
Qed.

Theorem allowed_never_raises : off = Ok true -> on = Ok true.
Proof.
  intros H. destruct modes_cases as [[H1 H2]|[[H1 H2]|[(e & H1 & H2)|[H1 H2]]]]; rewrite H in H1;
    try discriminate. exact H2.
Qed.

Theorem no_falsy_under_do_raise : on <> Ok false.
Proof.
  destruct modes_cases as [[H1 H2]|[[H1 H2]|[(e & H1 & H2)|[H1 H2]]]].
  - rewrite H2. discriminate.
  - destruct H2 as [-> | ->]; discriminate.
  - rewrite H2. discriminate.
  - rewrite H2. discriminate.
Qed.

(* a denial raises the caller's exception class, or PolicyNotAuthorized when none is given; a
   scope mismatch raises InvalidScope instead *)
Theorem exception_shape : off = Ok false ->
  on = Raise (exn_of exc) \/ on = Raise EInvalidScope.
Proof.
  intros H. destruct modes_cases as [[H1 H2]|[[H1 H2]|[(e & H1 & H2)|[H1 H2]]]]; rewrite H in H1;
    try discriminate. exact H2.
Qed.

(* an exception raised by the evaluation itself is the same in both modes *)
Theorem evaluation_error_same e : off = Raise e -> on = Raise e.
Proof.
  intros H. destruct modes_cases as [[H1 H2]|[[H1 H2]|[(e' & H1 & H2)|[H1 H2]]]]; rewrite H in H1;
    try discriminate. inversion H1; subst. exact H2.
Qed.
End Modes.

Theorem authorize_registered x ca n do_raise exc t :
  assoc n (e_registered x) = Some t -> authorize x ca n do_raise exc = enforce x ca (RName n) do_raise exc.
Proof. intros H. unfold authorize. now rewrite H. Qed.
Theorem authorize_unregistered x ca n do_raise exc :
  assoc n (e_registered x) = None -> authorize x ca n do_raise exc = Raise EPolicyNotRegistered.
Proof. intros H. unfold authorize. now rewrite H. Qed.
Theorem not_mapping_rejected x r do_raise exc :
  enforce x CNotMapping r do_raise exc = Raise EInvalidContextObject.
Proof. reflexivity. Qed.
