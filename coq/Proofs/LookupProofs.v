(* Rules.__missing__ / default-rule fallback, proved against the GENERATED decision tree. *)
From Coq Require Import String List Bool NArith.
From OP Require Import Base.Str Base.Check Base.ParserTypes Base.Res Base.Json Base.DTree
                       Gen.GPolicy Model.Leaf Model.Eval.
Import ListNotations.
Set Implicit Arguments.

(* the statement's table: a defined name is its own definition; otherwise the default rule if
   it is a check object or a defined name; otherwise nothing (KeyError -> deny) *)
Definition spec_lookup (rs : store) (d : drule) (n : str) : option check :=
  match assoc n rs with
  | Some c => Some c
  | None =>
      match d with
      | DCheck c => Some c
      | DName m => match m with [] => None | _ => assoc m rs end
      | DNone | DDict => None
      end
  end.

Theorem lookup_spec rs d n : lookup rs d n = spec_lookup rs d n.
Proof.
  unfold lookup, spec_lookup. destruct (assoc n rs) as [c|]; [reflexivity|].
  unfold missing. destruct d as [|m|c|].
  - reflexivity.
  - destruct m as [|a m]; [reflexivity|].
    destruct (assoc (a :: m) rs) as [c|] eqn:E.
    + cbv [missing_tree run ceval missing_env]. rewrite E. reflexivity.
    + cbv [missing_tree run ceval missing_env]. rewrite E. reflexivity.
  - reflexivity.
  - reflexivity.
Qed.

Lemma lookup_defined rs d n c : assoc n rs = Some c -> lookup rs d n = Some c.
Proof. intros H. unfold lookup. now rewrite H. Qed.
