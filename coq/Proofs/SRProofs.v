(* Proofs about the shift-reduce parser: completeness, soundness, totality, and the
   denotation of the trees it builds. *)
From Coq Require Import List Bool Arith Lia.
From OP Require Import Base.Check Base.ParserTypes Gen.GParser Model.SR Spec.Grammar.
Import ListNotations.
Set Implicit Arguments.

Section SRProofs.
Variable leaf : Type.
Notation check := (check leaf).
Notation token := (token leaf).
Notation sym := (sym leaf).
Notation nunit := (nunit leaf).
Notation expr := (expr leaf).
Notation item := (item leaf).
Notation red := (red leaf).
Notation val := (@val leaf).
Notation and_join := (@and_join leaf).
Notation mix := (@mix leaf).
Notation act := (@act leaf).
Notation match_top := (@match_top leaf).
Notation find_red := (@find_red leaf).
Notation reduce := (@reduce leaf).
Notation shift := (@shift leaf).
Notation sym_of := (@sym_of leaf).
Notation run := (@run leaf).
Notation result := (@result leaf).
Notation parse_tokens := (@parse_tokens leaf).
Notation kind := (@kind leaf).

(* invariant: or-items are never empty *)
Definition item_ok (i : item) : Prop := match i with IOr cs => cs <> [] | _ => True end.
Lemma mix_some (cs : list check) c : cs <> [] -> exists cs', mix cs c = Some cs' /\ cs' <> [].
Proof.
  intros H. unfold mix. destruct (rev cs) as [|c1 r] eqn:E.
  - apply (f_equal (@rev _)) in E. rewrite rev_involutive in E. cbn in E. contradiction.
  - eexists; split; [reflexivity|]. intro H0. apply app_eq_nil in H0. destruct H0; discriminate.
Qed.
Lemma item_of_ok e : item_ok (item_of e).
Proof.
  induction e as [n|e IH b n]; gsimp; [exact I|].
  destruct (item_of e) as [a|cs|cs], b; cbn [step item_ok] in *; try exact I; try discriminate.
  - unfold mix'. destruct (mix_some (tree_n n) IH) as (x & -> & Hx). exact Hx.
  - intro H. apply app_eq_nil in H. destruct H; discriminate.
Qed.

(* ---------- completeness ---------- *)
Definition irreducible (st : list sym) : Prop := find_red table st = RNone.

Lemma reduce_irreducible f st : irreducible st -> reduce f st = Some st.
Proof. unfold irreducible. intros H. destruct f; cbn [reduce]; [reflexivity| now rewrite H]. Qed.

Lemma match_top_len rp st args rest :
  match_top rp st = Some (args, rest) -> length st = length rp + length rest.
Proof.
  revert st args rest. induction rp as [|k rp IH]; intros st args rest H; cbn in H.
  - inversion H; subst; reflexivity.
  - destruct st as [|s st']; [discriminate|].
    destruct (tk_eqb k (kind s)); [|discriminate].
    destruct (match_top rp st') as [[a r]|] eqn:E; [|discriminate].
    inversion H; subst. cbn. rewrite (IH _ _ _ E). reflexivity.
Qed.

Lemma find_red_shrinks st st' : find_red table st = RTo st' -> length st' < length st.
Proof.
  unfold table. cbn [find_red].
  repeat match goal with
  | |- context [match_top ?p st] =>
      let E := fresh "E" in
      destruct (match_top p st) as [[? ?]|] eqn:E;
      [ apply match_top_len in E; cbn [rev app length] in E;
        destruct (act _ _); intros H; inversion H; subst; cbn [length]; lia | ]
  end.
  discriminate.
Qed.

(* unfolding equation, given enough fuel *)
Lemma reduce_unfold f st : length st <= f ->
  reduce (S f) st = match find_red table st with
                    | RNone => Some st | RCrash => None | RTo st' => reduce f st' end.
Proof. reflexivity. Qed.

Lemma reduce_fuel f g st : length st <= f -> length st <= g -> reduce f st = reduce g st.
Proof.
  revert g st. induction f as [|f IH]; intros g st Hf Hg.
  - destruct st; [|cbn in Hf; lia]. destruct g; reflexivity.
  - destruct g as [|g].
    + destruct st; [|cbn in Hg; lia]. reflexivity.
    + cbn [reduce]. destruct (find_red table st) as [| |st'] eqn:E; try reflexivity.
      apply find_red_shrinks in E. apply IH; lia.
Qed.

Definition reduce_all (st : list sym) := reduce (length st) st.
Lemma shift_eq st s : shift st s = reduce_all (s :: st).
Proof. unfold shift, reduce_all. apply reduce_fuel; cbn; lia. Qed.

Lemma reduce_all_step st st' : find_red table st = RTo st' -> reduce_all st = reduce_all st'.
Proof.
  intros H. unfold reduce_all. pose proof (find_red_shrinks _ H) as L.
  destruct (length st) as [|n] eqn:En; [lia|].
  cbn [reduce]. rewrite H. apply reduce_fuel; lia.
Qed.
Lemma reduce_all_irr st : irreducible st -> reduce_all st = Some st.
Proof. apply reduce_irreducible. Qed.

(* tops that never reduce *)
Lemma irr_top s st : (forall c, s <> SCheck c) -> s <> SRp -> irreducible (s :: st).
Proof.
  intros H1 H2. unfold irreducible, table. cbn [find_red rev app match_top].
  destruct s; try reflexivity.
  - now exfalso.
  - exfalso. now apply (H1 c).
Qed.

Definition neutral (K : list sym) : Prop := K = [] \/ exists K', K = SLp :: K'.

Lemma irr_check_neutral c K : neutral K -> irreducible (SCheck c :: K).
Proof. intros [->|[K' ->]]; reflexivity. Qed.

Lemma run_app st ts1 ts2 :
  run st (ts1 ++ ts2) = match run st ts1 with Some st' => run st' ts2 | None => None end.
Proof.
  revert st. induction ts1 as [|t ts IH]; intros st; cbn [run app]; [reflexivity|].
  destruct (shift st (sym_of t)); [apply IH|reflexivity].
Qed.

Lemma complete_mut :
  (forall n K rest, run K (toks_n n ++ rest) =
                    match reduce_all (SCheck (tree_n n) :: K) with
                    | Some st => run st rest | None => None end)
  /\
  (forall e K rest, neutral K -> run K (toks e ++ rest) = run (isym (item_of e) :: K) rest).
Proof.
  apply nunit_expr_ind.
  - (* NNot *) intros n IH K rest. gsimp; cbn [app run sym_of].
    rewrite shift_eq, reduce_all_irr by (apply irr_top; congruence).
    rewrite IH. rewrite (@reduce_all_step (SCheck (tree_n n) :: SNot :: K) (SCheck (CNot (tree_n n)) :: K)); reflexivity.
  - (* NLeaf *) intros l K rest. gsimp; cbn [app run sym_of]. rewrite shift_eq. reflexivity.
  - (* NParen *) intros e IH K rest. gsimp; cbn [app run sym_of].
    rewrite shift_eq, reduce_all_irr by (apply irr_top; congruence).
    rewrite <- app_assoc. rewrite IH by (right; eauto).
    cbn [app run sym_of]. rewrite shift_eq.
    rewrite (@reduce_all_step (SRp :: isym (item_of e) :: SLp :: K) (SCheck (ival (item_of e)) :: K)).
    + reflexivity.
    + destruct (item_of e); reflexivity.
  - (* E1 *) intros n IH K rest HK. gsimp; cbn [isym]. rewrite IH.
    rewrite reduce_all_irr by (now apply irr_check_neutral). reflexivity.
  - (* EBin *) intros e IHe b n IHn K rest HK. gsimp.
    rewrite <- app_assoc. rewrite IHe by exact HK.
    cbn [app run]. rewrite shift_eq.
    assert (Hop : sym_of (if b then TAnd else TOr) = if b then SAnd else SOr) by (destruct b; reflexivity).
    rewrite Hop. rewrite reduce_all_irr by (apply irr_top; destruct b; congruence).
    rewrite IHn.
    pose proof (item_of_ok e) as Hok.
    rewrite (@reduce_all_step _ (isym (step (item_of e) b (tree_n n)) :: K)).
    + rewrite reduce_all_irr; [reflexivity|]. apply irr_top.
      * destruct (item_of e), b; cbn; congruence.
      * destruct (item_of e), b; cbn; congruence.
    + destruct (item_of e) as [a|cs|cs], b; cbn in Hok |- *; try reflexivity.
      unfold table. cbn [find_red rev app match_top kind tk_eqb act].
      unfold mix'. destruct (mix_some (tree_n n) Hok) as (x & -> & _). reflexivity.
Qed.

Theorem complete e : parse_tokens (toks e) = Some (PCheck (tree e)).
Proof.
  unfold parse_tokens.
  destruct complete_mut as [_ H]. specialize (H e [] []). rewrite app_nil_r in H.
  rewrite H by (now left). cbn [run]. unfold tree. destruct (item_of e); reflexivity.
Qed.


(* ---------- soundness: whatever reduces to one value is a sentence ---------- *)
Inductive covers : sym -> list token -> Prop :=
| cv_lp : covers SLp [TLp] | cv_rp : covers SRp [TRp] | cv_and : covers SAnd [TAnd]
| cv_or : covers SOr [TOr] | cv_not : covers SNot [TNot] | cv_str : covers SStr [TStr]
| cv_check n : covers (SCheck (tree_n n)) (toks_n n)
| cv_ande e cs : item_of e = IAnd cs -> covers (SAndE cs) (toks e)
| cv_ore e cs : item_of e = IOr cs -> covers (SOrE cs) (toks e).

Inductive scovers : list sym -> list token -> Prop :=
| sc_nil : scovers [] []
| sc_cons s st ts1 ts2 : scovers st ts1 -> covers s ts2 -> scovers (s :: st) (ts1 ++ ts2).

Lemma covers_tok t : covers (sym_of t) [t].
Proof. destruct t; cbn; try constructor. apply (cv_check (NLeaf l)). Qed.

Lemma covers_val s ts c : covers s ts -> val s = Some c -> exists e, toks e = ts /\ tree e = c.
Proof.
  intros H V. destruct H; cbn in V; try discriminate; inversion V; subst.
  - exists (E1 n). split; reflexivity.
  - exists e. unfold tree. rewrite H. split; reflexivity.
  - exists e. unfold tree. rewrite H. split; reflexivity.
Qed.

Ltac inv H := inversion H; subst; clear H.

Ltac inv_sc :=
  repeat match goal with
  | H : scovers (_ :: _) _ |- _ => inv H
  | H : covers SLp _ |- _ => inv H
  | H : covers SRp _ |- _ => inv H
  | H : covers SAnd _ |- _ => inv H
  | H : covers SOr _ |- _ => inv H
  | H : covers SNot _ |- _ => inv H
  | H : covers (SCheck _) _ |- _ => inv H
  | H : covers (SAndE _) _ |- _ => inv H
  | H : covers (SOrE _) _ |- _ => inv H
  end.

Ltac close_sc := rewrite <- ?app_assoc; apply sc_cons; [assumption|]; cbn [app].

Lemma cv_check' c ts : (exists n, tree_n n = c /\ toks_n n = ts) -> covers (SCheck c) ts.
Proof. intros (n & <- & <-). constructor. Qed.
Lemma cv_ande' cs ts : (exists e, item_of e = IAnd cs /\ toks e = ts) -> covers (SAndE cs) ts.
Proof. intros (e & H & <-). now constructor. Qed.
Lemma cv_ore' cs ts : (exists e, item_of e = IOr cs /\ toks e = ts) -> covers (SOrE cs) ts.
Proof. intros (e & H & <-). now constructor. Qed.

Lemma red_sound st st' ts : find_red table st = RTo st' -> scovers st ts -> scovers st' ts.
Proof.
  intros H Hc.
  destruct st as [|a st]; [discriminate|].
  destruct a; try discriminate.
  - (* top = ")" *)
    destruct st as [|b st]; [discriminate|].
    destruct b; try discriminate;
    (destruct st as [|c0 st]; [discriminate|]; destruct c0; try discriminate);
    cbn in H; inv H; inv_sc; close_sc; apply cv_check'.
    + eexists (NParen (E1 _)); split; reflexivity.
    + exists (NParen e); gsimp. match goal with H : item_of e = _ |- _ => rewrite H end. split; reflexivity.
    + exists (NParen e); gsimp. match goal with H : item_of e = _ |- _ => rewrite H end. split; reflexivity.
  - (* top = check *)
    destruct st as [|b st]; [discriminate|].
    destruct b; try discriminate.
    + (* and *)
      destruct st as [|c0 st]; [discriminate|]. destruct c0; try discriminate.
      * cbn in H. inv H. inv_sc. close_sc. apply cv_ande'.
        eexists (EBin (E1 _) true _); split; reflexivity.
      * cbn in H. inv H. inv_sc. close_sc. apply cv_ande'.
        eexists (EBin e true _); gsimp. match goal with H : item_of e = _ |- _ => rewrite H end. split; reflexivity.
      * unfold table in H. cbn [find_red rev app match_top kind tk_eqb act] in H.
        destruct (mix cs c) as [cs'|] eqn:M; [|discriminate]. inv H.
        inv_sc. close_sc. apply cv_ore'.
        eexists (EBin e true _); gsimp. match goal with H : item_of e = _ |- _ => rewrite H end.
        cbn. unfold mix'. rewrite M. split; reflexivity.
    + (* or *)
      destruct st as [|c0 st]; [discriminate|]. destruct c0; try discriminate.
      * cbn in H. inv H. inv_sc. close_sc. apply cv_ore'.
        eexists (EBin (E1 _) false _); split; reflexivity.
      * cbn in H. inv H. inv_sc. close_sc. apply cv_ore'.
        eexists (EBin e false _); gsimp. match goal with H : item_of e = _ |- _ => rewrite H end. split; reflexivity.
      * cbn in H. inv H. inv_sc. close_sc. apply cv_ore'.
        eexists (EBin e false _); gsimp. match goal with H : item_of e = _ |- _ => rewrite H end. split; reflexivity.
    + (* not *)
      cbn in H. inv H. inv_sc. close_sc. apply cv_check'.
      eexists (NNot _); split; reflexivity.
Qed.

Lemma red_nocrash st ts : scovers st ts -> find_red table st <> RCrash.
Proof.
  intros Hc H.
  destruct st as [|a st]; [discriminate|].
  destruct a; try discriminate.
  - destruct st as [|b st]; [discriminate|].
    destruct b; try discriminate;
    (destruct st as [|c0 st]; [discriminate|]; destruct c0; discriminate).
  - destruct st as [|b st]; [discriminate|].
    destruct b; try discriminate;
    (destruct st as [|c0 st]; [discriminate|]; destruct c0; try discriminate).
    unfold table in H. cbn [find_red rev app match_top kind tk_eqb act] in H.
    inv_sc.
    pose proof (item_of_ok e) as Hok.
    match goal with H : item_of e = _ |- _ => rewrite H in Hok end. cbn in Hok.
    match goal with H : context [mix cs ?c] |- _ => destruct (mix_some c Hok) as (x & Hx & _); rewrite Hx in H end.
    discriminate.
Qed.

Lemma reduce_sound f st ts : scovers st ts -> exists st', reduce f st = Some st' /\ scovers st' ts.
Proof.
  revert st. induction f as [|f IH]; intros st Hc; cbn [reduce]; [eauto|].
  destruct (find_red table st) as [| |st'] eqn:E.
  - eauto.
  - exfalso. eapply red_nocrash; eauto.
  - apply IH. eapply red_sound; eauto.
Qed.

Lemma run_sound ts : forall st ts0, scovers st ts0 ->
  exists st', run st ts = Some st' /\ scovers st' (ts0 ++ ts).
Proof.
  induction ts as [|t ts IH]; intros st ts0 Hc; cbn [run].
  - rewrite app_nil_r. eauto.
  - unfold shift.
    destruct (@reduce_sound (S (length st)) (sym_of t :: st) (ts0 ++ [t])) as (st1 & -> & H1).
    + apply sc_cons; [assumption|apply covers_tok].
    + destruct (IH st1 _ H1) as (st2 & -> & H2). rewrite <- app_assoc in H2. eauto.
Qed.

Theorem parser_total ts : exists st, run [] ts = Some st.
Proof. destruct (@run_sound ts [] [] sc_nil) as (st & H & _). eauto. Qed.

Theorem sound ts p : parse_tokens ts = Some p ->
  exists e, toks e = ts /\ p = PCheck (tree e).
Proof.
  unfold parse_tokens. intros V. destruct (@run_sound ts [] [] sc_nil) as (st' & H & Hc).
  rewrite H in V. cbn in Hc.
  destruct st' as [|s0 [|? ?]]; try discriminate.
  inv Hc. match goal with H : scovers [] _ |- _ => inv H end. cbn [app].
  match goal with H : covers _ _ |- _ => destruct H end; try discriminate V.
  - exists (E1 n). inv V. split; reflexivity.
  - exists e. inv V. unfold tree. match goal with H : item_of e = _ |- _ => rewrite H end. split; reflexivity.
  - exists e. inv V. unfold tree. match goal with H : item_of e = _ |- _ => rewrite H end. split; reflexivity.
Qed.

(* nothing but a check is ever returned: the F1 repair, as a theorem about the generated
   rejection list *)
Theorem result_is_check ts p : parse_tokens ts = Some p -> exists c, p = PCheck c.
Proof. intros H. destruct (sound _ H) as (e & _ & ->). eauto. Qed.

(* ---------- semantics: precedence ---------- *)
Variable env : leaf -> bool.
Notation eval := (beval env).
Notation den_n := (den_n env).
Notation den2 := (den2 env).
Notation den := (den env).
Lemma eval_and cs : eval (CAnd cs) = forallb eval cs.
Proof. apply beval_and. Qed.
Lemma eval_or cs : eval (COr cs) = existsb eval cs.
Proof. apply beval_or. Qed.

Definition iden (i : item) : bool * bool :=
  match i with
  | ICheck c => (false, eval c)
  | IAnd cs => (false, forallb eval cs)
  | IOr cs => match rev cs with [] => (false, false) | x :: r => (existsb eval (rev r), eval x) end
  end.

Lemma eval_and_join a c : eval (and_join a c) = eval a && eval c.
Proof.
  destruct a; cbn [and_join]; rewrite ?eval_and; cbn [forallb]; rewrite ?andb_true_r; try reflexivity.
  rewrite forallb_app. cbn. rewrite andb_true_r. rewrite <- eval_and. reflexivity.
Qed.

Lemma rev_cons_inv (T : Type) (l : list T) x r : rev l = x :: r -> l = rev r ++ [x].
Proof. intros E. apply (f_equal (@rev _)) in E. rewrite rev_involutive in E. exact E. Qed.

Lemma iden_val i : item_ok i -> eval (ival i) = (let (d, c) := iden i in d || c).
Proof.
  destruct i as [c|cs|cs]; intros Hok; cbn [ival iden].
  - reflexivity.
  - now rewrite eval_and.
  - rewrite eval_or. cbn [item_ok] in Hok. destruct (rev cs) as [|x r] eqn:E.
    + apply (f_equal (@rev _)) in E. rewrite rev_involutive in E. contradiction.
    + apply rev_cons_inv in E. subst cs. rewrite existsb_app. cbn [existsb]. now rewrite orb_false_r.
Qed.

Lemma sem_mut :
  (forall n, eval (tree_n n) = den_n n) /\ (forall e, iden (item_of e) = den2 e).
Proof.
  apply nunit_expr_ind.
  - intros n IH. gsimp. cbn [beval]. now rewrite IH.
  - intros l. gsimp. reflexivity.
  - intros e IH. gsimp. rewrite iden_val by apply item_of_ok. unfold Grammar.den. now rewrite IH.
  - intros n IH. gsimp. cbn [iden]. now rewrite IH.
  - intros e IHe b n IHn. gsimp. rewrite <- IHe, <- IHn.
    pose proof (item_of_ok e) as Hok.
    destruct (item_of e) as [a|cs|cs], b; cbn [step iden rev app forallb existsb]; rewrite ?andb_true_r, ?orb_false_r; try reflexivity.
    + rewrite forallb_app. cbn [forallb]. now rewrite andb_true_r.
    + cbn [item_ok] in Hok. unfold mix', SR.mix. destruct (rev cs) as [|x r] eqn:E.
      * apply (f_equal (@rev _)) in E. rewrite rev_involutive in E. contradiction.
      * rewrite rev_app_distr. cbn [rev app]. rewrite rev_involutive. now rewrite eval_and_join.
    + rewrite rev_app_distr. cbn [rev app]. rewrite rev_involutive.
      destruct (rev cs) as [|x r] eqn:E.
      * apply (f_equal (@rev _)) in E. rewrite rev_involutive in E. cbn [item_ok] in Hok. contradiction.
      * apply rev_cons_inv in E. subst cs. cbn [rev].
        rewrite existsb_app. cbn [existsb]. now rewrite orb_false_r.
Qed.

Theorem tree_den e : eval (tree e) = den e.
Proof.
  destruct sem_mut as [H _]. specialize (H (NParen e)). gsimp_in H. exact H.
Qed.

End SRProofs.

Print Assumptions complete.
Print Assumptions sound.
Print Assumptions tree_den.
