(* The instrumented evaluator computes the same result as the evaluator, and every recording
   leaf it reaches is told the current rule the evaluation started with. *)
From Coq Require Import String List Bool NArith Arith Lia.
From OP Require Import Base.Str Base.Check Base.ParserTypes Base.Res Base.Json
                       Gen.GChecks Model.Leaf Model.Tokenize Model.Eval Model.Trace
                       Proofs.EvalProofs.
Import ListNotations.

(* ---------- unfolding equation of eval_tr ---------- *)
Fixpoint all_tr (ev : check -> res bool * list event) (l : list check) : res bool * list event :=
  match l with
  | [] => (Ok true, [])
  | x :: r => let (v, t) := ev x in
              match v with
              | Ok true => let (v', t') := all_tr ev r in (v', t ++ t')
              | Ok false => (Ok false, t)
              | e => (e, t) end
  end.
Fixpoint any_tr (ev : check -> res bool * list event) (l : list check) : res bool * list event :=
  match l with
  | [] => (Ok false, [])
  | x :: r => let (v, t) := ev x in
              match v with
              | Ok false => let (v', t') := any_tr ev r in (v', t ++ t')
              | Ok true => (Ok true, t)
              | e => (e, t) end
  end.

Definition leaf_tr (f : nat) (w : world) (cur : option str) (l : leaf) : res bool * list event :=
  match l with
  | LTrue => (Ok true, [])
  | LFalse => (Ok false, [])
  | LCheck KRule _ m =>
      match lookup (w_rules w) (w_default w) m with
      | None => (if catches catch_rule EKeyError then Ok false else Raise EKeyError, [])
      | Some body => let (r, t) := eval_tr f w cur body in
                     (try_catch r catch_rule (Ok false), t)
      end
  | LCheck KRole _ m => (role_check m (w_target w) (w_creds w), [])
  | LCheck KGeneric k m => (generic_check (w_lit w) k m (w_target w) (w_creds w), [])
  | LCheck KHttp k m => http_tr w k m cur
  | LCheck KHttps k m => http_tr w k m cur
  | LCheck (KCustom id) _ _ =>
      (w_custom w id cur, [EvCustom id (if passes_cur id then cur else None)])
  end.

Lemma eval_tr_S f w cur c : eval_tr (S f) w cur c =
  match c with
  | CLeaf l => leaf_tr f w cur l
  | CNot c' => let (r, t) := eval_tr (S f) w cur c' in
               (match r with Ok b => Ok (negb b) | r => r end, t)
  | CAnd cs => all_tr (eval_tr (S f) w cur) cs
  | COr cs => any_tr (eval_tr (S f) w cur) cs
  end.
Proof.
  destruct c as [l|c'|cs|cs].
  - destruct l as [| |k ? ?]; [reflexivity|reflexivity|]. destruct k; reflexivity.
  - reflexivity.
  - cbn [eval_tr]. induction cs as [|x r IH]; [reflexivity|]. cbn [all_tr]. rewrite <- IH. reflexivity.
  - cbn [eval_tr]. induction cs as [|x r IH]; [reflexivity|]. cbn [any_tr]. rewrite <- IH. reflexivity.
Qed.

Lemma eval_tr_0 w cur c : eval_tr 0 w cur c = (OutOfFuel, []).
Proof. reflexivity. Qed.

(* ---------- the first component is the evaluator ---------- *)
Lemma http_tr_fst w sch m cur : fst (http_tr w sch m cur) = http_check w sch m cur.
Proof.
  unfold http_tr, http_check.
  destruct (subst (sch ++ [colon] ++ m) (w_target w)) as [url|e|]; reflexivity.
Qed.

Theorem eval_tr_fst f w cur c : fst (eval_tr f w cur c) = eval f w cur c.
Proof.
  revert c. induction f as [|f IHf]; intros c; [reflexivity|].
  induction c as [l|c IHc|cs IHcs|cs IHcs] using check_ind'; rewrite eval_tr_S, eval_S.
  - destruct l as [| |k kk m]; [reflexivity|reflexivity|].
    destruct k; cbn [leaf_tr eval_leaf]; try reflexivity; try apply http_tr_fst.
    destruct (lookup (w_rules w) (w_default w) m) as [body|]; [|reflexivity].
    rewrite <- (IHf body). destruct (eval_tr f w cur body) as [r t]. reflexivity.
  - rewrite <- IHc. destruct (eval_tr (S f) w cur c) as [r t]. destruct r; reflexivity.
  - induction IHcs as [|x l Hx Hl IHl]; cbn [all_tr all_of]; [reflexivity|].
    rewrite <- Hx. destruct (eval_tr (S f) w cur x) as [v t]. cbn [fst].
    destruct v as [[|]|e|]; [|reflexivity|reflexivity|reflexivity].
    rewrite <- IHl. destruct (all_tr (eval_tr (S f) w cur) l) as [v' t']. reflexivity.
  - induction IHcs as [|x l Hx Hl IHl]; cbn [any_tr any_of]; [reflexivity|].
    rewrite <- Hx. destruct (eval_tr (S f) w cur x) as [v t]. cbn [fst].
    destruct v as [[|]|e|]; [reflexivity| |reflexivity|reflexivity].
    rewrite <- IHl. destruct (any_tr (eval_tr (S f) w cur) l) as [v' t']. reflexivity.
Qed.

(* ---------- every event carries the current rule of the enclosing evaluation ---------- *)
Definition event_cur_ok (cur : option str) (e : event) : Prop :=
  match e with
  | EvCustom id c' => c' = (if passes_cur id then cur else None)
  | EvHttp _ c' => c' = cur
  end.

Lemma http_tr_cur w sch m cur : Forall (event_cur_ok cur) (snd (http_tr w sch m cur)).
Proof.
  unfold http_tr.
  destruct (subst (sch ++ [colon] ++ m) (w_target w)) as [url|e|]; cbn [snd];
    [|constructor|constructor].
  constructor; [reflexivity|constructor].
Qed.

Theorem trace_cur f w cur c : Forall (event_cur_ok cur) (snd (eval_tr f w cur c)).
Proof.
  revert c. induction f as [|f IHf]; intros c; [rewrite eval_tr_0; constructor|].
  induction c as [l|c IHc|cs IHcs|cs IHcs] using check_ind'; rewrite eval_tr_S.
  - destruct l as [| |k kk m]; [constructor|constructor|].
    destruct k; cbn [leaf_tr snd]; try constructor; try apply http_tr_cur.
    + destruct (lookup (w_rules w) (w_default w) m) as [body|]; [|constructor].
      pose proof (IHf body) as Hb. destruct (eval_tr f w cur body) as [r t]. exact Hb.
    + reflexivity.
    + constructor.
  - destruct (eval_tr (S f) w cur c) as [r t]. exact IHc.
  - induction IHcs as [|x l Hx Hl IHl]; cbn [all_tr]; [constructor|].
    destruct (eval_tr (S f) w cur x) as [v t]. cbn [snd] in Hx.
    destruct v as [[|]|e|]; [|exact Hx|exact Hx|exact Hx].
    destruct (all_tr (eval_tr (S f) w cur) l) as [v' t']. cbn [snd] in IHl |- *.
    apply Forall_app. split; assumption.
  - induction IHcs as [|x l Hx Hl IHl]; cbn [any_tr]; [constructor|].
    destruct (eval_tr (S f) w cur x) as [v t]. cbn [snd] in Hx.
    destruct v as [[|]|e|]; [exact Hx| |exact Hx|exact Hx].
    destruct (any_tr (eval_tr (S f) w cur) l) as [v' t']. cbn [snd] in IHl |- *.
    apply Forall_app. split; assumption.
Qed.

Print Assumptions eval_tr_fst.
Print Assumptions trace_cur.
