(* Basic facts about the evaluator: unfolding equation, Boolean combination of leaf results. *)
From Coq Require Import String List Bool NArith Arith Lia.
From OP Require Import Base.Str Base.Check Base.ParserTypes Base.Res Base.Json
                       Gen.GChecks Model.Leaf Model.Eval.
Import ListNotations.
Set Implicit Arguments.

Fixpoint all_of (ev : check -> res bool) (l : list check) : res bool :=
  match l with
  | [] => Ok true
  | x :: r => match ev x with Ok true => all_of ev r | Ok false => Ok false | e => e end
  end.
Fixpoint any_of (ev : check -> res bool) (l : list check) : res bool :=
  match l with
  | [] => Ok false
  | x :: r => match ev x with Ok false => any_of ev r | Ok true => Ok true | e => e end
  end.

Definition eval_leaf (f : nat) (w : world) (cur : option str) (l : leaf) : res bool :=
  match l with
  | LTrue => Ok true
  | LFalse => Ok false
  | LCheck KRule _ m =>
      match lookup (w_rules w) (w_default w) m with
      | None => if catches catch_rule EKeyError then Ok false else Raise EKeyError
      | Some body => try_catch (eval f w cur body) catch_rule (Ok false)
      end
  | LCheck KRole _ m => role_check m (w_target w) (w_creds w)
  | LCheck KGeneric k m => generic_check (w_lit w) k m (w_target w) (w_creds w)
  | LCheck KHttp k m => http_check w k m cur
  | LCheck KHttps k m => http_check w k m cur
  | LCheck (KCustom id) _ _ => w_custom w id cur
  end.

Lemma eval_S f w cur c : eval (S f) w cur c =
  match c with
  | CLeaf l => eval_leaf f w cur l
  | CNot c' => match eval (S f) w cur c' with Ok b => Ok (negb b) | r => r end
  | CAnd cs => all_of (eval (S f) w cur) cs
  | COr cs => any_of (eval (S f) w cur) cs
  end.
Proof.
  destruct c as [l|c'|cs|cs].
  - destruct l as [| |k ? ?]; [reflexivity|reflexivity|]. destruct k; reflexivity.
  - reflexivity.
  - cbn [eval]. induction cs as [|x r IH]; [reflexivity|]. cbn [all_of]. rewrite <- IH. reflexivity.
  - cbn [eval]. induction cs as [|x r IH]; [reflexivity|]. cbn [any_of]. rewrite <- IH. reflexivity.
Qed.

Lemma eval_0 w cur c : eval 0 w cur c = OutOfFuel.
Proof. reflexivity. Qed.

(* If every leaf of a tree evaluates to a definite Boolean, the tree evaluates to the Boolean
   combination of those values: and/or/not are exactly the Boolean connectives. *)
Theorem eval_bool f w cur (env : leaf -> bool) (c : check) :
  (forall l, In l (leaves c) -> eval_leaf f w cur l = Ok (env l)) ->
  eval (S f) w cur c = Ok (beval env c).
Proof.
  induction c as [l|c IH|cs IH|cs IH] using check_ind'; intros H; rewrite eval_S.
  - apply H. now left.
  - rewrite IH by exact H. reflexivity.
  - rewrite beval_and. rewrite leaves_and in H.
    induction IH as [|x r Hx Hr IHr]; [reflexivity|]. cbn [all_of forallb].
    rewrite Hx by (intros l Hl; apply H; cbn [flat_map]; apply in_or_app; now left).
    destruct (beval env x); [|reflexivity].
    apply IHr. intros l Hl. apply H. cbn [flat_map]. apply in_or_app. now right.
  - rewrite beval_or. rewrite leaves_or in H.
    induction IH as [|x r Hx Hr IHr]; [reflexivity|]. cbn [any_of existsb].
    rewrite Hx by (intros l Hl; apply H; cbn [flat_map]; apply in_or_app; now left).
    destruct (beval env x); [reflexivity|].
    apply IHr. intros l Hl. apply H. cbn [flat_map]. apply in_or_app. now right.
Qed.
