(* Facts about Enforcer.enforce as modelled: what it returns in each mode. *)
From Coq Require Import String List Bool NArith.
From OP Require Import Base.Str Base.Check Base.ParserTypes Base.Res Base.Json Base.DTree
                       Gen.GPolicy Model.Leaf Model.Eval Model.Enforce Proofs.LookupProofs.
Import ListNotations.
Set Implicit Arguments.

Definition world_of (x : ectx) (creds : jv) : world := with_creds (e_world x) (mirror creds).
Definition types_of (x : ectx) (n : str) : list str :=
  match assoc n (e_registered x) with Some t => t | None => [] end.

(* enforce by name, no exception requested *)
Lemma enforce_name_noraise x creds n exc :
  enforce x (CMapping creds) (RName n) false exc =
  let w := world_of x creds in
  match w_rules w with
  | [] => Ok false
  | _ => match lookup (w_rules w) (w_default w) n with
         | None => Ok false
         | Some c =>
             match gate x (mirror creds) (types_of x n) false with
             | Ok true => eval (fuel_for (w_rules w)) w (Some n) c
             | Ok false => Ok false
             | Raise e => Raise e
             | OutOfFuel => OutOfFuel
             end
         end
  end.
Proof.
  unfold enforce, decide, world_of, types_of. cbn [with_creds w_rules w_default].
  destruct (w_rules (e_world x)) as [|p r] eqn:R; [reflexivity|].
  destruct (lookup (p :: r) (w_default (e_world x)) n) as [c|]; [|reflexivity].
  destruct (gate x (mirror creds) _ false) as [[|]| |]; cbn [bind]; try reflexivity.
  match goal with |- context [eval ?f ?w ?cur ?c] => destruct (eval f w cur c) as [b| |] end;
    cbn [bind andb]; reflexivity.
Qed.

Theorem unknown_denies x creds n exc :
  spec_lookup (w_rules (e_world x)) (w_default (e_world x)) n = None ->
  enforce x (CMapping creds) (RName n) false exc = Ok false.
Proof.
  intros H. rewrite enforce_name_noraise. unfold world_of. cbn [with_creds w_rules w_default].
  destruct (w_rules (e_world x)) as [|p r] eqn:R; [reflexivity|].
  rewrite lookup_spec, H. reflexivity.
Qed.

Theorem empty_denies x creds n exc :
  w_rules (e_world x) = [] -> enforce x (CMapping creds) (RName n) false exc = Ok false.
Proof.
  intros H. rewrite enforce_name_noraise. unfold world_of. cbn [with_creds w_rules]. now rewrite H.
Qed.

Lemma gate_nil x creds dr : gate x creds [] dr = Ok true.
Proof. reflexivity. Qed.

Theorem resolved_decides x creds n c exc :
  spec_lookup (w_rules (e_world x)) (w_default (e_world x)) n = Some c ->
  w_rules (e_world x) <> [] -> types_of x n = [] ->
  enforce x (CMapping creds) (RName n) false exc =
  eval (fuel_for (w_rules (e_world x))) (world_of x creds) (Some n) c.
Proof.
  intros H Hne Ht. rewrite enforce_name_noraise. cbv zeta.
  assert (Hr : w_rules (world_of x creds) = w_rules (e_world x)) by reflexivity.
  assert (Hd : w_default (world_of x creds) = w_default (e_world x)) by reflexivity.
  rewrite Hr, Hd.
  destruct (w_rules (e_world x)) as [|p r] eqn:R; [contradiction|].
  rewrite lookup_spec, H, Ht, gate_nil. reflexivity.
Qed.
