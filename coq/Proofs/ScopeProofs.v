(* Scope gate: proved against the GENERATED _enforce_scope tree. *)
From Coq Require Import String List Bool NArith.
From OP Require Import Base.Str Base.Check Base.ParserTypes Base.Res Base.Json Base.DTree
                       Gen.GPolicy Model.Leaf Model.Eval Model.Enforce Bridge.EnforceBridge.
Import ListNotations.
Set Implicit Arguments.

(* system if the credentials carry a system scope, else domain if they carry a domain id,
   else project *)
Definition token_scope (creds : jv) : str :=
  if truthy (jget creds (s "system")) then s "system"
  else if truthy (jget creds (s "domain_id")) then s "domain"
  else s "project".

Definition spec_gate (creds : jv) (types : list str) (es dr : bool) : res bool :=
  if mem_str (token_scope creds) types || negb es then Ok true
  else if dr then Raise EInvalidScope else Ok false.

Theorem scope_gate_spec creds types es dr : scope_gate creds types es dr = spec_gate creds types es dr.
Proof.
  unfold scope_gate, scope_env, spec_gate, token_scope.
  destruct (truthy (jget creds (s "system"))), (truthy (jget creds (s "domain_id"))),
           (mem_str (s "system") types), (mem_str (s "domain") types), (mem_str (s "project") types),
           es, dr; reflexivity.
Qed.

(* system_scope is mirrored into system *)
Lemma mirror_system kvs :
  truthy (jget (JDict kvs) (s "system_scope")) = true ->
  token_scope (mirror (JDict kvs)) = s "system".
Proof.
  intros H. unfold mirror. rewrite H. unfold token_scope. cbn [jset].
  assert (E : jget (JDict (dset (s "system") (jget (JDict kvs) (s "system_scope")) kvs)) (s "system")
              = jget (JDict kvs) (s "system_scope")).
  { unfold jget at 1. now rewrite assoc_dset_same. }
  rewrite E, H. reflexivity.
Qed.
Lemma mirror_other kvs :
  truthy (jget (JDict kvs) (s "system_scope")) = false -> mirror (JDict kvs) = JDict kvs.
Proof. intros H. unfold mirror. now rewrite H. Qed.

Section Gate.
Variables (x : ectx) (creds0 : jv) (exc : excarg).
Let creds := mirror creds0.

(* a registered policy with scope types, scope enforcement on, token scope not among them:
   denied whatever the check is *)
Theorem gate_denies_name n c types dr :
  w_rules (e_world x) <> [] ->
  lookup (w_rules (e_world x)) (w_default (e_world x)) n = Some c ->
  assoc n (e_registered x) = Some types -> types <> [] ->
  e_enforce_scope x = true -> mem_str (token_scope creds) types = false ->
  enforce x (CMapping creds0) (RName n) dr exc = if dr then Raise EInvalidScope else Ok false.
Proof.
  intros Hne Hl Hr Ht He Hm. rewrite enforce_is_skeleton. unfold skeleton, atoms_of.
  fold creds.
  cbn [a_isobj a_obj_types a_obj_gate a_obj_eval a_rules_ne a_lookup_ok
       a_registered a_name_types a_name_gate a_name_eval a_do_raise a_exc with_creds w_rules w_default].
  destruct (w_rules (e_world x)) as [|p q]; [contradiction|]. cbn [negb].
  rewrite Hl, Hr. cbn [negb]. destruct types as [|t ts]; [contradiction|]. cbn [andb].
  rewrite scope_gate_spec. unfold spec_gate. rewrite Hm, He. cbn [orb negb]. destruct dr; reflexivity.
Qed.

Theorem gate_denies_obj c types dr :
  types <> [] -> e_enforce_scope x = true -> mem_str (token_scope creds) types = false ->
  enforce x (CMapping creds0) (RObj c types) dr exc = if dr then Raise EInvalidScope else Ok false.
Proof.
  intros Ht He Hm. rewrite enforce_is_skeleton. unfold skeleton, atoms_of. fold creds.
  cbn [a_isobj a_obj_types a_obj_gate a_obj_eval a_do_raise a_exc].
  destruct types as [|t ts]; [contradiction|].
  rewrite scope_gate_spec. unfold spec_gate. rewrite Hm, He. cbn [orb negb]. destruct dr; reflexivity.
Qed.

(* scope matches, or enforcement is off, or no scope types: the decision is exactly that of the
   same call with no scope types declared anywhere *)
Definition no_scopes : ectx :=
  {| e_world := e_world x; e_registered := []; e_enforce_scope := e_enforce_scope x |}.

Theorem gate_transparent_name n dr :
  (match assoc n (e_registered x) with
   | Some types => types = [] \/ e_enforce_scope x = false \/ mem_str (token_scope creds) types = true
   | None => True end) ->
  enforce x (CMapping creds0) (RName n) dr exc = enforce no_scopes (CMapping creds0) (RName n) dr exc.
Proof.
  intros H. rewrite !enforce_is_skeleton. unfold skeleton, atoms_of. fold creds.
  cbn [a_isobj a_obj_types a_obj_gate a_obj_eval a_rules_ne a_lookup_ok a_registered a_name_types
       a_name_gate a_name_eval a_do_raise a_exc with_creds w_rules w_default no_scopes e_world
       e_registered e_enforce_scope assoc andb].
  destruct (w_rules (e_world x)) as [|p q]; [reflexivity|]. cbn [negb].
  destruct (lookup (p :: q) (w_default (e_world x)) n) as [c|]; [|reflexivity]. cbn [negb].
  destruct (assoc n (e_registered x)) as [[|t ts]|]; cbn [andb]; try reflexivity.
  rewrite scope_gate_spec. unfold spec_gate.
  destruct H as [H|[H|H]]; [discriminate|rewrite H|rewrite H]; cbn [orb negb]; try reflexivity.
  now rewrite orb_true_r.
Qed.

Theorem gate_transparent_obj c types dr :
  types = [] \/ e_enforce_scope x = false \/ mem_str (token_scope creds) types = true ->
  enforce x (CMapping creds0) (RObj c types) dr exc = enforce x (CMapping creds0) (RObj c []) dr exc.
Proof.
  intros H. rewrite !enforce_is_skeleton. unfold skeleton, atoms_of. fold creds.
  cbn [a_isobj a_obj_types a_obj_gate a_obj_eval a_do_raise a_exc].
  destruct types as [|t ts]; [reflexivity|].
  rewrite scope_gate_spec. unfold spec_gate.
  destruct H as [H|[H|H]]; [discriminate|rewrite H|rewrite H]; cbn [orb negb]; try reflexivity.
  now rewrite orb_true_r.
Qed.
End Gate.
