(* C10: a long-lived enforcer that re-reads policy files on demand holds, after any history of
   file changes, exactly the rules a freshly started enforcer computes from the current files
   (default overwrite mode).  Ported from the reduced prototype (relation [evolves], invariant
   with rules / main-file cache / directory-stamp cache / clock clauses). *)
From Coq Require Import String List Bool NArith Lia.
From OP Require Import Base.Str Base.Check Base.ParserTypes Base.Res Base.Json Base.DTree
                       Gen.GPolicy Model.Leaf Model.SR Model.Tokenize Model.Print Model.Eval
                       Model.Load Spec.Layering.
Import ListNotations.
Set Implicit Arguments.

(* ---------- statement-level definitions ---------- *)

(* every modification time in the file system lies in [1, clock] *)
Definition stamps_ok (fs : fsys) (clock : N) : Prop :=
  (match fs_main fs with Some f => (1 <= pf_mtime f <= clock)%N | None => True end) /\
  Forall (fun d => match d with
                   | Some pd => (1 <= newest pd <= clock)%N
                   | None => True end) (fs_dirs fs).

(* what may happen to the files between two loads, given the clock before *)
Definition evolves (clock : N) (fs fs' : fsys) : Prop :=
  (fs_main fs' = fs_main fs \/ fs_main fs' = None \/
   exists f, fs_main fs' = Some f /\ (clock < pf_mtime f)%N) /\
  Forall2 (fun d d' => match d, d' with
                       | Some pd, Some pd' => pd' = pd \/ (clock < newest pd')%N
                       | None, None => True
                       | None, Some pd' => (clock < newest pd')%N
                       | Some _, None => False
                       end) (fs_dirs fs) (fs_dirs fs').

(* a history: successive (file system, clock) pairs *)
Inductive history : fsys -> N -> list (fsys * N) -> Prop :=
| h_nil fs c : history fs c []
| h_cons fs c fs' c' h : evolves c fs fs' -> (c <= c')%N -> stamps_ok fs' c' ->
                         history fs' c' h -> history fs c ((fs', c') :: h).

Definition run (cf : lconf) (s : est) (h : list (fsys * N)) : est :=
  fold_left (fun st p => load_rules cf st (fst p) false) h s.
Definition last_fs (fs0 : fsys) (h : list (fsys * N)) : fsys :=
  match rev h with [] => fs0 | p :: _ => fst p end.

(* ---------- the two rule-carrying components, and the rest ---------- *)
Definition same_rf (a b : est) : Prop :=
  e_rules a = e_rules b /\ e_file_rules a = e_file_rules b.
Definition frame (s : est) := (e_path_known s, e_mcache s, e_dmtimes s).

Lemma same_rf_refl a : same_rf a a. Proof. split; reflexivity. Qed.
Lemma same_rf_sym a b : same_rf a b -> same_rf b a.
Proof. intros [H1 H2]; split; symmetry; assumption. Qed.
Lemma same_rf_trans a b c : same_rf a b -> same_rf b c -> same_rf a c.
Proof. intros [H1 H2] [H3 H4]; split; congruence. Qed.

(* ---------- apply_file / walk_dir ---------- *)
Lemma apply_file_same a b ct : same_rf a b -> same_rf (apply_file a ct false) (apply_file b ct false).
Proof.
  intros [Hr Hf]. unfold apply_file. split; cbn [e_rules e_file_rules]; congruence.
Qed.
Lemma apply_file_frame a ct ow : frame (apply_file a ct ow) = frame a.
Proof. reflexivity. Qed.
Lemma apply_file_use a ct ow : e_use_conf (apply_file a ct ow) = true.
Proof. reflexivity. Qed.

Lemma walk_dir_same a b d : same_rf a b -> same_rf (walk_dir a d) (walk_dir b d).
Proof.
  unfold walk_dir. generalize (walk_files d) as l. intros l. revert a b.
  induction l as [|p l IH]; intros a b H; cbn [fold_left]; [exact H|].
  apply IH. apply apply_file_same. exact H.
Qed.
Lemma walk_dir_frame a d : frame (walk_dir a d) = frame a.
Proof.
  unfold walk_dir. generalize (walk_files d) as l. intros l. revert a.
  induction l as [|p l IH]; intros a; cbn [fold_left]; [reflexivity|].
  rewrite IH. apply apply_file_frame.
Qed.
Lemma walk_dir_use a d : e_use_conf a = true -> e_use_conf (walk_dir a d) = true.
Proof.
  unfold walk_dir. generalize (walk_files d) as l. intros l. revert a.
  induction l as [|p l IH]; intros a H; cbn [fold_left]; [exact H|].
  apply IH. apply apply_file_use.
Qed.

Lemma walk_dirs_same ds : forall a b, same_rf a b ->
  same_rf (fold_left walk_dir ds a) (fold_left walk_dir ds b).
Proof.
  induction ds as [|d ds IH]; intros a b H; cbn [fold_left]; [exact H|].
  apply IH. apply walk_dir_same. exact H.
Qed.
Lemma walk_dirs_frame ds : forall a, frame (fold_left walk_dir ds a) = frame a.
Proof.
  induction ds as [|d ds IH]; intros a; cbn [fold_left]; [reflexivity|].
  rewrite IH. apply walk_dir_frame.
Qed.
Lemma walk_dirs_use ds : forall a, e_use_conf a = true -> e_use_conf (fold_left walk_dir ds a) = true.
Proof.
  induction ds as [|d ds IH]; intros a H; cbn [fold_left]; [exact H|].
  apply IH. apply walk_dir_use. exact H.
Qed.

(* ---------- the registered-defaults loop ---------- *)
Definition dstep (cf : lconf) (acc : est) (d : rdef) : est :=
  if has_key (rd_name d) (e_rules acc) then acc
  else
    let chk := match rd_dep d with
               | Some dp => handle_deprecated cf acc d dp
               | None => rd_check d end in
    {| e_rules := dset (rd_name d) chk (e_rules acc); e_file_rules := e_file_rules acc;
       e_path_known := e_path_known acc; e_mcache := e_mcache acc;
       e_dmtimes := e_dmtimes acc; e_use_conf := e_use_conf acc |}.

Lemma add_defaults_dstep cf s : add_defaults cf s = fold_left (dstep cf) (c_registered cf) s.
Proof. reflexivity. Qed.

(* _handle_deprecated_rule looks at the state only through file_rules *)
Lemma handle_deprecated_same cf a b d dp :
  e_file_rules a = e_file_rules b -> handle_deprecated cf a d dp = handle_deprecated cf b d dp.
Proof.
  intros Hf. unfold handle_deprecated, deprecated_env. rewrite Hf. reflexivity.
Qed.

Lemma dstep_same cf a b d : same_rf a b -> same_rf (dstep cf a d) (dstep cf b d).
Proof.
  intros [Hr Hf]. unfold dstep. rewrite Hr.
  destruct (has_key (rd_name d) (e_rules b)); [split; assumption|].
  split; cbn [e_rules e_file_rules]; [|exact Hf].
  f_equal. destruct (rd_dep d) as [dp|]; [|reflexivity].
  apply handle_deprecated_same. exact Hf.
Qed.
Lemma dstep_frame cf a d : frame (dstep cf a d) = frame a.
Proof. unfold dstep. destruct (has_key (rd_name d) (e_rules a)); reflexivity. Qed.
Lemma dstep_use cf a d : e_use_conf (dstep cf a d) = e_use_conf a.
Proof. unfold dstep. destruct (has_key (rd_name d) (e_rules a)); reflexivity. Qed.

Lemma has_key_dset {A} k k' (v : A) l :
  has_key k (dset k' v l) = str_eqb k' k || has_key k l.
Proof.
  unfold has_key. destruct (str_eqb k' k) eqn:E.
  - apply str_eqb_eq in E. subst. now rewrite assoc_dset_same.
  - apply str_eqb_neq in E. now rewrite (assoc_dset_other v l E).
Qed.

Lemma dstep_keeps cf a d k :
  has_key k (e_rules a) = true -> has_key k (e_rules (dstep cf a d)) = true.
Proof.
  intros H. unfold dstep. destruct (has_key (rd_name d) (e_rules a)); [exact H|].
  cbn [e_rules]. rewrite has_key_dset, H. apply orb_true_r.
Qed.
Lemma dstep_sets cf a d : has_key (rd_name d) (e_rules (dstep cf a d)) = true.
Proof.
  unfold dstep. destruct (has_key (rd_name d) (e_rules a)) eqn:E; [exact E|].
  cbn [e_rules]. rewrite has_key_dset, str_eqb_refl. reflexivity.
Qed.

Lemma defaults_same cf regs : forall a b, same_rf a b ->
  same_rf (fold_left (dstep cf) regs a) (fold_left (dstep cf) regs b).
Proof.
  induction regs as [|d regs IH]; intros a b H; cbn [fold_left]; [exact H|].
  apply IH. apply dstep_same. exact H.
Qed.
Lemma defaults_frame cf regs : forall a, frame (fold_left (dstep cf) regs a) = frame a.
Proof.
  induction regs as [|d regs IH]; intros a; cbn [fold_left]; [reflexivity|].
  rewrite IH. apply dstep_frame.
Qed.
Lemma defaults_use cf regs : forall a, e_use_conf (fold_left (dstep cf) regs a) = e_use_conf a.
Proof.
  induction regs as [|d regs IH]; intros a; cbn [fold_left]; [reflexivity|].
  rewrite IH. apply dstep_use.
Qed.
Lemma defaults_keeps cf regs k : forall a,
  has_key k (e_rules a) = true -> has_key k (e_rules (fold_left (dstep cf) regs a)) = true.
Proof.
  induction regs as [|d regs IH]; intros a H; cbn [fold_left]; [exact H|].
  apply IH. apply dstep_keeps. exact H.
Qed.
Lemma defaults_all_keys cf regs : forall a d, In d regs ->
  has_key (rd_name d) (e_rules (fold_left (dstep cf) regs a)) = true.
Proof.
  induction regs as [|d0 regs IH]; intros a d Hin; [destruct Hin|].
  cbn [fold_left]. destruct Hin as [->|Hin].
  - apply defaults_keeps. apply dstep_sets.
  - apply IH. exact Hin.
Qed.
(* once every registered name has a rule, the loop changes nothing *)
Lemma defaults_noop cf regs : forall a,
  (forall d, In d regs -> has_key (rd_name d) (e_rules a) = true) ->
  fold_left (dstep cf) regs a = a.
Proof.
  induction regs as [|d regs IH]; intros a H; cbn [fold_left]; [reflexivity|].
  assert (E : dstep cf a d = a).
  { unfold dstep. rewrite (H d (or_introl eq_refl)). reflexivity. }
  rewrite E. apply IH. intros d' Hd'. apply H. right. exact Hd'.
Qed.

Lemma add_defaults_same cf a b : same_rf a b -> same_rf (add_defaults cf a) (add_defaults cf b).
Proof. apply defaults_same. Qed.
Lemma add_defaults_frame cf a : frame (add_defaults cf a) = frame a.
Proof. apply defaults_frame. Qed.
Lemma add_defaults_use cf a : e_use_conf (add_defaults cf a) = e_use_conf a.
Proof. apply defaults_use. Qed.
(* add_defaults is idempotent: a second pass over its own output is the identity *)
Lemma add_defaults_fix cf s t : e_rules s = e_rules (add_defaults cf t) -> add_defaults cf s = s.
Proof.
  intros H. rewrite add_defaults_dstep. apply defaults_noop. intros d Hd. rewrite H.
  rewrite add_defaults_dstep. apply defaults_all_keys. exact Hd.
Qed.

(* ---------- what a fresh enforcer computes ---------- *)
Definition main_ct (m : option pfile) : content :=
  match m with Some f => pf_content f | None => [] end.
Definition canon (cf : lconf) (fs : fsys) : est :=
  add_defaults cf (fold_left walk_dir (existing (fs_dirs fs))
                             (apply_file init_state (main_ct (fs_main fs)) true)).

(* rebuilding from the main file (overwrite), all existing directories and the defaults gives
   rules / file_rules that do not depend on what the state held before *)
Lemma rebuild_is_fresh cf fs base ds :
  same_rf base (apply_file init_state (main_ct (fs_main fs)) true) ->
  ds = existing (fs_dirs fs) ->
  same_rf (add_defaults cf (fold_left walk_dir ds base)) (canon cf fs).
Proof.
  intros H ->. unfold canon. apply add_defaults_same. apply walk_dirs_same. exact H.
Qed.

(* ---------- directory stamps ---------- *)
Definition nonnil {A} (l : list A) : bool := match l with [] => false | _ => true end.

Lemma dirs_updated_some ds : forall c, fst (dirs_updated ds c) = true -> existing ds <> [].
Proof.
  induction ds as [|d ds IH]; intros c; cbn [dirs_updated]; [discriminate|].
  specialize (IH (tl c)). destruct (dirs_updated ds (tl c)) as [u c'].
  destruct d as [pd|]; cbn [existing flat_map app]; [discriminate|].
  cbn [fst] in *. exact IH.
Qed.

Lemma dirs_updated_fresh ds :
  Forall (fun d => match d with Some pd => (1 <= newest pd)%N | None => True end) ds ->
  dirs_updated ds [] = (nonnil (existing ds), map (option_map newest) ds).
Proof.
  induction 1 as [|d ds Hd H IH]; [reflexivity|].
  cbn [dirs_updated hd tl]. rewrite IH. destruct d as [pd|]; cbn [map option_map existing flat_map app].
  - assert (L : (0 <? newest pd)%N = true) by (apply N.ltb_lt; lia). rewrite L. reflexivity.
  - reflexivity.
Qed.

Lemma dirs_updated_spec clock ds ds' :
  Forall (fun d => match d with
                   | Some pd => (1 <= newest pd <= clock)%N
                   | None => True end) ds ->
  Forall2 (fun d d' => match d, d' with
                       | Some pd, Some pd' => pd' = pd \/ (clock < newest pd')%N
                       | None, None => True
                       | None, Some pd' => (clock < newest pd')%N
                       | Some _, None => False
                       end) ds ds' ->
  snd (dirs_updated ds' (map (option_map newest) ds)) = map (option_map newest) ds' /\
  (fst (dirs_updated ds' (map (option_map newest) ds)) = false -> ds' = ds).
Proof.
  intros Hok H. induction H as [|d d' ds ds' Hd H IH]; [split; reflexivity|].
  inversion Hok as [|? ? Hd0 Hok']; subst. specialize (IH Hok'). destruct IH as [IH1 IH2].
  cbn [dirs_updated map hd tl]. destruct (dirs_updated ds' (map (option_map newest) ds)) as [u c'].
  cbn [fst snd] in *.
  destruct d as [pd|], d' as [pd'|]; cbn [option_map map].
  - destruct Hd as [-> | Hd].
    + rewrite N.ltb_irrefl. cbn [fst snd]. split; [now rewrite IH1|]. intros Hu. now rewrite IH2.
    + assert (L : (newest pd <? newest pd')%N = true) by (apply N.ltb_lt; lia).
      rewrite L. cbn [fst snd]. split; [now rewrite IH1|discriminate].
  - destruct Hd.
  - assert (L : (0 <? newest pd')%N = true) by (apply N.ltb_lt; lia).
    rewrite L. cbn [fst snd]. split; [now rewrite IH1|discriminate].
  - cbn [fst snd]. split; [now rewrite IH1|]. intros Hu. now rewrite IH2.
Qed.

(* ---------- invariant ---------- *)
(* the main-file cache against the current main file *)
Definition main_ok (pk : bool) (mc : option (N * content)) (m : option pfile) (clock : N) : Prop :=
  match m with
  | Some f => pk = true /\ mc = Some (pf_mtime f, pf_content f)
  | None => if pk then match mc with Some (t, _) => (t <= clock)%N | None => True end
            else mc = None
  end.

Record Inv (cf : lconf) (s : est) (fs : fsys) (clock : N) : Prop := {
  I_rf : same_rf s (canon cf fs);
  I_use : e_use_conf s = true;
  I_main : main_ok (e_path_known s) (e_mcache s) (fs_main fs) clock;
  I_dirs : e_dmtimes s = map (option_map newest) (fs_dirs fs);
  I_stamps : stamps_ok fs clock
}.

Lemma Inv_intro cf s fs clock pk mc dm :
  frame s = (pk, mc, dm) -> e_use_conf s = true ->
  same_rf s (canon cf fs) -> main_ok pk mc (fs_main fs) clock ->
  dm = map (option_map newest) (fs_dirs fs) -> stamps_ok fs clock -> Inv cf s fs clock.
Proof.
  unfold frame. intros F U R M D S. inversion F; subst. constructor; assumption.
Qed.

Ltac projs := cbn [e_rules e_file_rules e_path_known e_mcache e_dmtimes e_use_conf fs_main fs_dirs].
Ltac projs_in H := cbn [e_rules e_file_rules e_path_known e_mcache e_dmtimes e_use_conf fs_main fs_dirs] in H.

Lemma rebuild_is_fresh0 cf fs base :
  same_rf base (apply_file init_state (main_ct (fs_main fs)) true) ->
  existing (fs_dirs fs) = [] ->
  same_rf (add_defaults cf base) (canon cf fs).
Proof. intros H E. apply (rebuild_is_fresh cf fs (ds := []) H). now rewrite E. Qed.

Ltac lr_red :=
  cbv beta iota zeta delta [load_rules with_path_known with_dmtimes reset_rules load_main read_main
                            apply_file init_state e_rules e_file_rules e_path_known e_mcache
                            e_dmtimes e_use_conf fs_main fs_dirs orb negb andb fst snd].

(* close a leaf where the rules were rebuilt from scratch; EX : existing ds = ... *)
Ltac rebuilt EX :=
  eapply Inv_intro;
  [ rewrite add_defaults_frame, ?walk_dirs_frame; reflexivity
  | rewrite add_defaults_use; try apply walk_dirs_use; reflexivity
  | first [ apply rebuild_is_fresh; [split; reflexivity | symmetry; exact EX]
          | apply rebuild_is_fresh0; [split; reflexivity | exact EX] ]
  | projs; unfold main_ok | projs | projs ].

Lemma fresh_inv cf fs clock :
  c_overwrite cf = true -> stamps_ok fs clock -> Inv cf (load_rules cf init_state fs false) fs clock.
Proof.
  intros Hov Hok. pose proof Hok as [Hm Hd]. destruct fs as [m ds]. cbn [fs_main fs_dirs] in *.
  assert (Hd1 : Forall (fun d => match d with Some pd => (1 <= newest pd)%N | None => True end) ds).
  { eapply Forall_impl; [|exact Hd]. intros [pd|]; [lia|trivial]. }
  unfold load_rules. rewrite Hov. destruct m as [f|]; lr_red.
  - rewrite (dirs_updated_fresh Hd1).
    destruct (existing ds) as [|p l] eqn:EX; cbn [nonnil]; lr_red; rebuilt EX;
      first [split; reflexivity | reflexivity | exact Hok].
  - rewrite (dirs_updated_fresh Hd1).
    destruct (existing ds) as [|p l] eqn:EX; cbn [nonnil]; lr_red; rebuilt EX;
      first [reflexivity | exact Hok].
Qed.

(* a cached main-file stamp never exceeds the clock *)
Lemma mcache_le pk cm cd m c :
  main_ok pk (Some (cm, cd)) m c ->
  match m with Some f => (1 <= pf_mtime f <= c)%N | None => True end -> (cm <= c)%N.
Proof.
  unfold main_ok. destruct m as [f|].
  - intros [_ E] H. inversion E; subst. lia.
  - destruct pk; [trivial|discriminate].
Qed.

Theorem step_inv cf s fs c fs' c' :
  c_overwrite cf = true ->
  Inv cf s fs c -> evolves c fs fs' -> (c <= c')%N -> stamps_ok fs' c' ->
  Inv cf (load_rules cf s fs' false) fs' c'.
Proof.
  intros Hov HI [Em Ed] Hc Hok'. destruct HI as [[Hr Hf] Huse Hmain Hdm [Hsm Hsd]].
  destruct s as [r fr pk mc dm uc]. destruct fs as [m ds]. destruct fs' as [m' ds'].
  projs_in Hr; projs_in Hf; projs_in Huse; projs_in Hmain; projs_in Hdm; projs_in Hsm; projs_in Hsd;
  projs_in Em; projs_in Ed. subst uc dm.
  assert (K : forall pk mc dm,
             add_defaults cf {| e_rules := r; e_file_rules := fr; e_path_known := pk; e_mcache := mc;
                                e_dmtimes := dm; e_use_conf := true |} =
             {| e_rules := r; e_file_rules := fr; e_path_known := pk; e_mcache := mc;
                e_dmtimes := dm; e_use_conf := true |}).
  { intros. eapply add_defaults_fix. projs. unfold canon in Hr. exact Hr. }
  destruct (@dirs_updated_spec c ds ds' Hsd Ed) as [Dc Du].
  pose proof (@dirs_updated_some ds' (map (option_map newest) ds)) as Dn.
  unfold load_rules. rewrite Hov. projs. cbn [orb negb].
  destruct m' as [f'|].
  - (* main file present now *)
    rewrite orb_true_r.
    destruct mc as [[cm cd]|].
    + destruct (cm <? pf_mtime f')%N eqn:L.
      * (* newer than the cached stamp: reloaded *)
        lr_red. rewrite L. lr_red.
        destruct (dirs_updated ds' (map (option_map newest) ds)) as [upd dm'].
        cbn [fst snd] in Dc, Du, Dn. subst dm'. lr_red.
        destruct (existing ds') as [|p l] eqn:EX; lr_red; rebuilt EX;
          first [split; reflexivity | reflexivity | exact Hok'].
      * (* not newer: it is the file we cached *)
        apply N.ltb_ge in L. pose proof (@mcache_le _ _ _ _ _ Hmain Hsm) as Hle.
        assert (Same : m = Some f' /\ pk = true /\ cm = pf_mtime f' /\ cd = pf_content f').
        { destruct Em as [E|[E|(f & E & Hst)]]; [|discriminate|].
          - subst m. unfold main_ok in Hmain. destruct Hmain as [Hpk E]. inversion E; subst. auto.
          - inversion E; subst. lia. }
        destruct Same as (-> & -> & -> & ->). clear L Hle Em.
        destruct r as [|x r'].
        -- (* "or not self.rules": rebuilt from the cached data *)
           lr_red. rewrite N.ltb_irrefl. lr_red.
           destruct (dirs_updated ds' (map (option_map newest) ds)) as [upd dm'].
           cbn [fst snd] in Dc, Du, Dn. subst dm'. lr_red.
           destruct (existing ds') as [|p l] eqn:EX; lr_red; rebuilt EX;
             first [split; reflexivity | reflexivity | exact Hok'].
        -- lr_red. rewrite N.ltb_irrefl. lr_red.
           destruct (dirs_updated ds' (map (option_map newest) ds)) as [upd dm'].
           cbn [fst snd] in Dc, Du, Dn. subst dm'. lr_red.
           destruct upd; lr_red.
           ++ (* a directory changed: forced re-read of the main file, directories re-walked *)
              destruct (existing ds') as [|p l] eqn:EX; [exfalso; now apply Dn|]. lr_red.
              rebuilt EX; first [split; reflexivity | reflexivity | exact Hok'].
           ++ (* nothing changed *)
              rewrite K. rewrite (Du eq_refl).
              constructor; projs;
                [ split; assumption | reflexivity | split; reflexivity | reflexivity
                | rewrite <- (Du eq_refl); exact Hok' ].
    + (* nothing cached: read it *)
      lr_red.
      destruct (dirs_updated ds' (map (option_map newest) ds)) as [upd dm'].
      cbn [fst snd] in Dc, Du, Dn. subst dm'. lr_red.
      destruct (existing ds') as [|p l] eqn:EX; lr_red; rebuilt EX;
        first [split; reflexivity | reflexivity | exact Hok'].
  - (* main file absent now *)
    rewrite orb_false_r.
    assert (Hstale : match mc with Some (t, _) => (t <= c')%N | None => True end).
    { destruct mc as [[t cd]|]; [|exact I]. pose proof (@mcache_le _ _ _ _ _ Hmain Hsm). lia. }
    destruct pk.
    + (* path known: the read fails and is treated as an empty file *)
      lr_red.
      destruct (dirs_updated ds' (map (option_map newest) ds)) as [upd dm'].
      cbn [fst snd] in Dc, Du, Dn. subst dm'. lr_red.
      destruct (existing ds') as [|p l] eqn:EX; lr_red; rebuilt EX;
        first [exact Hstale | reflexivity | exact Hok'].
    + (* never found, still not there *)
      assert (m = None /\ mc = None) as [-> ->].
      { unfold main_ok in Hmain. destruct m as [f|]; [destruct Hmain; discriminate|auto]. }
      lr_red.
      destruct (dirs_updated ds' (map (option_map newest) ds)) as [upd dm'].
      cbn [fst snd] in Dc, Du, Dn. subst dm'. lr_red.
      destruct upd; lr_red.
      * destruct (existing ds') as [|p l] eqn:EX; [exfalso; now apply Dn|]. lr_red.
        rebuilt EX; first [reflexivity | exact Hok'].
      * rewrite K. rewrite (Du eq_refl).
        constructor; projs;
          [ split; assumption | reflexivity | reflexivity | reflexivity
          | rewrite <- (Du eq_refl); exact Hok' ].
Qed.

(* ---------- after any history, a long-lived enforcer = a fresh one ---------- *)
Lemma last_fs_cons fs fs1 c1 h : last_fs fs ((fs1, c1) :: h) = last_fs fs1 h.
Proof.
  unfold last_fs. cbn [rev]. destruct (rev h) as [|p l]; reflexivity.
Qed.

Lemma run_inv cf h : c_overwrite cf = true -> forall s fs c,
  Inv cf s fs c -> history fs c h -> exists c', Inv cf (run cf s h) (last_fs fs h) c'.
Proof.
  intros Hov. induction h as [|[fs1 c1] h IH]; intros s fs c HI HH.
  - exists c. exact HI.
  - inversion HH as [|? ? ? ? ? He Hc Hok Hh]; subst.
    pose proof (step_inv Hov HI He Hc Hok) as HI1.
    destruct (IH _ _ _ HI1 Hh) as (c' & H'). exists c'.
    rewrite last_fs_cons. exact H'.
Qed.

(* the strong form: the two components are EQUAL (same bindings in the same order) *)
Theorem long_lived_is_fresh_eq (cf : lconf) (fs0 : fsys) (c0 : N) (h : list (fsys * N)) :
  c_overwrite cf = true -> stamps_ok fs0 c0 -> history fs0 c0 h ->
  let s := run cf (load_rules cf init_state fs0 false) h in
  let fresh := load_rules cf init_state (last_fs fs0 h) false in
  e_rules s = e_rules fresh /\ e_file_rules s = e_file_rules fresh.
Proof.
  intros Hov H0 HH s fresh.
  destruct (run_inv Hov (fresh_inv cf Hov H0) HH) as (cN & HI).
  pose proof (fresh_inv cf Hov (I_stamps HI)) as HF.
  exact (same_rf_trans (I_rf HI) (same_rf_sym (I_rf HF))).
Qed.

(* C10 *)
Theorem long_lived_is_fresh (cf : lconf) (fs0 : fsys) (c0 : N) (h : list (fsys * N)) :
  c_overwrite cf = true -> stamps_ok fs0 c0 -> history fs0 c0 h ->
  let s := run cf (load_rules cf init_state fs0 false) h in
  let fresh := load_rules cf init_state (last_fs fs0 h) false in
  meq (e_rules s) (e_rules fresh) /\ meq (e_file_rules s) (e_file_rules fresh).
Proof.
  intros Hov H0 HH s fresh.
  destruct (@long_lived_is_fresh_eq cf fs0 c0 h Hov H0 HH) as [E1 E2].
  fold s in E1, E2. fold fresh in E1, E2.
  split; intros n; [rewrite E1|rewrite E2]; reflexivity.
Qed.

Print Assumptions step_inv.
Print Assumptions long_lived_is_fresh.
