(* The generated samples: every line of the YAML sample is a comment or blank, the only lines that
   start with #'' are the rule lines, and uncommenting them yields exactly name -> check string. *)
From Coq Require Import String List Bool NArith Setoid Lia.
From OP Require Import Base.Str Model.Tokenize Model.Print Model.Generator Spec.SampleSpec.
Import ListNotations.

(* ------------------------------------------------------------------ *)
(* unfolding facts                                                     *)

Lemma sw_nil l : starts_with [] l = true.
Proof. reflexivity. Qed.
Lemma sw_cons_nil a p : starts_with (a :: p) [] = false.
Proof. reflexivity. Qed.
Lemma sw_cons a p b l : starts_with (a :: p) (b :: l) = N.eqb a b && starts_with p l.
Proof. reflexivity. Qed.

Lemma expand_app w a b : expand w (a ++ b) = expand w a ++ expand w b.
Proof. apply flat_map_app. Qed.
Lemma expand_OL w l r : expand w (OL l :: r) = l :: expand w r.
Proof. reflexivity. Qed.
Lemma expand_cons w o r :
  expand w (o :: r) = (match o with OL l => [l] | OW t => w t end) ++ expand w r.
Proof. reflexivity. Qed.

Lemma uncomment_app a b : uncomment (a ++ b) = uncomment a ++ uncomment b.
Proof. apply map_app. Qed.
Lemma uncomment_cons l ls :
  uncomment (l :: ls) = (if starts_with [hash; 34%N] l then tl l else l) :: uncomment ls.
Proof. reflexivity. Qed.
Lemma carried_app a b : carried (a ++ b) = carried a ++ carried b.
Proof. apply flat_map_app. Qed.
Lemma carried_cons l ls :
  carried (l :: ls) = (if comment_or_blank l then []
                       else match read_rule_line l with Some kv => [kv] | None => [] end)
                      ++ carried ls.
Proof. reflexivity. Qed.

Lemma sample_yaml_cons ex d ds :
  sample_yaml ex (d :: ds) = yaml_lines true true (negb ex) d ++ sample_yaml ex ds.
Proof. reflexivity. Qed.

(* ------------------------------------------------------------------ *)
(* rstrip_ws returns a sub-list, join preserves break-freeness         *)

Fixpoint rgo (x : str) : str :=
  match x with c :: r => if isws c then rgo r else x | [] => [] end.
Lemma rstrip_ws_eq l : rstrip_ws l = rev (rgo (rev l)).
Proof. destruct l; reflexivity. Qed.
Lemma rgo_In c x : In c (rgo x) -> In c x.
Proof.
  induction x as [|a x IH]; cbn [rgo]; [auto|].
  destruct (isws a); [intros H; right; auto|auto].
Qed.
Lemma rstrip_In c l : In c (rstrip_ws l) -> In c l.
Proof.
  rewrite rstrip_ws_eq. intros H. rewrite <- in_rev in H. apply rgo_In in H.
  now rewrite <- in_rev in H.
Qed.
Lemma forallb_rstrip (P : N -> bool) l : forallb P l = true -> forallb P (rstrip_ws l) = true.
Proof. rewrite !forallb_forall. intros H c Hc. apply H. now apply rstrip_In. Qed.

Lemma no_break_app a b : no_break (a ++ b) = no_break a && no_break b.
Proof. apply forallb_app. Qed.

Lemma no_break_join sep l :
  no_break sep = true -> forallb no_break l = true -> no_break (join sep l) = true.
Proof.
  intros Hs. induction l as [|x r IH]; [reflexivity|].
  cbn [forallb]. intros H. apply andb_prop in H. destruct H as [Hx Hr].
  destruct r as [|y r']; [exact Hx|].
  change (join sep (x :: y :: r')) with (x ++ sep ++ join sep (y :: r')).
  rewrite !no_break_app, Hx, Hs. cbn [andb]. now apply IH.
Qed.

(* JSON string escaping: only printable ASCII is introduced; it is the identity on strings free of
   double quotes, backslashes and control characters *)
Lemma is_break_range c : (30 < c)%N -> (c < 133)%N -> is_break c = false.
Proof.
  intros H1 H2. unfold is_break.
  repeat (rewrite (proj2 (N.eqb_neq c _)) by lia). reflexivity.
Qed.
Lemma hexdigit_nb n : (n < 16)%N -> negb (is_break (hexdigit n)) = true.
Proof.
  intros H. unfold hexdigit. destruct (n <? 10)%N eqn:E.
  - apply N.ltb_lt in E. rewrite is_break_range by lia. reflexivity.
  - apply N.ltb_ge in E. rewrite is_break_range by lia. reflexivity.
Qed.
Lemma escape_cp_nb c : negb (is_break c) = true -> no_break (json_escape_cp c) = true.
Proof.
  intros H. unfold json_escape_cp.
  destruct (N.eqb c 34); [reflexivity|]. destruct (N.eqb c 92); [reflexivity|].
  destruct (N.eqb c 10); [reflexivity|]. destruct (N.eqb c 13); [reflexivity|].
  destruct (N.eqb c 9); [reflexivity|]. destruct (N.eqb c 8); [reflexivity|].
  destruct (N.eqb c 12); [reflexivity|].
  destruct (c <? 32)%N eqn:E.
  - apply N.ltb_lt in E. unfold no_break. cbn [forallb].
    rewrite (hexdigit_nb (c / 16)), (hexdigit_nb (c mod 16)).
    + reflexivity.
    + apply N.mod_lt. discriminate.
    + apply N.div_lt_upper_bound; [discriminate|]. lia.
  - unfold no_break. cbn [forallb]. rewrite H. reflexivity.
Qed.
Lemma escape_nb x : no_break x = true -> no_break (flat_map json_escape_cp x) = true.
Proof.
  induction x as [|c x IH]; [reflexivity|].
  unfold no_break at 1. cbn [forallb flat_map]. intros H. apply andb_prop in H.
  destruct H as [Hc Hx]. rewrite no_break_app, (escape_cp_nb c Hc). cbn [andb]. now apply IH.
Qed.
Lemma json_string_nb x : no_break x = true -> no_break (json_string x) = true.
Proof.
  intros H. unfold json_string. rewrite !no_break_app, (escape_nb x H). reflexivity.
Qed.

Lemma escape_cp_id c :
  negb (N.eqb c 34) && negb (N.eqb c 92) && negb (c <? 32)%N = true -> json_escape_cp c = [c].
Proof.
  intros H. apply andb_prop in H. destruct H as [H H3]. apply andb_prop in H.
  destruct H as [H1 H2].
  apply negb_true_iff in H1. apply negb_true_iff in H2. apply negb_true_iff in H3.
  unfold json_escape_cp. rewrite H1, H2.
  repeat match goal with
         | |- context [N.eqb c ?k] =>
             let E := fresh "E" in
             destruct (N.eqb c k) eqn:E;
             [apply N.eqb_eq in E; rewrite E in H3; discriminate H3|clear E]
         end.
  rewrite H3. reflexivity.
Qed.
Lemma escape_id x : no_dq x = true -> flat_map json_escape_cp x = x.
Proof.
  induction x as [|c x IH]; [reflexivity|].
  unfold no_dq. cbn [forallb flat_map]. intros H. apply andb_prop in H. destruct H as [Hc Hx].
  rewrite (escape_cp_id c Hc). cbn [app]. f_equal. now apply IH.
Qed.

(* break-freeness of a concatenation of literals and hypotheses *)
Ltac nbt :=
  rewrite ?no_break_app;
  repeat (match goal with |- (_ && _)%bool = true => apply andb_true_intro; split end);
  first [ reflexivity | assumption | (apply forallb_rstrip; assumption) | idtac ].

(* ------------------------------------------------------------------ *)
(* the per-line predicates                                             *)

(* a non-rule line: carries nothing, and is not picked up by uncomment *)
Definition aux (l : str) : Prop :=
  comment_or_blank l = true /\ starts_with [hash; 34%N] l = false.
Definition oaux (o : oline) : Prop := match o with OL l => aux l | OW _ => True end.
Definition onb (o : oline) : Prop := match o with OL l => no_break l = true | OW _ => True end.

Ltac fa :=
  repeat match goal with
         | |- Forall _ [] => apply Forall_nil
         | |- Forall _ (_ :: _) => apply Forall_cons
         | |- Forall _ (_ ++ _) => apply Forall_app; split
         end.
Ltac ax := split; reflexivity.

Lemma aux_nil : aux [].
Proof. ax. Qed.
Lemma aux_hash : aux [hash].
Proof. ax. Qed.
Lemma aux_hsp x : aux (s "# " ++ x).
Proof. ax. Qed.

Lemma sw_aux l : starts_with [35%N; 32%N] l = true -> aux l.
Proof.
  destruct l as [|a [|b l]].
  - rewrite sw_cons_nil. discriminate.
  - rewrite sw_cons, sw_cons_nil, andb_false_r. discriminate.
  - rewrite !sw_cons. intros H. apply andb_prop in H. destruct H as [H1 H2].
    apply andb_prop in H2. destruct H2 as [H2 _].
    apply N.eqb_eq in H1. apply N.eqb_eq in H2. subst a b. ax.
Qed.

Lemma expand_aux w ls : wrap_ok w -> Forall oaux ls -> Forall aux (expand w ls).
Proof.
  intros Hw H. induction H as [|o ls Ho _ IH]; [constructor|].
  rewrite expand_cons. apply Forall_app; split; [|exact IH].
  destruct o as [l|t]; [constructor; [exact Ho|constructor]|].
  apply Forall_forall. intros l Hl. apply Hw in Hl. destruct Hl as [Hs _].
  apply sw_aux. exact Hs.
Qed.

Lemma expand_nb w ls :
  wrap_ok w -> Forall onb ls -> Forall (fun l => no_break l = true) (expand w ls).
Proof.
  intros Hw H. induction H as [|o ls Ho _ IH]; [constructor|].
  rewrite expand_cons. apply Forall_app; split; [|exact IH].
  destruct o as [l|t]; [constructor; [exact Ho|constructor]|].
  apply Forall_forall. intros l Hl. apply Hw in Hl. destruct Hl as [_ Hn]. exact Hn.
Qed.

(* ------------------------------------------------------------------ *)
(* _format_help_text                                                   *)

Lemma wrap_par_aux p : Forall oaux (wrap_par p).
Proof. destruct p as [|x p]; cbn [wrap_par]; fa. exact I. Qed.
Lemma wrap_par_nb p : Forall onb (wrap_par p).
Proof. destruct p as [|x p]; cbn [wrap_par]; fa. exact I. Qed.

Lemma help_lines_aux ls : forall p, Forall oaux (help_lines p ls).
Proof.
  induction ls as [|l r IH]; intros p; cbn [help_lines].
  - apply wrap_par_aux.
  - destruct (forallb isws l).
    + fa; [apply wrap_par_aux|exact aux_hash|apply IH].
    + destruct (negb (leading_ws l)); [apply IH|].
      fa; [|exact (aux_hsp _)|apply IH].
      destruct p as [|x p]; [constructor|].
      apply Forall_app; split; [apply wrap_par_aux|fa; exact aux_hash].
Qed.

Lemma help_lines_nb ls :
  forallb no_break ls = true -> forall p, Forall onb (help_lines p ls).
Proof.
  induction ls as [|l r IH]; intros H p; cbn [help_lines].
  - apply wrap_par_nb.
  - cbn [forallb] in H. apply andb_prop in H. destruct H as [Hl Hr].
    destruct (forallb isws l).
    + fa; [apply wrap_par_nb|reflexivity|now apply IH].
    + destruct (negb (leading_ws l)); [now apply IH|].
      fa; [| |now apply IH].
      * destruct p as [|x p]; [constructor|].
        apply Forall_app; split; [apply wrap_par_nb|fa; reflexivity].
      * cbn [onb]. unfold no_break in Hl |- *. rewrite forallb_app.
        apply andb_true_intro; split; [reflexivity|now apply forallb_rstrip].
Qed.

Lemma fht_aux d : Forall oaux (format_help_text d).
Proof.
  destruct d as [[|l ls]|]; cbn [format_help_text].
  - fa. exact aux_nil.
  - apply help_lines_aux.
  - fa. exact aux_hash.
Qed.

Lemma fht_nb d : clean_desc d = true -> Forall onb (format_help_text d).
Proof.
  destruct d as [[|l ls]|]; cbn [format_help_text clean_desc]; intros H.
  - fa. reflexivity.
  - now apply help_lines_nb.
  - fa. reflexivity.
Qed.

(* ------------------------------------------------------------------ *)
(* the blocks of _format_rule_default_yaml                             *)

Definition rl (d : gdefault) : str := rule_line (g_name d) (g_check_str d).

Definition desc_block (d : gdefault) : list oline :=
  match g_description d with None => [] | Some _ => help_block (g_description d) end.
Definition ops_lines (ops : list (str * str)) : list oline :=
  flat_map (fun o => match fst o, snd o with
                     | [], _ | _, [] => []
                     | m, p => [OL (s "# " ++ m ++ s "  " ++ p)] end) ops.
Definition ops_block (d : gdefault) : list oline :=
  match g_operations d with Some ops => ops_lines ops | None => [] end.
Definition scope_block (d : gdefault) : list oline :=
  match g_scope d with
  | Some sc => [OL (s "# Intended scope(s): " ++ join (s ", ") sc)]
  | None => [] end.
Definition core_pre (d : gdefault) : list oline := desc_block d ++ ops_block d ++ scope_block d.
Definition core (d : gdefault) : list oline := core_pre d ++ [OL ([hash] ++ rl d); OL []].
Definition removal_head (d : gdefault) (since : str) (reason : option (list str)) : list oline :=
  [OL (s "# DEPRECATED");
   OL (s "# """ ++ g_name d ++ s """ has been deprecated since " ++ since ++ s ".")]
  ++ format_help_text reason.
Definition dep_tail (d : gdefault) (old_name old_check since : str) (reason : option (list str))
  : list oline :=
  [OL (s "# DEPRECATED")]
  ++ format_help_text (Some [deprecated_text d old_name old_check since])
  ++ format_help_text reason
  ++ (if str_eqb (g_name d) old_name then []
      else map OL warning_lines
           ++ [OL (s "# """ ++ old_name ++ s """: ""rule:" ++ g_name d ++ dq1)])
  ++ [OL []].

Lemma yaml_lines_eq b d :
  yaml_lines true true b d =
  match (if b then g_dep d else DepNone) with
  | DepNone => core d
  | DepRemoval since reason => removal_head d since reason ++ core d
  | DepRule on oc since reason => core d ++ dep_tail d on oc since reason
  end.
Proof.
  unfold yaml_lines, core, core_pre, desc_block, ops_block, ops_lines, scope_block,
    removal_head, dep_tail, rl.
  destruct (if b then g_dep d else DepNone); rewrite <- ?app_assoc; reflexivity.
Qed.

Lemma desc_block_aux d : Forall oaux (desc_block d).
Proof. unfold desc_block, help_block. destruct (g_description d); [apply fht_aux|constructor]. Qed.
Lemma desc_block_nb d : clean_desc (g_description d) = true -> Forall onb (desc_block d).
Proof.
  unfold desc_block, help_block. intros H.
  destruct (g_description d); [now apply fht_nb|constructor].
Qed.

Lemma ops_lines_aux ops : Forall oaux (ops_lines ops).
Proof.
  unfold ops_lines. induction ops as [|[m p] r IH]; cbn [flat_map fst snd]; [constructor|].
  apply Forall_app; split; [|exact IH].
  destruct m as [|a m]; [constructor|]. destruct p as [|c p]; [constructor|].
  fa. exact (aux_hsp _).
Qed.
Lemma ops_lines_nb ops :
  forallb (fun o => clean (fst o) && clean (snd o)) ops = true -> Forall onb (ops_lines ops).
Proof.
  unfold ops_lines. induction ops as [|[m p] r IH]; cbn [flat_map forallb fst snd]; intros H;
    [constructor|].
  apply andb_prop in H. destruct H as [Hmp Hr]. apply andb_prop in Hmp. destruct Hmp as [Hm Hp].
  unfold clean in Hm, Hp.
  apply Forall_app; split; [|now apply IH].
  destruct m as [|a m]; [constructor|]. destruct p as [|c p]; [constructor|].
  fa. cbn [onb]. nbt.
Qed.

Lemma scope_block_aux d : Forall oaux (scope_block d).
Proof. unfold scope_block. destruct (g_scope d); fa. ax. Qed.
Lemma scope_block_nb d :
  match g_scope d with Some sc => forallb clean sc | None => true end = true ->
  Forall onb (scope_block d).
Proof.
  unfold scope_block. destruct (g_scope d) as [sc|]; intros H; fa.
  cbn [onb]. nbt. apply no_break_join; [reflexivity|exact H].
Qed.

Lemma core_pre_aux d : Forall oaux (core_pre d).
Proof.
  unfold core_pre. fa; [apply desc_block_aux|unfold ops_block|apply scope_block_aux].
  destruct (g_operations d); [apply ops_lines_aux|constructor].
Qed.

Lemma wf_inv d :
  wf_gdefault d = true ->
  no_break (g_name d) = true /\ no_break (g_check_str d) = true
  /\ clean_desc (g_description d) = true
  /\ match g_operations d with
     | Some ops => forallb (fun o => clean (fst o) && clean (snd o)) ops | None => true end = true
  /\ match g_scope d with Some sc => forallb clean sc | None => true end = true
  /\ match g_dep d with
     | DepNone => true
     | DepRemoval since reason => clean since && clean_desc reason
     | DepRule on oc since reason => clean on && clean oc && clean since && clean_desc reason
     end = true.
Proof.
  unfold wf_gdefault, clean. intros H.
  repeat (apply andb_prop in H; let H' := fresh "H" in destruct H as [H H']).
  repeat split; assumption.
Qed.

Lemma core_pre_nb d : wf_gdefault d = true -> Forall onb (core_pre d).
Proof.
  intros H. apply wf_inv in H. destruct H as (_ & _ & Hd & Ho & Hs & _).
  unfold core_pre. fa; [now apply desc_block_nb|unfold ops_block|now apply scope_block_nb].
  destruct (g_operations d); [now apply ops_lines_nb|constructor].
Qed.

Lemma removal_head_aux d since reason : Forall oaux (removal_head d since reason).
Proof. unfold removal_head. fa; [ax|ax|apply fht_aux]. Qed.
Lemma removal_head_nb d since reason :
  no_break (g_name d) = true -> no_break since = true -> clean_desc reason = true ->
  Forall onb (removal_head d since reason).
Proof.
  intros Hn Hs Hr. unfold removal_head. fa; [reflexivity| |now apply fht_nb].
  cbn [onb]. nbt.
Qed.

Lemma warning_aux : Forall oaux (map OL warning_lines).
Proof. unfold warning_lines. cbn [map]. fa; ax. Qed.
Lemma warning_nb : Forall onb (map OL warning_lines).
Proof. unfold warning_lines. cbn [map]. fa; reflexivity. Qed.

Lemma dep_tail_aux d on oc since reason : Forall oaux (dep_tail d on oc since reason).
Proof.
  unfold dep_tail. fa; [ax|apply fht_aux|apply fht_aux| |exact aux_nil].
  destruct (str_eqb (g_name d) on); fa; [apply warning_aux|ax].
Qed.
Lemma dep_tail_nb d on oc since reason :
  no_break (g_name d) = true -> no_break (g_check_str d) = true ->
  no_break on = true -> no_break oc = true -> no_break since = true ->
  clean_desc reason = true ->
  Forall onb (dep_tail d on oc since reason).
Proof.
  intros Hn Hc Hon Hoc Hs Hr. unfold dep_tail.
  fa; [reflexivity| |now apply fht_nb| |reflexivity].
  - apply fht_nb. cbn [clean_desc forallb]. rewrite andb_true_r.
    unfold deprecated_text. nbt.
  - destruct (str_eqb (g_name d) on); fa; [apply warning_nb|].
    cbn [onb]. nbt.
Qed.

Lemma dep_clean (b : bool) (d : gdefault) :
  wf_gdefault d = true ->
  match (if b then g_dep d else DepNone) with
  | DepNone => True
  | DepRemoval since reason => no_break since = true /\ clean_desc reason = true
  | DepRule on oc since reason =>
      no_break on = true /\ no_break oc = true /\ no_break since = true
      /\ clean_desc reason = true
  end.
Proof.
  intros H. apply wf_inv in H. destruct H as (_ & _ & _ & _ & _ & H).
  destruct b; [|exact I].
  destruct (g_dep d) as [|since reason|on oc since reason]; [exact I| |]; unfold clean in H;
    repeat (apply andb_prop in H; let H' := fresh "H" in destruct H as [H H']);
    repeat split; assumption.
Qed.

(* the lines of one default: auxiliary material, the one rule line, auxiliary material *)
Lemma yaml_split b d :
  exists pre post,
    yaml_lines true true b d = pre ++ OL ([hash] ++ rl d) :: post
    /\ Forall oaux pre /\ Forall oaux post
    /\ (wf_gdefault d = true -> Forall onb pre /\ Forall onb post).
Proof.
  rewrite yaml_lines_eq.
  destruct (if b then g_dep d else DepNone) as [|since reason|on oc since reason] eqn:E.
  - exists (core_pre d), [OL []]. split; [reflexivity|].
    split; [apply core_pre_aux|]. split; [fa; exact aux_nil|].
    intros Hwf. split; [now apply core_pre_nb|fa; reflexivity].
  - exists (removal_head d since reason ++ core_pre d), [OL []].
    split; [unfold core; now rewrite app_assoc|].
    split; [fa; [apply removal_head_aux|apply core_pre_aux]|]. split; [fa; exact aux_nil|].
    intros Hwf. pose proof (dep_clean b d Hwf) as Hd. rewrite E in Hd. destruct Hd as [Hs Hr].
    pose proof (wf_inv d Hwf) as (Hn & _).
    split; [fa; [now apply removal_head_nb|now apply core_pre_nb]|fa; reflexivity].
  - exists (core_pre d), (OL [] :: dep_tail d on oc since reason).
    split; [unfold core; now rewrite <- app_assoc|].
    split; [apply core_pre_aux|]. split; [fa; [exact aux_nil|apply dep_tail_aux]|].
    intros Hwf. pose proof (dep_clean b d Hwf) as Hd. rewrite E in Hd.
    destruct Hd as (Hon & Hoc & Hs & Hr).
    pose proof (wf_inv d Hwf) as (Hn & Hc & _).
    split; [now apply core_pre_nb|fa; [reflexivity|now apply dep_tail_nb]].
Qed.

(* the rule line itself *)
Lemma rule_line_eq k v :
  rule_line k v =
  34%N :: (k ++ 34%N :: 58%N :: 32%N :: 34%N :: (flat_map json_escape_cp v ++ [34%N])).
Proof. reflexivity. Qed.
Lemma rule_cb d : comment_or_blank ([hash] ++ rl d) = true.
Proof. reflexivity. Qed.
Lemma rule_sw d : starts_with [hash; 34%N] ([hash] ++ rl d) = true.
Proof. reflexivity. Qed.
Lemma rule_tl d : tl ([hash] ++ rl d) = rl d.
Proof. reflexivity. Qed.
Lemma rule_nb d : wf_gdefault d = true -> no_break ([hash] ++ rl d) = true.
Proof.
  intros H. apply wf_inv in H. destruct H as (Hn & Hc & _).
  unfold rl, rule_line. nbt. now apply json_string_nb.
Qed.
Lemma rule_line_not_cb k v : comment_or_blank (rule_line k v) = false.
Proof. reflexivity. Qed.

(* ------------------------------------------------------------------ *)
(* Theorem 1                                                           *)

Theorem sample_all_comment_or_blank (wrap : str -> list str) (ex : bool) (ds : list gdefault) :
  wrap_ok wrap -> forallb wf_gdefault ds = true ->
  Forall (fun l => comment_or_blank l = true /\ no_break l = true)
         (expand wrap (sample_yaml ex ds)).
Proof.
  intros Hw. induction ds as [|d ds IH]; intros Hwf; [constructor|].
  cbn [forallb] in Hwf. apply andb_prop in Hwf. destruct Hwf as [Hd Hds].
  rewrite sample_yaml_cons, expand_app. apply Forall_app; split; [|now apply IH].
  destruct (yaml_split (negb ex) d) as (pre & post & E & Hpre & Hpost & Hnb).
  destruct (Hnb Hd) as [Hnpre Hnpost].
  rewrite E, expand_app, expand_OL.
  assert (Hblock : forall ls, Forall oaux ls -> Forall onb ls ->
            Forall (fun l => comment_or_blank l = true /\ no_break l = true) (expand wrap ls)).
  { intros ls Ha Hn. pose proof (expand_aux wrap ls Hw Ha) as H1.
    pose proof (expand_nb wrap ls Hw Hn) as H2.
    rewrite Forall_forall in H1, H2 |- *. intros l Hl.
    split; [exact (proj1 (H1 l Hl))|exact (H2 l Hl)]. }
  apply Forall_app; split; [now apply Hblock|].
  constructor; [split; [apply rule_cb|now apply rule_nb]|now apply Hblock].
Qed.

(* ------------------------------------------------------------------ *)
(* Theorem 2                                                           *)

Lemma filter_aux ls : Forall aux ls -> filter (starts_with [hash; 34%N]) ls = [].
Proof.
  intros H. induction H as [|l ls [_ Hs] _ IH]; cbn [filter]; [reflexivity|].
  rewrite Hs. exact IH.
Qed.

Theorem sample_rule_lines (wrap : str -> list str) (ex : bool) (ds : list gdefault) :
  wrap_ok wrap ->
  map (@tl N) (filter (starts_with [hash; 34%N]) (expand wrap (sample_yaml ex ds)))
  = map (fun d => rule_line (g_name d) (g_check_str d)) ds.
Proof.
  intros Hw. induction ds as [|d ds IH]; [reflexivity|].
  rewrite sample_yaml_cons, expand_app, filter_app, map_app.
  destruct (yaml_split (negb ex) d) as (pre & post & E & Hpre & Hpost & _).
  rewrite E, expand_app, expand_OL, filter_app.
  cbn [filter]. rewrite rule_sw.
  rewrite (filter_aux _ (expand_aux wrap pre Hw Hpre)).
  rewrite (filter_aux _ (expand_aux wrap post Hw Hpost)).
  cbn [map app]. f_equal. exact IH.
Qed.

(* ------------------------------------------------------------------ *)
(* Theorem 3                                                           *)

Lemma span_nq_app k r : no_dq k = true -> span_nq (k ++ 34%N :: r) = (k, 34%N :: r).
Proof.
  induction k as [|c k IH]; cbn [no_dq forallb app]; intros H; [reflexivity|].
  apply andb_prop in H. destruct H as [Hc Hk]. cbn [span_nq].
  destruct (N.eqb c 34); [cbn [negb andb] in Hc; discriminate Hc|]. rewrite (IH Hk). reflexivity.
Qed.

Theorem read_rule_line_ok (k v : str) :
  no_dq k = true -> no_dq v = true -> read_rule_line (rule_line k v) = Some (k, v).
Proof.
  intros Hk Hv. rewrite rule_line_eq, (escape_id v Hv). unfold read_rule_line.
  rewrite (span_nq_app k _ Hk). rewrite (span_nq_app v [] Hv). reflexivity.
Qed.

(* ------------------------------------------------------------------ *)
(* Theorem 4                                                           *)

Lemma carried_aux ls : Forall aux ls -> carried (uncomment ls) = [].
Proof.
  intros H. induction H as [|l ls [Hc Hs] _ IH]; [reflexivity|].
  rewrite uncomment_cons, Hs, carried_cons, Hc. exact IH.
Qed.

Theorem sample_uncommented_exact (wrap : str -> list str) (ex : bool) (ds : list gdefault) :
  wrap_ok wrap -> forallb wf_gdefault ds = true ->
  forallb (fun d => no_dq (g_name d) && no_dq (g_check_str d)) ds = true ->
  carried (uncomment (expand wrap (sample_yaml ex ds)))
  = map (fun d => (g_name d, g_check_str d)) ds.
Proof.
  intros Hw _. induction ds as [|d ds IH]; intros Hq; [reflexivity|].
  cbn [forallb] in Hq. apply andb_prop in Hq. destruct Hq as [Hd Hds].
  apply andb_prop in Hd. destruct Hd as [Hk Hv].
  rewrite sample_yaml_cons, expand_app, uncomment_app, carried_app, (IH Hds).
  destruct (yaml_split (negb ex) d) as (pre & post & E & Hpre & Hpost & _).
  rewrite E, expand_app, expand_OL, uncomment_app, carried_app.
  rewrite uncomment_cons, rule_sw, rule_tl, carried_cons.
  unfold rl. rewrite rule_line_not_cb, (read_rule_line_ok _ _ Hk Hv).
  rewrite (carried_aux _ (expand_aux wrap pre Hw Hpre)).
  rewrite (carried_aux _ (expand_aux wrap post Hw Hpost)).
  reflexivity.
Qed.

(* ------------------------------------------------------------------ *)
(* Theorem 5                                                           *)

Theorem sample_json_shape (ds : list gdefault) :
  sample_json ds = s "{" ++ [10%N] ++ s "    " ++
                   join (s "," ++ [10%N] ++ s "    ")
                        (map (fun d => rule_line (g_name d) (g_check_str d)) ds)
                   ++ [10%N] ++ s "}" ++ [10%N].
Proof. reflexivity. Qed.

Print Assumptions sample_all_comment_or_blank.
Print Assumptions sample_rule_lines.
Print Assumptions read_rule_line_ok.
Print Assumptions sample_uncommented_exact.
Print Assumptions sample_json_shape.
