(* The executable oracles of Spec/LeafSpec.v mean what the relational specs say. *)
From Coq Require Import String List Bool NArith.
From OP Require Import Base.Str Base.Res Base.Json Model.Tokenize Model.Eval
                       Spec.Reach Spec.Template Spec.LeafSpec.
Import ListNotations.

Theorem reach_all_iff : forall ks v z, In z (reach_all v ks) <-> reach v ks z.
Proof.
  induction ks as [|k ks IH]; intros v z; cbn [reach_all].
  - split.
    + intros [<-|[]]. constructor.
    + intros R. inversion R; subst. now left.
  - destruct v as [| | | | |l|kvs|t]; try (split; [intros []|intros R; inversion R]).
    destruct (assoc k kvs) as [w|] eqn:E.
    + assert (Hnl : (forall l, w <> JList l) ->
                    (In z (reach_all w ks) <-> reach (JDict kvs) (k :: ks) z)).
      { intros Hn. rewrite IH. split.
        - intros R. econstructor; [exact E|]. now apply f_other.
        - intros R. inversion R as [|? ? ? ? ? E' F]; subst. rewrite E in E'. inversion E'; subst.
          inversion F as [? ? ? ? Hin R'|? ? ? Hn' R']; subst; [exfalso; now apply (Hn l)|exact R']. }
      destruct w as [| | | | |l|kvs'|t]; try (apply Hnl; congruence).
      rewrite in_flat_map. split.
      * intros (x & Hx & Hz). apply IH in Hz. econstructor; [exact E|]. eapply f_list; eauto.
      * intros R. inversion R as [|? ? ? ? ? E' F]; subst. rewrite E in E'. inversion E'; subst.
        inversion F as [? x ? ? Hin R'|? ? ? Hn' R']; subst.
        -- exists x. split; [exact Hin|]. now apply IH.
        -- exfalso. now apply (Hn' l).
    + split; [intros []|]. intros R. inversion R as [|? ? ? ? ? E' F]; subst. congruence.
Qed.

Theorem spec_generic_path (e : exn) (path : list str) (ps : list part) (tgt creds : jv) (x : str) :
  fill ps tgt = Ok x ->
  (spec_generic (LitRaise e) path ps tgt creds = true <->
   exists z, reach creds path z /\ pystr z = x).
Proof.
  intros Hf. unfold spec_generic. rewrite Hf. rewrite existsb_exists. split.
  - intros (z & Hz & E). apply str_eqb_eq in E. exists z. split; [now apply reach_all_iff|exact E].
  - intros (z & R & E). exists z. split; [now apply reach_all_iff|]. apply str_eqb_eq. exact E.
Qed.

Theorem spec_role_iff (ps : list part) (tgt creds : jv) (rs : list str) (x : str) :
  fill ps tgt = Ok x -> jhas creds roles_key = true -> jget creds roles_key = JList (map JStr rs) ->
  (spec_role ps tgt creds = true <-> exists r, In r rs /\ lower r = lower x).
Proof.
  intros Hf Hh Hg. unfold spec_role. rewrite Hf, Hh, Hg. rewrite existsb_exists. split.
  - intros (v & Hv & E). apply in_map_iff in Hv. destruct Hv as (r & <- & Hr).
    apply str_eqb_eq in E. eauto.
  - intros (r & Hr & E). exists (JStr r). split; [now apply in_map|]. now apply str_eqb_eq.
Qed.
