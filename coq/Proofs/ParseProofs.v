(* Rule loading never fails and fails closed: consequences of parser soundness. *)
From Coq Require Import String List Bool NArith.
From OP Require Import Base.Str Base.Check Base.ParserTypes Base.Res Base.Json Gen.GParser
                       Model.Leaf Model.SR Model.Tokenize Spec.Grammar Proofs.SRProofs.
Import ListNotations.
Set Implicit Arguments.

Section P.
Variable extra : list (str * kcls).

(* a text is a sentence when its token sequence is that of some expression of the grammar *)
Definition sentence (x : str) : Prop := exists e : expr leaf, toks e = tokenize extra x.

Lemma parse_text_rule_check x : exists c, parse_text_rule extra x = PCheck c.
Proof.
  unfold parse_text_rule. destruct x as [|a x]; [eauto|].
  destruct (parse_tokens (tokenize extra (a :: x))) as [p|] eqn:E; [|eauto].
  apply result_is_check in E. exact E.
Qed.

Lemma nonsentence_denies x : x <> [] -> ~ sentence x ->
  parse_text_rule extra x = PCheck (CLeaf LFalse).
Proof.
  intros Hne Hns. unfold parse_text_rule. destruct x as [|a x]; [contradiction|].
  destruct (parse_tokens (tokenize extra (a :: x))) as [p|] eqn:E; [|reflexivity].
  exfalso. apply Hns. destruct (sound _ E) as (e & He & _). exists e. exact He.
Qed.

Lemma sentence_parses x e : x <> [] -> toks e = tokenize extra x ->
  parse_text_rule extra x = PCheck (tree e).
Proof.
  intros Hne He. unfold parse_text_rule. destruct x as [|a x]; [contradiction|].
  rewrite <- He. now rewrite complete.
Qed.

Definition rule_shaped (v : jv) : bool :=
  match v with JStr _ => true | JList l => rule_shaped_list l | _ => false end.

Lemma loads_total v : rule_shaped v = true -> exists c, parse_rule_value extra v = Ok (PCheck c).
Proof.
  destruct v as [| | | |x|l|kvs|t]; try discriminate; intros H; cbn [parse_rule_value rule_shaped] in *.
  - destruct (parse_text_rule_check x) as (c & ->). eauto.
  - rewrite H. destruct list_rule_validates; eauto.
Qed.

Lemma nonrule_denies v : list_rule_validates = true -> rule_shaped v = false ->
  parse_rule_value extra v = Ok (PCheck (CLeaf LFalse)).
Proof.
  intros Hv H. destruct v as [| | | |x|l|kvs|t]; try discriminate;
    cbn [parse_rule_value rule_shaped] in *; rewrite Hv; try reflexivity.
  now rewrite H.
Qed.

Fixpoint has_colon (x : str) : bool :=
  match x with [] => false | c :: r => N.eqb c colon || has_colon r end.
Lemma split_colon_none x : has_colon x = false -> split_colon x = None.
Proof.
  induction x as [|c r IH]; [reflexivity|]. cbn [has_colon split_colon]. intros H.
  apply orb_false_elim in H. destruct H as [Hc Hr]. rewrite Hc, (IH Hr). reflexivity.
Qed.
Lemma bad_leaf x : has_colon x = false -> x <> s "@" -> parse_check extra x = LFalse.
Proof.
  intros Hc Hat. unfold parse_check.
  destruct (str_eqb x [33%N]); [reflexivity|].
  destruct (str_eqb x [64%N]) eqn:E; [apply str_eqb_eq in E; contradiction|].
  now rewrite split_colon_none.
Qed.
End P.
