(* The tokenizer model agrees with the lexical specification: tokenizing the rendering of a
   well-separated lexeme sequence yields exactly the tokens the lexemes stand for. *)
From Coq Require Import String List Bool NArith Arith Lia.
From OP Require Import Base.Str Base.Check Base.ParserTypes Gen.GParser Gen.GUnicode
                       Model.Leaf Model.SR Model.Tokenize Spec.Render.
Import ListNotations.

(* ------------------------------------------------------------------------------------------ *)
(* Small facts about the GENERATED tables, all by computation.                                  *)

Lemma isws_lp : isws lp = false.
Proof. vm_compute. reflexivity. Qed.
Lemma isws_rp : isws rp = false.
Proof. vm_compute. reflexivity. Qed.
Lemma lower_nil : lower [] = [].
Proof. reflexivity. Qed.
Lemma kw_nil : mem_str [] keywords = false.
Proof. vm_compute. reflexivity. Qed.
(* the GENERATED flag: the quoted-string test is made on the word after both strips;
   used only through this lemma, so a flip of the flag fails right here *)
Lemma quote_on_clean : quote_test_on_clean = true.
Proof. reflexivity. Qed.

(* From here on the generated tables and [lower]/[isws] are never unfolded. *)
#[local] Opaque lower isws keywords quote_pairs quote_test_on_clean.

(* ------------------------------------------------------------------------------------------ *)
(* [words]                                                                                      *)

Definition nows (w : str) : Prop := forallb (fun c => negb (isws c)) w = true.

Lemma words_aux_word (acc w rest : str) :
  nows w -> words_aux acc (w ++ rest) = words_aux (rev w ++ acc) rest.
Proof.
  revert acc. induction w as [|c w IH]; intros acc H; [reflexivity|].
  unfold nows in H. cbn [forallb] in H. apply andb_prop in H. destruct H as [Hc Hw].
  apply negb_true_iff in Hc.
  cbn [app words_aux]. rewrite Hc. rewrite IH by exact Hw.
  cbn [rev]. rewrite <- app_assoc. reflexivity.
Qed.

Lemma words_aux_skip (sep rest : str) :
  allws sep = true -> words_aux [] (sep ++ rest) = words_aux [] rest.
Proof.
  induction sep as [|d sep IH]; intros Hs; [reflexivity|].
  unfold allws in Hs. cbn [forallb] in Hs. apply andb_prop in Hs. destruct Hs as [Hd Hs].
  cbn [app words_aux]. rewrite Hd. apply IH. exact Hs.
Qed.

Lemma rev_repeat {A} (x : A) (n : nat) : rev (repeat x n) = repeat x n.
Proof.
  induction n as [|n IH]; [reflexivity|].
  cbn [repeat rev]. rewrite IH. symmetry. apply repeat_cons.
Qed.

(* ------------------------------------------------------------------------------------------ *)
(* [lstrip] / [rstrip] on glued words                                                           *)

Lemma lstrip_glue (i : nat) (core : str) :
  hd_error core <> Some lp -> lstrip (repeat lp i ++ core) = (i, core).
Proof.
  intros H. induction i as [|i IH]; cbn [repeat app].
  - destruct core as [|c core]; [reflexivity|].
    cbn [lstrip]. destruct (N.eqb c lp) eqn:E; [|reflexivity].
    apply N.eqb_eq in E. subst c. exfalso. apply H. reflexivity.
  - cbn [lstrip]. rewrite N.eqb_refl, IH. reflexivity.
Qed.

Lemma lstrip_rp_glue (j : nat) (rc : str) :
  hd_error rc <> Some rp -> lstrip_rp (repeat rp j ++ rc) = (j, rc).
Proof.
  intros H. induction j as [|j IH]; cbn [repeat app].
  - destruct rc as [|c rc]; [reflexivity|].
    cbn [lstrip_rp]. destruct (N.eqb c rp) eqn:E; [|reflexivity].
    apply N.eqb_eq in E. subst c. exfalso. apply H. reflexivity.
  - cbn [lstrip_rp]. rewrite N.eqb_refl, IH. reflexivity.
Qed.

Lemma rstrip_glue (j : nat) (core : str) :
  hd_error (rev core) <> Some rp -> rstrip (core ++ repeat rp j) = (core, j).
Proof.
  intros H. unfold rstrip. rewrite rev_app_distr, rev_repeat.
  rewrite (lstrip_rp_glue j _ H). rewrite rev_involutive. reflexivity.
Qed.

(* ------------------------------------------------------------------------------------------ *)
(* what [wf_word] gives                                                                         *)

Lemma wf_word_inv (t : str) :
  wf_word t = true ->
  t <> [] /\ hd_error t <> Some lp /\ nows t /\ hd_error (rev t) <> Some rp /\
  is_quoted t = false.
Proof.
  unfold wf_word. intros H.
  apply andb_prop in H. destruct H as [H Hq].
  apply andb_prop in H. destruct H as [H Hlast].
  apply andb_prop in H. destruct H as [Hhd Hnows].
  split; [|split; [|split; [|split]]].
  - intros ->. discriminate Hhd.
  - destruct t as [|c t]; [discriminate Hhd|].
    cbn [hd_error]. intros E. inversion E as [Ec]. subst c.
    rewrite N.eqb_refl in Hhd. discriminate Hhd.
  - exact Hnows.
  - unfold last_cp in Hlast. destruct (hd_error (rev t)) as [c|]; [|discriminate Hlast].
    intros E. inversion E as [Ec]. subst c.
    rewrite N.eqb_refl in Hlast. discriminate Hlast.
  - apply negb_true_iff in Hq. exact Hq.
Qed.

(* ------------------------------------------------------------------------------------------ *)
Section Tok.
Variable extra : list (str * kcls).
Notation token := (token leaf).

Lemma word_tokens_nil : word_tokens extra [] = [].
Proof. reflexivity. Qed.

(* the tokens of the word under construction, whatever separator (or the end) follows *)
Lemma flush (acc sep rest : str) :
  allws sep = true -> sep <> [] ->
  flat_map (word_tokens extra) (words_aux acc (sep ++ rest)) =
  word_tokens extra (rev acc) ++ flat_map (word_tokens extra) (words_aux [] rest).
Proof.
  intros Hs Hne. destruct sep as [|c sep]; [contradiction|].
  unfold allws in Hs. cbn [forallb] in Hs. apply andb_prop in Hs. destruct Hs as [Hc Hs].
  cbn [app words_aux]. rewrite Hc.
  destruct acc as [|a acc].
  - cbn [rev]. rewrite word_tokens_nil. cbn [app]. rewrite words_aux_skip by exact Hs.
    reflexivity.
  - cbn [flat_map]. rewrite words_aux_skip by exact Hs. reflexivity.
Qed.

Lemma flush_end (acc : str) :
  flat_map (word_tokens extra) (words_aux acc []) = word_tokens extra (rev acc).
Proof.
  destruct acc as [|a acc]; cbn [words_aux flat_map].
  - cbn [rev]. rewrite word_tokens_nil. reflexivity.
  - rewrite app_nil_r. reflexivity.
Qed.

(* [word_tokens] once the two strips are known *)
Lemma word_tokens_eq (w : str) (nl : nat) (clean clean2 : str) (trail : nat) :
  lstrip w = (nl, clean) -> clean <> [] -> rstrip clean = (clean2, trail) ->
  word_tokens extra w =
  repeat TLp nl ++
  (if mem_str (lower clean2) keywords then [kw_token (lower clean2)]
   else match clean2 with
        | [] => []
        | _ :: _ => if is_quoted clean2 then [TStr] else [TLeaf (parse_check extra clean2)]
        end) ++ repeat TRp trail.
Proof.
  intros H1 Hne H2. unfold word_tokens. rewrite H1.
  destruct clean as [|c clean']; [contradiction|].
  rewrite H2. rewrite quote_on_clean. reflexivity.
Qed.

Lemma word_tokens_some (i : nat) (t : str) (j : nat) :
  wf_word t = true ->
  word_tokens extra (repeat lp i ++ t ++ repeat rp j) =
  repeat TLp i ++ [lex_token extra (XWord t)] ++ repeat TRp j.
Proof.
  intros Hwf. destruct (wf_word_inv t Hwf) as (Hne & Hhd & _ & Hlast & Hq).
  assert (Hhd' : hd_error (t ++ repeat rp j) <> Some lp).
  { destruct t as [|c t']; [contradiction|]. exact Hhd. }
  assert (Hne' : t ++ repeat rp j <> []).
  { destruct t as [|c t']; [contradiction|]. discriminate. }
  rewrite (word_tokens_eq _ _ _ _ _ (lstrip_glue i _ Hhd') Hne' (rstrip_glue j _ Hlast)).
  f_equal. f_equal. cbn [lex_token].
  destruct (mem_str (lower t) keywords); [reflexivity|].
  destruct t as [|c t']; [contradiction|].
  rewrite Hq. reflexivity.
Qed.

Lemma word_tokens_none (i j : nat) :
  word_tokens extra (repeat lp i ++ repeat rp j) = repeat TLp i ++ repeat TRp j.
Proof.
  destruct j as [|j].
  - cbn [repeat]. unfold word_tokens. rewrite lstrip_glue by (cbn [hd_error]; discriminate).
    reflexivity.
  - assert (H1 : hd_error (repeat rp (S j)) <> Some lp).
    { cbn [repeat hd_error]. unfold rp, lp. discriminate. }
    assert (H2 : hd_error (rev (@nil N)) <> Some rp).
    { cbn [rev hd_error]. discriminate. }
    assert (Hne : repeat rp (S j) <> []).
    { cbn [repeat]. discriminate. }
    rewrite (word_tokens_eq _ _ _ _ _ (lstrip_glue i _ H1) Hne (rstrip_glue (S j) [] H2)).
    rewrite lower_nil, kw_nil. reflexivity.
Qed.

(* ------------------------------------------------------------------------------------------ *)
(* The word under construction is  "("^i  [word]  ")"^j .                                       *)

Definition utext (u : option str) : str := match u with Some t => t | None => [] end.
Definition utoks (u : option str) : list token :=
  match u with Some t => [lex_token extra (XWord t)] | None => [] end.
Definition uok (u : option str) : Prop :=
  match u with Some t => wf_word t = true | None => True end.
Definition ptext (i : nat) (u : option str) (j : nat) : str :=
  repeat lp i ++ utext u ++ repeat rp j.
Definition ptoks (i : nat) (u : option str) (j : nat) : list token :=
  repeat TLp i ++ utoks u ++ repeat TRp j.
(* only "(" so far: anything may be glued on; otherwise only ")" may *)
Definition isopen (u : option str) (j : nat) : bool :=
  match u, j with None, 0 => true | _, _ => false end.

Lemma word_tokens_ptext (i : nat) (u : option str) (j : nat) :
  uok u -> word_tokens extra (ptext i u j) = ptoks i u j.
Proof.
  intros Hu. unfold ptext, ptoks. destruct u as [t|]; cbn [utext utoks].
  - apply word_tokens_some. exact Hu.
  - cbn [app]. apply word_tokens_none.
Qed.

Lemma nows_lex (x : lexeme) : wf_lexeme x = true -> nows (lex_text x).
Proof.
  intros H. destruct x as [| |t]; cbn [lex_text].
  - unfold nows. cbn [forallb]. rewrite isws_lp. reflexivity.
  - unfold nows. cbn [forallb]. rewrite isws_rp. reflexivity.
  - cbn [wf_lexeme] in H. destruct (wf_word_inv t H) as (_ & _ & Hn & _). exact Hn.
Qed.

Lemma step_ok (i : nat) (u : option str) (j : nat) (x : lexeme) :
  uok u -> wf_lexeme x = true -> (isopen u j = false -> x = XRp) ->
  exists i' u' j',
    uok u' /\
    ptext i' u' j' = ptext i u j ++ lex_text x /\
    ptoks i' u' j' = ptoks i u j ++ [lex_token extra x] /\
    (x = XLp -> isopen u' j' = true).
Proof.
  intros Hu Hx Hc. destruct (isopen u j) eqn:Eo.
  - unfold isopen in Eo. destruct u as [t|]; [discriminate Eo|].
    destruct j as [|j]; [|discriminate Eo].
    unfold ptext, ptoks. cbn [utext utoks repeat app]. rewrite !app_nil_r.
    destruct x as [| |t]; cbn [lex_text lex_token].
    + exists (S i), None, 0. cbn [utext utoks repeat app isopen]. rewrite !app_nil_r.
      split; [exact I|]. split; [apply repeat_cons|]. split; [apply repeat_cons|].
      reflexivity.
    + exists i, None, 1. cbn [utext utoks repeat app].
      split; [exact I|]. split; [reflexivity|]. split; [reflexivity|].
      intros E. discriminate E.
    + exists i, (Some t), 0. cbn [utext utoks repeat app]. rewrite !app_nil_r.
      split; [exact Hx|]. split; [reflexivity|]. split; [reflexivity|].
      intros E. discriminate E.
  - specialize (Hc eq_refl). subst x. exists i, u, (S j).
    unfold ptext, ptoks. cbn [lex_text lex_token].
    split; [exact Hu|].
    split.
    { cbn [repeat]. rewrite (repeat_cons j rp). rewrite !app_assoc. reflexivity. }
    split.
    { cbn [repeat]. rewrite (repeat_cons j (@TRp leaf)). rewrite !app_assoc. reflexivity. }
    intros E. discriminate E.
Qed.

(* ------------------------------------------------------------------------------------------ *)
Definition body (ps : list (lexeme * str)) : str :=
  flat_map (fun p => lex_text (fst p) ++ snd p) ps.
Definition head_rp (ps : list (lexeme * str)) : bool :=
  match ps with
  | [] => true
  | (XRp, _) :: _ => true
  | _ => false
  end.

Lemma seps_ok_cons (x : lexeme) (sep : str) (r : list (lexeme * str)) :
  seps_ok ((x, sep) :: r) = true ->
  allws sep = true /\ wf_lexeme x = true /\
  (sep = [] -> x = XLp \/ head_rp r = true) /\ seps_ok r = true.
Proof.
  cbn [seps_ok]. intros H.
  apply andb_prop in H. destruct H as [H Hr].
  apply andb_prop in H. destruct H as [H Hg].
  apply andb_prop in H. destruct H as [Hs Hx].
  split; [exact Hs|]. split; [exact Hx|]. split; [|exact Hr].
  intros ->. destruct r as [|[y s'] r']; [right; reflexivity|].
  destruct x as [| |t]; [left; reflexivity| |];
    (destruct y as [| |t']; [discriminate Hg|right; reflexivity|discriminate Hg]).
Qed.

Lemma tokenize_gen (ps : list (lexeme * str)) :
  forall (i : nat) (u : option str) (j : nat),
  seps_ok ps = true -> uok u -> (isopen u j = false -> head_rp ps = true) ->
  flat_map (word_tokens extra) (words_aux (rev (ptext i u j)) (body ps)) =
  ptoks i u j ++ map (lex_token extra) (map fst ps).
Proof.
  induction ps as [|[x sep] r IH]; intros i u j Hs Hu Hh.
  - cbn [body flat_map map]. rewrite flush_end, rev_involutive, app_nil_r.
    apply word_tokens_ptext. exact Hu.
  - destruct (seps_ok_cons x sep r Hs) as (Hsep & Hx & Hglue & Hsr).
    assert (Hc : isopen u j = false -> x = XRp).
    { intros Eo. specialize (Hh Eo). cbn [head_rp] in Hh.
      destruct x as [| |t]; [discriminate Hh|reflexivity|discriminate Hh]. }
    destruct (step_ok i u j x Hu Hx Hc) as (i' & u' & j' & Hu' & Ht & Hk & Ho).
    change (body ((x, sep) :: r)) with ((lex_text x ++ sep) ++ body r).
    rewrite <- app_assoc. rewrite words_aux_word by (apply nows_lex; exact Hx).
    rewrite <- rev_app_distr, <- Ht.
    cbn [map fst].
    change (lex_token extra x :: map (lex_token extra) (map fst r))
      with ([lex_token extra x] ++ map (lex_token extra) (map fst r)).
    rewrite app_assoc, <- Hk.
    destruct sep as [|c sep'].
    + cbn [app]. apply IH; [exact Hsr|exact Hu'|].
      intros Eo. destruct (Hglue eq_refl) as [Ex|Hr]; [|exact Hr].
      rewrite (Ho Ex) in Eo. discriminate Eo.
    + rewrite flush by (exact Hsep || discriminate).
      rewrite rev_involutive, word_tokens_ptext by exact Hu'.
      f_equal.
      assert (Hopen : isopen None 0 = false -> head_rp r = true)
        by (intros E; discriminate E).
      exact (IH 0 None 0 Hsr I Hopen).
Qed.

End Tok.

Theorem tokenize_render (extra : list (str * kcls)) (lead : str) (ps : list (lexeme * str)) :
  allws lead = true -> seps_ok ps = true ->
  tokenize extra (render lead ps) = map (lex_token extra) (map fst ps).
Proof.
  intros Hlead Hs. unfold tokenize, render, words.
  rewrite words_aux_skip by exact Hlead.
  assert (Hopen : isopen None 0 = false -> head_rp ps = true)
    by (intros E; discriminate E).
  exact (tokenize_gen extra ps 0 None 0 Hs I Hopen).
Qed.

Print Assumptions tokenize_render.
