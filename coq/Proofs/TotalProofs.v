(* C14: evaluating a rule never crashes; what cannot be evaluated denies. *)
From Coq Require Import String List Bool NArith.
From OP Require Import Base.Str Base.Check Base.ParserTypes Base.Res Base.Json
                       Gen.GChecks Model.Leaf Model.Tokenize Model.Eval Model.Enforce
                       Spec.Template Proofs.EvalProofs Proofs.LeafProofs Bridge.EnforceBridge
                       Proofs.ScopeProofs.
Import ListNotations.
Set Implicit Arguments.

(* filling a template from a mapping target can only fail with KeyError *)
Lemma fill_dict_raises ps kvs e : fill ps (JDict kvs) = Raise e -> e = EKeyError.
Proof.
  revert e. induction ps as [|[t|k] ps IH]; intros e H; cbn [fill] in H.
  - discriminate.
  - destruct (fill ps (JDict kvs)) as [x|e'|] eqn:E; cbn [bind] in H; try discriminate.
    inversion H; subst. now apply IH.
  - cbn [getitem] in H. destruct (assoc k kvs) as [v|]; cbn [bind] in H.
    + destruct (fill ps (JDict kvs)) as [x|e'|] eqn:E; cbn [bind] in H; try discriminate.
      inversion H; subst. now apply IH.
    + now inversion H.
Qed.

Section Total.
Variable w : world.

(* the leaves the quantifier of C14 draws from: constants, references, role checks, generic
   checks -- with match templates whose substitution can only fail with KeyError (true of every
   well-formed %(key)s template over a mapping target), roles a list of strings (or absent), and
   literal_eval raising only what the handler of GenericCheck catches *)
Definition safe_leaf (l : leaf) : Prop :=
  match l with
  | LTrue | LFalse => True
  | LCheck KRule _ _ => True
  | LCheck KRole _ m =>
      (forall e, subst m (w_target w) = Raise e -> e = EKeyError) /\
      (jhas (w_creds w) roles_key = false \/
       exists rs, jget (w_creds w) roles_key = JList (map JStr rs))
  | LCheck KGeneric k m =>
      (forall e, subst m (w_target w) = Raise e -> e = EKeyError) /\
      (forall e, w_lit w k = LitRaise e -> catches catch_generic_literal e = true)
  | _ => False
  end.
Definition safe_tree (c : check) : Prop := Forall safe_leaf (leaves c).
Definition safe_store : Prop :=
  forall n c, lookup (w_rules w) (w_default w) n = Some c -> safe_tree c.

Lemma catch_rule_key : catches catch_rule EKeyError = true.
Proof. reflexivity. Qed.

Theorem eval_never_raises : safe_store ->
  forall f cur c, safe_tree c -> (exists b, eval f w cur c = Ok b) \/ eval f w cur c = OutOfFuel.
Proof.
  intros Hs. induction f as [|f IHf]; intros cur c Hc; [right; reflexivity|].
  induction c as [l|c IH|cs IH|cs IH] using check_ind'; rewrite eval_S.
  - unfold safe_tree in Hc. cbn [leaves] in Hc. inversion Hc as [|? ? Hl _]; subst.
    destruct l as [| |k kd m]; cbn [eval_leaf]; eauto.
    destruct k; cbn [safe_leaf] in Hl; try contradiction.
    + destruct (lookup (w_rules w) (w_default w) m) as [body|] eqn:L.
      * destruct (IHf cur body (Hs _ _ L)) as [(b & ->)| ->]; cbn [try_catch]; eauto.
      * rewrite catch_rule_key. eauto.
    + destruct Hl as [Hsub Hroles]. left.
      destruct Hroles as [Hr|(rs & Hr)].
      * unfold role_check. destruct (subst m (w_target w)) as [x|e|] eqn:E.
        -- rewrite Hr. eauto.
        -- rewrite (Hsub e eq_refl). assert (Hk : catches catch_role_subst EKeyError = true) by reflexivity.
           rewrite Hk. eauto.
        -- exfalso. now apply (subst_no_oof m (w_target w)).
      * apply (@role_check_never_raises m (w_target w) (w_creds w) rs); auto.
    + destruct Hl as [Hsub Hlit]. left. now apply generic_never_raises.
  - unfold safe_tree in *. cbn [leaves] in Hc. destruct (IH Hc) as [(b & ->)| ->]; eauto.
  - unfold safe_tree in Hc. rewrite leaves_and in Hc.
    induction IH as [|y r Hy Hr IHr]; cbn [all_of]; [eauto|].
    cbn [flat_map] in Hc. apply Forall_app in Hc. destruct Hc as [Hc1 Hc2].
    destruct (Hy Hc1) as [([|] & ->)| ->]; eauto.
  - unfold safe_tree in Hc. rewrite leaves_or in Hc.
    induction IH as [|y r Hy Hr IHr]; cbn [any_of]; [eauto|].
    cbn [flat_map] in Hc. apply Forall_app in Hc. destruct Hc as [Hc1 Hc2].
    destruct (Hy Hc1) as [([|] & ->)| ->]; eauto.
Qed.
End Total.

Definition documented (e : exn) : Prop :=
  match e with
  | EPolicyNotAuthorized | ECustom _ | EInvalidScope | EInvalidContextObject
  | EPolicyNotRegistered => True
  | _ => False
  end.

Lemma scope_gate_raises creds types es dr e : scope_gate creds types es dr = Raise e -> e = EInvalidScope.
Proof.
  rewrite scope_gate_spec. unfold spec_gate.
  destruct (mem_str _ types || negb es); [discriminate|]. destruct dr; [|discriminate].
  intros H. now inversion H.
Qed.

Theorem enforce_documented x ca r dr exc e :
  (forall creds, safe_store (with_creds (e_world x) creds)) ->
  (forall creds c types, r = RObj c types -> safe_tree (with_creds (e_world x) creds) c) ->
  enforce x ca r dr exc = Raise e -> documented e.
Proof.
  intros Hs Ho H. destruct ca as [creds0|]; [|inversion H; exact I].
  rewrite enforce_is_skeleton in H. unfold skeleton, atoms_of, tail in H.
  set (creds := mirror creds0) in *.
  destruct r as [n|c types];
    cbn [a_isobj a_obj_types a_obj_gate a_obj_eval a_rules_ne a_lookup_ok
         a_registered a_name_types a_name_gate a_name_eval a_do_raise a_exc negb andb] in H.
  - destruct (w_rules (with_creds (e_world x) creds)) as [|p q] eqn:R; cbn [negb] in H.
    { destruct dr; cbn [andb negb] in H; [|discriminate]. inversion H. destruct exc; exact I. }
    destruct (lookup _ _ n) as [c|] eqn:L; cbn [negb] in H.
    2:{ destruct dr; cbn [andb negb] in H; [|discriminate]. inversion H. destruct exc; exact I. }
    assert (Hev : forall cu, (exists b, eval (fuel_for (p :: q)) (with_creds (e_world x) creds) cu c = Ok b)
                             \/ eval (fuel_for (p :: q)) (with_creds (e_world x) creds) cu c = OutOfFuel).
    { intros cu. apply eval_never_raises; [apply Hs|]. apply (Hs creds n c). rewrite R. exact L. }
    destruct (match assoc n (e_registered x) with Some _ => true | None => false end
              && match (match assoc n (e_registered x) with Some t => t | None => [] end) with
                 | [] => false | _ => true end).
    + destruct (scope_gate creds _ (e_enforce_scope x) dr) as [[|]|e'|] eqn:G; try discriminate.
      * destruct (Hev (Some n)) as [(b & Hb)|Hb]; rewrite Hb in H; [|discriminate].
        destruct (dr && negb b); [|discriminate]. inversion H. destruct exc; exact I.
      * inversion H; subst. apply scope_gate_raises in G. subst. exact I.
    + destruct (Hev (Some n)) as [(b & Hb)|Hb]; rewrite Hb in H; [|discriminate].
      destruct (dr && negb b); [|discriminate]. inversion H. destruct exc; exact I.
  - assert (Hev : (exists b, eval (fuel_for (w_rules (with_creds (e_world x) creds)))
                                  (with_creds (e_world x) creds) None c = Ok b)
                  \/ eval (fuel_for (w_rules (with_creds (e_world x) creds)))
                          (with_creds (e_world x) creds) None c = OutOfFuel).
    { apply eval_never_raises; [apply Hs|]. eapply Ho. reflexivity. }
    destruct types as [|t ts].
    + destruct Hev as [(b & Hb)|Hb]; rewrite Hb in H; [|discriminate].
      destruct (dr && negb b); [|discriminate]. inversion H. destruct exc; exact I.
    + destruct (scope_gate creds (t :: ts) (e_enforce_scope x) dr) as [[|]|e'|] eqn:G; try discriminate.
      * destruct Hev as [(b & Hb)|Hb]; rewrite Hb in H; [|discriminate].
        destruct (dr && negb b); [|discriminate]. inversion H. destruct exc; exact I.
      * inversion H; subst. apply scope_gate_raises in G. subst. exact I.
Qed.
