From Coq Require Import String List Bool NArith.
From OP Require Import Base.Str Base.Check Base.ParserTypes Base.Res Base.Json
                       Model.Leaf Model.Eval Model.Enforce Model.Load Model.Checker
                       Proofs.EnforceProofs Proofs.LookupProofs.
Import ListNotations.
Set Implicit Arguments.

(* the library's view of the same files: an enforcer holding the file's rules, default rule
   "default", nothing registered *)
Definition lib (w : world) : ectx :=
  {| e_world := w; e_registered := []; e_enforce_scope := true |}.

Lemma dset_same {A} k (v : A) l : assoc k l = Some v -> dset k v l = l.
Proof.
  induction l as [|[k' v'] r IH]; cbn [assoc dset]; [discriminate|].
  destruct (str_eqb k' k) eqn:E.
  - intros H. inversion H; subst. reflexivity.
  - intros H. now rewrite IH.
Qed.

(* credentials in which 'system' already equals 'system_scope' are a fixed point of the mirroring
   that Enforcer.enforce performs *)
Lemma mirror_fixed kvs :
  (truthy (jget (JDict kvs) (s "system_scope")) = true ->
   assoc (s "system") kvs = Some (jget (JDict kvs) (s "system_scope"))) ->
  mirror (JDict kvs) = JDict kvs.
Proof.
  intros H. unfold mirror. destruct (truthy (jget (JDict kvs) (s "system_scope"))) eqn:T; [|reflexivity].
  cbn [jset]. now rewrite (dset_same _ _ (H eq_refl)).
Qed.

Section V.
Variable w : world.
Hypothesis Hdefault : w_default w = default_name.
Variable kvs : list (str * jv).
Hypothesis Hcreds : w_creds w = JDict kvs.
Hypothesis Hsys : truthy (jget (JDict kvs) (s "system_scope")) = true ->
                  assoc (s "system") kvs = Some (jget (JDict kvs) (s "system_scope")).

Lemma world_same : with_creds w (mirror (JDict kvs)) = w.
Proof. rewrite (mirror_fixed kvs Hsys). destruct w; cbn in *. now subst. Qed.

(* the verdict printed for a requested rule is the library's decision *)
Theorem requested_is_library key :
  requested w key = verdict_of (enforce (lib w) (CMapping (JDict kvs)) (RName key) false XDefault)
  \/ w_rules w = [].
Proof.
  destruct (w_rules w) as [|p q] eqn:R; [now right|]. left.
  rewrite enforce_name_noraise. unfold world_of. cbn [lib e_world e_registered types_of assoc].
  rewrite world_same. rewrite R. unfold requested. rewrite R, <- Hdefault.
  destruct (lookup (p :: q) (w_default w) key) as [c|]; [|reflexivity].
  cbn [gate]. unfold try_rule. now rewrite R.
Qed.

(* every line of the listing is a stored name containing a colon with the verdict of its own
   definition, in sorted order *)
Theorem listing_shape :
  listing w = map (fun p => (fst p, try_rule w (fst p) (snd p)))
                  (filter (fun p => has_colon (fst p)) (sort_by_name (w_rules w))).
Proof. reflexivity. Qed.

(* ... and that verdict is the library's decision whenever the name resolves to that definition
   (always, for a rule set without duplicate names) *)
Theorem listed_is_library key c :
  w_rules w <> [] -> lookup (w_rules w) (w_default w) key = Some c ->
  try_rule w key c = verdict_of (enforce (lib w) (CMapping (JDict kvs)) (RName key) false XDefault).
Proof.
  intros Hne Hl. rewrite enforce_name_noraise. unfold world_of.
  cbn [lib e_world e_registered types_of assoc]. rewrite world_same.
  destruct (w_rules w) as [|p q] eqn:R; [contradiction|]. rewrite Hl. cbn [gate].
  unfold try_rule. now rewrite R.
Qed.
End V.
