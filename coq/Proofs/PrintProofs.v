(* Printing a check tree (the __str__ methods) and parsing the text back.
     print_parse              parse (print t) = t        for trees the text language can express
     print_injective          print is injective on such trees
     parse_produces_wf        the parser only returns such trees
     print_parse_fixed_point  parse (print (parse x)) = parse x
   The last two rely on the tokenizer testing for a quoted string on the word AFTER both strips
   (GENERATED flag [quote_test_on_clean], used only through [quote_on_clean]); with the test made
   before stripping the trailing ")" the input  (':')  is a counterexample to both. *)
From Coq Require Import String List Bool NArith Arith Lia.
From OP Require Import Base.Str Base.Check Base.ParserTypes Gen.GParser Gen.GChecks Gen.GUnicode
                       Model.Leaf Model.SR Model.Tokenize Model.Print
                       Spec.Grammar Spec.Render Spec.PrintSpec
                       Proofs.SRProofs Proofs.TokenizeProofs Proofs.ParseProofs.
Import ListNotations.

(* ------------------------------------------------------------------------------------------ *)
(* Facts about the GENERATED constants, each in a named place, all by computation.              *)

Definition sp : str := s " ".
Definition kw_of (b : bool) : str := if b then s "and" else s "or".
Definition ktok (b : bool) : token leaf := if b then TAnd else TOr.

Lemma fmt_true_eq : fmt_true = s "@". Proof. reflexivity. Qed.
Lemma fmt_false_eq : fmt_false = s "!". Proof. reflexivity. Qed.
Lemma fmt_leaf_eq : fmt_leaf = ([], [colon], []). Proof. reflexivity. Qed.
Lemma fmt_not_eq : fmt_not = (s "not" ++ sp, []). Proof. reflexivity. Qed.
Lemma fmt_and_eq : fmt_and = ([lp], sp ++ kw_of true ++ sp, [rp]). Proof. reflexivity. Qed.
Lemma fmt_or_eq : fmt_or = ([lp], sp ++ kw_of false ++ sp, [rp]). Proof. reflexivity. Qed.

Lemma allws_sp : allws sp = true. Proof. vm_compute. reflexivity. Qed.
Lemma wf_word_not : wf_word (s "not") = true. Proof. vm_compute. reflexivity. Qed.
Lemma wf_word_kw b : wf_word (kw_of b) = true. Proof. destruct b; vm_compute; reflexivity. Qed.
Lemma lex_token_not extra : lex_token extra (XWord (s "not")) = TNot.
Proof. vm_compute. reflexivity. Qed.
Lemma lex_token_kw extra b : lex_token extra (XWord (kw_of b)) = ktok b.
Proof. destruct b; vm_compute; reflexivity. Qed.
Lemma wf_leaf_true extra : wf_leaf extra LTrue = true. Proof. vm_compute. reflexivity. Qed.
Lemma wf_leaf_false extra : wf_leaf extra LFalse = true. Proof. vm_compute. reflexivity. Qed.

#[local] Opaque lower isws keywords quote_pairs quote_test_on_clean.

(* ------------------------------------------------------------------------------------------ *)
(* Unfolding equations for the nested fixpoints of [print] and [wf_tree].                       *)

Lemma print_leaf_check c k m : print_leaf (LCheck c k m) = k ++ [colon] ++ m.
Proof. cbn [print_leaf]. rewrite fmt_leaf_eq. cbn [app]. rewrite app_nil_r. reflexivity. Qed.

Lemma print_not c : print (CNot c) = s "not" ++ sp ++ print c.
Proof.
  cbn [print]. rewrite fmt_not_eq. cbn [fst snd]. rewrite app_nil_r, <- app_assoc. reflexivity.
Qed.

Lemma print_go cs :
  (fix go (l : list check) : list str :=
     match l with [] => [] | x :: r => print x :: go r end) cs = map print cs.
Proof. induction cs as [|x r IH]; [reflexivity|]. cbn [map]. rewrite IH. reflexivity. Qed.

Lemma print_and cs :
  print (CAnd cs) = [lp] ++ join (sp ++ kw_of true ++ sp) (map print cs) ++ [rp].
Proof. cbn [print]. rewrite fmt_and_eq, print_go. reflexivity. Qed.
Lemma print_or cs :
  print (COr cs) = [lp] ++ join (sp ++ kw_of false ++ sp) (map print cs) ++ [rp].
Proof. cbn [print]. rewrite fmt_or_eq, print_go. reflexivity. Qed.

Lemma wf_all extra cs :
  (fix all (l : list check) : bool :=
     match l with [] => true | x :: r => wf_tree extra x && all r end) cs
  = forallb (wf_tree extra) cs.
Proof. induction cs as [|x r IH]; [reflexivity|]. cbn [forallb]. rewrite IH. reflexivity. Qed.
Lemma wf_tree_and extra cs :
  wf_tree extra (CAnd cs) = (2 <=? length cs) && forallb (wf_tree extra) cs.
Proof. cbn [wf_tree]. rewrite wf_all. reflexivity. Qed.
Lemma wf_tree_or extra cs :
  wf_tree extra (COr cs) = (2 <=? length cs) && forallb (wf_tree extra) cs.
Proof. cbn [wf_tree]. rewrite wf_all. reflexivity. Qed.

(* ------------------------------------------------------------------------------------------ *)
(* The grammar expression of a tree.                                                            *)

Definition chain (b : bool) (ns : list (nunit leaf)) : expr leaf :=
  match ns with
  | [] => E1 (NLeaf LTrue)                       (* never used: And/Or have >= 2 children *)
  | n :: r => fold_left (fun e n' => EBin e b n') r (E1 n)
  end.

Fixpoint expr_of (t : check) : nunit leaf :=
  match t with
  | CLeaf l => NLeaf l
  | CNot c => NNot (expr_of c)
  | CAnd cs => NParen (chain true (map expr_of cs))
  | COr cs => NParen (chain false (map expr_of cs))
  end.

Lemma item_chain_and (r : list (nunit leaf)) : forall e cs,
  item_of e = IAnd cs ->
  item_of (fold_left (fun e n' => EBin e true n') r e) = IAnd (cs ++ map (@tree_n leaf) r).
Proof.
  induction r as [|n r IH]; intros e cs He; cbn [fold_left map].
  - rewrite app_nil_r. exact He.
  - rewrite (IH (EBin e true n) (cs ++ [tree_n n])).
    + rewrite <- app_assoc. reflexivity.
    + rewrite item_of_EBin, He. reflexivity.
Qed.
Lemma item_chain_or (r : list (nunit leaf)) : forall e cs,
  item_of e = IOr cs ->
  item_of (fold_left (fun e n' => EBin e false n') r e) = IOr (cs ++ map (@tree_n leaf) r).
Proof.
  induction r as [|n r IH]; intros e cs He; cbn [fold_left map].
  - rewrite app_nil_r. exact He.
  - rewrite (IH (EBin e false n) (cs ++ [tree_n n])).
    + rewrite <- app_assoc. reflexivity.
    + rewrite item_of_EBin, He. reflexivity.
Qed.

Lemma ival_chain_and ns : 2 <= length ns ->
  ival (item_of (chain true ns)) = CAnd (map (@tree_n leaf) ns).
Proof.
  destruct ns as [|n0 [|n1 r]]; cbn [length]; try lia. intros _.
  cbn [chain fold_left].
  rewrite (item_chain_and r (EBin (E1 n0) true n1) [tree_n n0; tree_n n1]).
  - reflexivity.
  - rewrite item_of_EBin, item_of_E1. reflexivity.
Qed.
Lemma ival_chain_or ns : 2 <= length ns ->
  ival (item_of (chain false ns)) = COr (map (@tree_n leaf) ns).
Proof.
  destruct ns as [|n0 [|n1 r]]; cbn [length]; try lia. intros _.
  cbn [chain fold_left].
  rewrite (item_chain_or r (EBin (E1 n0) false n1) [tree_n n0; tree_n n1]).
  - reflexivity.
  - rewrite item_of_EBin, item_of_E1. reflexivity.
Qed.

Lemma map_tree_expr extra cs :
  Forall (fun c => wf_tree extra c = true -> tree_n (expr_of c) = c) cs ->
  forallb (wf_tree extra) cs = true -> map (@tree_n leaf) (map expr_of cs) = cs.
Proof.
  induction 1 as [|x r Hx _ IH]; intros Hw; [reflexivity|].
  cbn [forallb] in Hw. apply andb_prop in Hw. destruct Hw as [Hwx Hwr].
  cbn [map]. rewrite (Hx Hwx), (IH Hwr). reflexivity.
Qed.

Lemma tree_expr_of extra t : wf_tree extra t = true -> tree_n (expr_of t) = t.
Proof.
  induction t as [l|c IH|cs IH|cs IH] using check_ind'; intros Hw.
  - reflexivity.
  - cbn [expr_of]. rewrite tree_n_NNot. cbn [wf_tree] in Hw. rewrite (IH Hw). reflexivity.
  - rewrite wf_tree_and in Hw. apply andb_prop in Hw. destruct Hw as [Hlen Hall].
    apply Nat.leb_le in Hlen.
    cbn [expr_of]. rewrite tree_n_NParen, ival_chain_and by (rewrite map_length; exact Hlen).
    rewrite (map_tree_expr extra cs IH Hall). reflexivity.
  - rewrite wf_tree_or in Hw. apply andb_prop in Hw. destruct Hw as [Hlen Hall].
    apply Nat.leb_le in Hlen.
    cbn [expr_of]. rewrite tree_n_NParen, ival_chain_or by (rewrite map_length; exact Hlen).
    rewrite (map_tree_expr extra cs IH Hall). reflexivity.
Qed.

(* tokens of a chain *)
Lemma toks_fold b (r : list (nunit leaf)) : forall e,
  toks (fold_left (fun e n' => EBin e b n') r e) =
  toks e ++ flat_map (fun n => ktok b :: toks_n n) r.
Proof.
  induction r as [|n r IH]; intros e; cbn [fold_left flat_map].
  - rewrite app_nil_r. reflexivity.
  - rewrite IH, toks_EBin, <- app_assoc. destruct b; reflexivity.
Qed.

(* ------------------------------------------------------------------------------------------ *)
(* The lexemes of a printed tree, with the separators the printer uses; written with a
   continuation [k] (what follows) and the separator [last] that follows the last lexeme.       *)

Section LexList.
Variable f : check -> str -> list (lexeme * str) -> list (lexeme * str).
Variable b : bool.
Fixpoint lexk_list (l : list check) (k : list (lexeme * str)) : list (lexeme * str) :=
  match l with
  | [] => k
  | x :: r => match r with
              | [] => f x [] k
              | _ :: _ => f x sp ((XWord (kw_of b), sp) :: lexk_list r k)
              end
  end.
End LexList.

Fixpoint lexk (t : check) (last : str) (k : list (lexeme * str)) : list (lexeme * str) :=
  match t with
  | CLeaf l => (XWord (print_leaf l), last) :: k
  | CNot c => (XWord (s "not"), sp) :: lexk c last k
  | CAnd cs => (XLp, []) :: lexk_list lexk true cs ((XRp, last) :: k)
  | COr cs => (XLp, []) :: lexk_list lexk false cs ((XRp, last) :: k)
  end.

Lemma body_cons x sep r : body ((x, sep) :: r) = lex_text x ++ sep ++ body r.
Proof. unfold body. cbn [flat_map fst snd]. rewrite <- app_assoc. reflexivity. Qed.

(* (i) the rendering is the printed text *)
Lemma body_list b cs :
  Forall (fun c => forall last k, body (lexk c last k) = print c ++ last ++ body k) cs ->
  forall k, body (lexk_list lexk b cs k) = join (sp ++ kw_of b ++ sp) (map print cs) ++ body k.
Proof.
  induction 1 as [|x r Hx _ IH]; intros k; [reflexivity|].
  destruct r as [|y r'].
  - cbn [lexk_list map join]. rewrite Hx. reflexivity.
  - change (lexk_list lexk b (x :: y :: r') k)
      with (lexk x sp ((XWord (kw_of b), sp) :: lexk_list lexk b (y :: r') k)).
    rewrite Hx, body_cons, IH. cbn [lex_text].
    change (join (sp ++ kw_of b ++ sp) (map print (x :: y :: r')))
      with (print x ++ (sp ++ kw_of b ++ sp) ++ join (sp ++ kw_of b ++ sp) (map print (y :: r'))).
    rewrite <- !app_assoc. reflexivity.
Qed.

Lemma body_lexk t : forall last k, body (lexk t last k) = print t ++ last ++ body k.
Proof.
  induction t as [l|c IH|cs IH|cs IH] using check_ind'; intros last k.
  - cbn [lexk print]. rewrite body_cons. reflexivity.
  - cbn [lexk]. rewrite body_cons, IH, print_not. cbn [lex_text]. rewrite <- !app_assoc. reflexivity.
  - cbn [lexk]. rewrite body_cons, (body_list true cs IH), body_cons, print_and.
    cbn [lex_text]. rewrite <- !app_assoc. reflexivity.
  - cbn [lexk]. rewrite body_cons, (body_list false cs IH), body_cons, print_or.
    cbn [lex_text]. rewrite <- !app_assoc. reflexivity.
Qed.

(* (ii) the separators are legal *)
Lemma seps_ok_intro x sep r :
  allws sep = true -> wf_lexeme x = true ->
  (sep = [] -> x = XLp \/ head_rp r = true) -> seps_ok r = true ->
  seps_ok ((x, sep) :: r) = true.
Proof.
  intros Hs Hx Hg Hr. cbn [seps_ok]. rewrite Hs, Hx, Hr. cbn [andb]. rewrite andb_true_r.
  destruct r as [|[y s'] r']; [reflexivity|].
  destruct sep as [|c sep']; [|reflexivity].
  destruct (Hg eq_refl) as [->|Hh]; [reflexivity|].
  cbn [head_rp] in Hh. destruct y; try discriminate Hh. destruct x; reflexivity.
Qed.

Definition seps_goal extra (c : check) : Prop :=
  wf_tree extra c = true -> forall last k,
  allws last = true -> (last = [] -> head_rp k = true) -> seps_ok k = true ->
  seps_ok (lexk c last k) = true.

Lemma sp_ne : sp <> []. Proof. discriminate. Qed.

Lemma seps_list extra b cs :
  Forall (seps_goal extra) cs -> forallb (wf_tree extra) cs = true ->
  forall k, head_rp k = true -> seps_ok k = true -> seps_ok (lexk_list lexk b cs k) = true.
Proof.
  induction 1 as [|x r Hx _ IH]; intros Hw k Hh Hk; [exact Hk|].
  cbn [forallb] in Hw. apply andb_prop in Hw. destruct Hw as [Hwx Hwr].
  destruct r as [|y r'].
  - cbn [lexk_list]. apply (Hx Hwx); [reflexivity|intros _; exact Hh|exact Hk].
  - change (lexk_list lexk b (x :: y :: r') k)
      with (lexk x sp ((XWord (kw_of b), sp) :: lexk_list lexk b (y :: r') k)).
    apply (Hx Hwx); [exact allws_sp|intros E; destruct (sp_ne E)|].
    apply seps_ok_intro; [exact allws_sp|apply wf_word_kw|intros E; destruct (sp_ne E)|].
    apply IH; assumption.
Qed.

Lemma wf_leaf_inv extra l : wf_leaf extra l = true ->
  wf_word (print_leaf l) = true /\ mem_str (lower (print_leaf l)) keywords = false /\
  leaf_eqb (parse_check extra (print_leaf l)) l = true.
Proof.
  unfold wf_leaf. intros H. apply andb_prop in H. destruct H as [H H3].
  apply andb_prop in H. destruct H as [H1 H2]. apply negb_true_iff in H2. auto.
Qed.

Lemma seps_lexk extra t : seps_goal extra t.
Proof.
  induction t as [l|c IH|cs IH|cs IH] using check_ind'; intros Hw last k Hl Hg Hk.
  - cbn [lexk]. cbn [wf_tree] in Hw. destruct (wf_leaf_inv extra l Hw) as (Hword & _).
    apply seps_ok_intro; [exact Hl|exact Hword|intros E; right; exact (Hg E)|exact Hk].
  - cbn [lexk]. cbn [wf_tree] in Hw.
    apply seps_ok_intro; [exact allws_sp|exact wf_word_not|intros E; destruct (sp_ne E)|].
    apply IH; assumption.
  - cbn [lexk]. rewrite wf_tree_and in Hw. apply andb_prop in Hw. destruct Hw as [_ Hall].
    apply seps_ok_intro; [reflexivity|reflexivity|intros _; left; reflexivity|].
    apply (seps_list extra true cs IH Hall); [reflexivity|].
    apply seps_ok_intro; [exact Hl|reflexivity|intros E; right; exact (Hg E)|exact Hk].
  - cbn [lexk]. rewrite wf_tree_or in Hw. apply andb_prop in Hw. destruct Hw as [_ Hall].
    apply seps_ok_intro; [reflexivity|reflexivity|intros _; left; reflexivity|].
    apply (seps_list extra false cs IH Hall); [reflexivity|].
    apply seps_ok_intro; [exact Hl|reflexivity|intros E; right; exact (Hg E)|exact Hk].
Qed.

(* (iii) the lexemes stand for the tokens of the grammar expression *)
Lemma kcls_eqb_eq a b : kcls_eqb a b = true -> a = b.
Proof.
  destruct a, b; cbn [kcls_eqb]; intros H; try reflexivity; try discriminate H.
  apply N.eqb_eq in H. subst. reflexivity.
Qed.
Lemma kcls_eqb_refl a : kcls_eqb a a = true.
Proof. destruct a; cbn [kcls_eqb]; try reflexivity. apply N.eqb_refl. Qed.
Lemma leaf_eqb_eq a b : leaf_eqb a b = true -> a = b.
Proof.
  destruct a as [| |c k m], b as [| |c' k' m']; cbn [leaf_eqb]; intros H;
    try reflexivity; try discriminate H.
  apply andb_prop in H. destruct H as [H Hm]. apply andb_prop in H. destruct H as [Hc Hk].
  apply kcls_eqb_eq in Hc. apply str_eqb_eq in Hk. apply str_eqb_eq in Hm. subst. reflexivity.
Qed.
Lemma leaf_eqb_refl a : leaf_eqb a a = true.
Proof.
  destruct a as [| |c k m]; cbn [leaf_eqb]; try reflexivity.
  rewrite kcls_eqb_refl, !str_eqb_refl. reflexivity.
Qed.

Lemma lex_token_leaf extra l : wf_leaf extra l = true ->
  lex_token extra (XWord (print_leaf l)) = TLeaf l.
Proof.
  intros H. destruct (wf_leaf_inv extra l H) as (_ & Hk & He).
  cbn [lex_token]. rewrite Hk. apply leaf_eqb_eq in He. rewrite He. reflexivity.
Qed.

Definition ltoks extra (ps : list (lexeme * str)) : list (token leaf) :=
  map (lex_token extra) (map fst ps).
Lemma ltoks_cons extra x sep r : ltoks extra ((x, sep) :: r) = lex_token extra x :: ltoks extra r.
Proof. reflexivity. Qed.

Definition toks_goal extra (c : check) : Prop :=
  wf_tree extra c = true -> forall last k,
  ltoks extra (lexk c last k) = toks_n (expr_of c) ++ ltoks extra k.

(* a non-empty list of children: first child, then keyword + child for each of the others *)
Lemma toks_list extra b x r :
  Forall (toks_goal extra) (x :: r) -> forallb (wf_tree extra) (x :: r) = true ->
  forall k, ltoks extra (lexk_list lexk b (x :: r) k) =
            toks_n (expr_of x) ++ flat_map (fun n => ktok b :: toks_n n) (map expr_of r)
            ++ ltoks extra k.
Proof.
  revert x. induction r as [|y r' IH]; intros x HF Hw k.
  - inversion HF as [|? ? Hx _]; subst. cbn [forallb] in Hw. apply andb_prop in Hw.
    destruct Hw as [Hwx _]. cbn [lexk_list map flat_map app]. apply (Hx Hwx).
  - inversion HF as [|? ? Hx HF']; subst. cbn [forallb] in Hw. apply andb_prop in Hw.
    destruct Hw as [Hwx Hwr].
    change (lexk_list lexk b (x :: y :: r') k)
      with (lexk x sp ((XWord (kw_of b), sp) :: lexk_list lexk b (y :: r') k)).
    rewrite (Hx Hwx), ltoks_cons, lex_token_kw, (IH y HF' Hwr).
    cbn [map flat_map]. rewrite <- !app_assoc. reflexivity.
Qed.

Lemma toks_chain b n (r : list (nunit leaf)) :
  toks (chain b (n :: r)) = toks_n n ++ flat_map (fun n => ktok b :: toks_n n) r.
Proof. cbn [chain]. rewrite toks_fold, toks_E1. reflexivity. Qed.

Lemma toks_lexk extra t : toks_goal extra t.
Proof.
  induction t as [l|c IH|cs IH|cs IH] using check_ind'; intros Hw last k.
  - cbn [lexk expr_of]. cbn [wf_tree] in Hw. rewrite ltoks_cons, (lex_token_leaf extra l Hw).
    rewrite toks_n_NLeaf. reflexivity.
  - cbn [lexk expr_of]. cbn [wf_tree] in Hw.
    rewrite ltoks_cons, lex_token_not, (IH Hw), toks_n_NNot. reflexivity.
  - rewrite wf_tree_and in Hw. apply andb_prop in Hw. destruct Hw as [Hlen Hall].
    apply Nat.leb_le in Hlen. destruct cs as [|x r]; [cbn [length] in Hlen; lia|].
    cbn [lexk expr_of]. rewrite ltoks_cons, (toks_list extra true x r IH Hall), ltoks_cons.
    cbn [lex_token map]. rewrite toks_n_NParen, toks_chain.
    cbn [app]. rewrite <- !app_assoc. reflexivity.
  - rewrite wf_tree_or in Hw. apply andb_prop in Hw. destruct Hw as [Hlen Hall].
    apply Nat.leb_le in Hlen. destruct cs as [|x r]; [cbn [length] in Hlen; lia|].
    cbn [lexk expr_of]. rewrite ltoks_cons, (toks_list extra false x r IH Hall), ltoks_cons.
    cbn [lex_token map]. rewrite toks_n_NParen, toks_chain.
    cbn [app]. rewrite <- !app_assoc. reflexivity.
Qed.

(* the printed text is never empty *)
Lemma print_nonempty extra t : wf_tree extra t = true -> print t <> [].
Proof.
  destruct t as [l|c|cs|cs]; intros Hw.
  - cbn [print]. cbn [wf_tree] in Hw. destruct (wf_leaf_inv extra l Hw) as (Hword & _).
    destruct (wf_word_inv _ Hword) as (Hne & _). exact Hne.
  - rewrite print_not. discriminate.
  - rewrite print_and. discriminate.
  - rewrite print_or. discriminate.
Qed.

(* ------------------------------------------------------------------------------------------ *)
Theorem print_parse (extra : list (str * kcls)) (t : check) :
  wf_tree extra t = true -> parse_text_rule extra (print t) = PCheck t.
Proof.
  intros Hw.
  assert (Hr : print t = render [] (lexk t [] [])).
  { unfold render. cbn [app]. fold (body (lexk t [] [])). rewrite body_lexk.
    cbn [body flat_map]. rewrite !app_nil_r. reflexivity. }
  assert (Hs : seps_ok (lexk t [] []) = true).
  { apply (seps_lexk extra t Hw); reflexivity. }
  assert (Ht : toks (E1 (expr_of t)) = tokenize extra (print t)).
  { rewrite Hr at 1. rewrite (tokenize_render extra [] (lexk t [] []) eq_refl Hs).
    fold (ltoks extra (lexk t [] [])). rewrite (toks_lexk extra t Hw).
    cbn [ltoks map]. rewrite app_nil_r, toks_E1. reflexivity. }
  rewrite (@sentence_parses extra (print t) (E1 (expr_of t)) (print_nonempty extra t Hw) Ht).
  unfold tree. rewrite item_of_E1. cbn [ival]. rewrite (tree_expr_of extra t Hw). reflexivity.
Qed.

Theorem print_injective (extra : list (str * kcls)) (t1 t2 : check) :
  wf_tree extra t1 = true -> wf_tree extra t2 = true -> print t1 = print t2 -> t1 = t2.
Proof.
  intros H1 H2 E. pose proof (print_parse extra t1 H1) as P1.
  rewrite E, (print_parse extra t2 H2) in P1. inversion P1. reflexivity.
Qed.

(* ------------------------------------------------------------------------------------------ *)
(* What the parser returns.                                                                     *)

Definition nw (c : N) : Prop := isws c = false.

Lemma nows_of_Forall w : Forall nw w -> nows w.
Proof.
  intros H. unfold nows. apply forallb_forall. intros c Hc.
  rewrite Forall_forall in H. rewrite (H c Hc). reflexivity.
Qed.

Lemma words_aux_nw x : forall acc, Forall nw acc -> Forall (Forall nw) (words_aux acc x).
Proof.
  induction x as [|c x IH]; intros acc Ha; cbn [words_aux].
  - destruct acc as [|a acc]; [constructor|]. constructor; [|constructor].
    apply Forall_rev. exact Ha.
  - destruct (isws c) eqn:Ec.
    + destruct acc as [|a acc]; [apply IH; constructor|].
      constructor; [apply Forall_rev; exact Ha|apply IH; constructor].
    + apply IH. constructor; [exact Ec|exact Ha].
Qed.

Lemma lstrip_spec w : forall n r, lstrip w = (n, r) ->
  w = repeat lp n ++ r /\ hd_error r <> Some lp.
Proof.
  induction w as [|c w IH]; intros n r H; cbn [lstrip] in H.
  - inversion H; subst. split; [reflexivity|discriminate].
  - destruct (N.eqb c lp) eqn:Ec.
    + destruct (lstrip w) as [n' r'] eqn:E. inversion H; subst.
      destruct (IH n' r eq_refl) as (Hw & Hh). apply N.eqb_eq in Ec. subst c.
      split; [cbn [repeat app]; rewrite <- Hw; reflexivity|exact Hh].
    + inversion H; subst. split; [reflexivity|].
      cbn [hd_error]. intros E. inversion E; subst. rewrite N.eqb_refl in Ec. discriminate Ec.
Qed.
Lemma lstrip_rp_spec w : forall n r, lstrip_rp w = (n, r) ->
  w = repeat rp n ++ r /\ hd_error r <> Some rp.
Proof.
  induction w as [|c w IH]; intros n r H; cbn [lstrip_rp] in H.
  - inversion H; subst. split; [reflexivity|discriminate].
  - destruct (N.eqb c rp) eqn:Ec.
    + destruct (lstrip_rp w) as [n' r'] eqn:E. inversion H; subst.
      destruct (IH n' r eq_refl) as (Hw & Hh). apply N.eqb_eq in Ec. subst c.
      split; [cbn [repeat app]; rewrite <- Hw; reflexivity|exact Hh].
    + inversion H; subst. split; [reflexivity|].
      cbn [hd_error]. intros E. inversion E; subst. rewrite N.eqb_refl in Ec. discriminate Ec.
Qed.
Lemma rstrip_spec w c n : rstrip w = (c, n) ->
  w = c ++ repeat rp n /\ hd_error (rev c) <> Some rp.
Proof.
  unfold rstrip. destruct (lstrip_rp (rev w)) as [n' r] eqn:E. intros H. inversion H; subst.
  destruct (lstrip_rp_spec (rev w) n r E) as (Hw & Hh). split.
  - apply (f_equal (@rev N)) in Hw. rewrite rev_involutive, rev_app_distr, rev_repeat in Hw.
    exact Hw.
  - rewrite rev_involutive. exact Hh.
Qed.

Lemma split_colon_spec x : forall k m, split_colon x = Some (k, m) -> x = k ++ [colon] ++ m.
Proof.
  induction x as [|c r IH]; intros k m H; cbn [split_colon] in H; [discriminate H|].
  destruct (N.eqb c colon) eqn:Ec.
  - inversion H; subst. apply N.eqb_eq in Ec. subst c. reflexivity.
  - destruct (split_colon r) as [[k' m']|]; [|discriminate H]. inversion H; subst.
    cbn [app]. rewrite (IH k' m eq_refl). reflexivity.
Qed.

Lemma wf_word_intro t :
  t <> [] -> hd_error t <> Some lp -> nows t -> hd_error (rev t) <> Some rp ->
  is_quoted t = false -> wf_word t = true.
Proof.
  intros Hne Hhd Hn Hl Hq. unfold wf_word. rewrite Hq, Hn. cbn [negb]. rewrite !andb_true_r.
  apply andb_true_intro. split.
  - destruct t as [|c t]; [contradiction|]. apply negb_true_iff, N.eqb_neq.
    intros ->. apply Hhd. reflexivity.
  - unfold last_cp. destruct (hd_error (rev t)) as [c|] eqn:E.
    + apply negb_true_iff, N.eqb_neq. intros ->. apply Hl. reflexivity.
    + destruct (rev t) as [|a r] eqn:Er; [|discriminate E].
      apply (f_equal (@rev N)) in Er. rewrite rev_involutive in Er. contradiction.
Qed.

Section Wf.
Variable extra : list (str * kcls).

Lemma wf_leaf_parse_check x :
  wf_word x = true -> mem_str (lower x) keywords = false ->
  wf_leaf extra (parse_check extra x) = true.
Proof.
  intros Hword Hkw.
  destruct (parse_check extra x) as [| |c k m] eqn:Ep;
    [apply wf_leaf_true|apply wf_leaf_false|].
  assert (Ex : x = k ++ [colon] ++ m).
  { unfold parse_check in Ep.
    destruct (str_eqb x [33%N]); [discriminate Ep|].
    destruct (str_eqb x [64%N]); [discriminate Ep|].
    destruct (split_colon x) as [[k' m']|] eqn:Es; [|discriminate Ep].
    destruct (dispatch extra k') as [c'|]; [|discriminate Ep].
    inversion Ep; subst. apply split_colon_spec. exact Es. }
  unfold wf_leaf. rewrite print_leaf_check, <- Ex, Hword, Hkw, Ep, leaf_eqb_refl. reflexivity.
Qed.

Definition tok_wf (t : token leaf) : Prop :=
  match t with TLeaf l => wf_leaf extra l = true | _ => True end.

Lemma Forall_repeat {A} (P : A -> Prop) a n : P a -> Forall P (repeat a n).
Proof. intros H. induction n as [|n IH]; cbn [repeat]; constructor; assumption. Qed.

Lemma kw_token_wf x : tok_wf (kw_token x).
Proof.
  unfold kw_token. destruct (str_eqb x (s "and")); [exact I|].
  destruct (str_eqb x (s "or")); [exact I|]. destruct (str_eqb x (s "not")); exact I.
Qed.

Lemma word_tokens_wf w : Forall nw w -> Forall tok_wf (word_tokens extra w).
Proof.
  intros Hw. unfold word_tokens.
  destruct (lstrip w) as [nl clean] eqn:E1.
  destruct (lstrip_spec w nl clean E1) as (Ew & Hhd).
  apply Forall_app. split; [apply Forall_repeat; exact I|].
  destruct clean as [|c0 clean']; [constructor|].
  remember (c0 :: clean') as clean eqn:Eclean.
  destruct (rstrip clean) as [clean2 trail] eqn:E2.
  destruct (rstrip_spec clean clean2 trail E2) as (Ec & Hlast).
  apply Forall_app. split; [|apply Forall_repeat; exact I].
  destruct (mem_str (lower clean2) keywords) eqn:Ek.
  { constructor; [apply kw_token_wf|constructor]. }
  destruct clean2 as [|d clean2']; [constructor|].
  remember (d :: clean2') as clean2 eqn:Eclean2.
  rewrite quote_on_clean.
  destruct (is_quoted clean2) eqn:Eq; constructor; try exact I; try constructor.
  cbn [tok_wf]. apply wf_leaf_parse_check; [|exact Ek].
  apply wf_word_intro.
  - subst clean2. discriminate.
  - subst clean2. rewrite Ec in Hhd. exact Hhd.
  - apply nows_of_Forall. rewrite Ew, Ec in Hw.
    apply Forall_app in Hw. destruct Hw as [_ Hw].
    apply Forall_app in Hw. destruct Hw as [Hw _]. exact Hw.
  - exact Hlast.
  - exact Eq.
Qed.

Lemma tokenize_wf x : Forall tok_wf (tokenize extra x).
Proof.
  unfold tokenize, words.
  pose proof (words_aux_nw x [] (Forall_nil _)) as Hn.
  induction (words_aux [] x) as [|w ws IH]; [constructor|].
  inversion Hn as [|? ? Hw Hws]; subst.
  cbn [flat_map]. apply Forall_app. split.
  - apply word_tokens_wf. exact Hw.
  - apply IH. exact Hws.
Qed.

(* trees built by the parser: And/Or nodes have at least two children *)
Definition list_wf (cs : list check) : Prop :=
  2 <= length cs /\ forallb (wf_tree extra) cs = true.
Definition item_wf (i : item leaf) : Prop :=
  match i with
  | ICheck c => wf_tree extra c = true
  | IAnd cs | IOr cs => list_wf cs
  end.

Lemma list_wf_and cs : list_wf cs -> wf_tree extra (CAnd cs) = true.
Proof.
  intros [Hl Ha]. rewrite wf_tree_and, Ha. apply Nat.leb_le in Hl. rewrite Hl. reflexivity.
Qed.
Lemma list_wf_or cs : list_wf cs -> wf_tree extra (COr cs) = true.
Proof.
  intros [Hl Ha]. rewrite wf_tree_or, Ha. apply Nat.leb_le in Hl. rewrite Hl. reflexivity.
Qed.
Lemma list_wf_two a c : wf_tree extra a = true -> wf_tree extra c = true -> list_wf [a; c].
Proof.
  intros Ha Hc. split; [cbn [length]; lia|]. cbn [forallb]. rewrite Ha, Hc. reflexivity.
Qed.
Lemma list_wf_snoc cs c : list_wf cs -> wf_tree extra c = true -> list_wf (cs ++ [c]).
Proof.
  intros [Hl Ha] Hc. split.
  - rewrite app_length. cbn [length]. lia.
  - rewrite forallb_app, Ha. cbn [forallb]. rewrite Hc. reflexivity.
Qed.

Lemma and_join_wf c1 c :
  wf_tree extra c1 = true -> wf_tree extra c = true -> wf_tree extra (and_join c1 c) = true.
Proof.
  intros H1 Hc. destruct c1 as [l|c'|cs|cs]; cbn [and_join];
    try (apply list_wf_and, list_wf_two; assumption).
  apply list_wf_and, list_wf_snoc; [|exact Hc].
  rewrite wf_tree_and in H1. apply andb_prop in H1. destruct H1 as [Hl Ha].
  apply Nat.leb_le in Hl. split; assumption.
Qed.

Lemma mix'_wf cs c : list_wf cs -> wf_tree extra c = true -> list_wf (mix' cs c).
Proof.
  intros Hcs Hc. unfold mix', mix. destruct (rev cs) as [|c1 r] eqn:E; [exact Hcs|].
  apply (f_equal (@rev check)) in E. rewrite rev_involutive in E. cbn [rev] in E. subst cs.
  destruct Hcs as [Hl Ha]. rewrite app_length in Hl. rewrite forallb_app in Ha.
  apply andb_prop in Ha. destruct Ha as [Hr H1]. cbn [forallb] in H1.
  rewrite andb_true_r in H1. split.
  - rewrite app_length. exact Hl.
  - rewrite forallb_app, Hr. cbn [forallb]. rewrite (and_join_wf c1 c H1 Hc). reflexivity.
Qed.

Lemma step_wf i b c : item_wf i -> wf_tree extra c = true -> item_wf (step i b c).
Proof.
  intros Hi Hc. destruct i as [a|cs|cs], b; cbn [step item_wf] in *.
  - apply list_wf_two; assumption.
  - apply list_wf_two; assumption.
  - apply list_wf_snoc; assumption.
  - apply list_wf_two; [apply list_wf_and; exact Hi|exact Hc].
  - apply mix'_wf; assumption.
  - apply list_wf_snoc; assumption.
Qed.

Lemma ival_wf i : item_wf i -> wf_tree extra (ival i) = true.
Proof.
  destruct i as [a|cs|cs]; cbn [item_wf ival]; intros H;
    [exact H|apply list_wf_and; exact H|apply list_wf_or; exact H].
Qed.

Lemma tree_wf_mut :
  (forall n : nunit leaf, Forall tok_wf (toks_n n) -> wf_tree extra (tree_n n) = true) /\
  (forall e : expr leaf, Forall tok_wf (toks e) -> item_wf (item_of e)).
Proof.
  apply nunit_expr_ind.
  - intros n IH H. rewrite toks_n_NNot in H. inversion H as [|? ? _ Hn]; subst.
    rewrite tree_n_NNot. cbn [wf_tree]. apply IH. exact Hn.
  - intros l H. rewrite toks_n_NLeaf in H. inversion H as [|? ? Hl _]; subst.
    rewrite tree_n_NLeaf. exact Hl.
  - intros e IH H. rewrite toks_n_NParen in H. inversion H as [|? ? _ He]; subst.
    apply Forall_app in He. destruct He as [He _].
    rewrite tree_n_NParen. apply ival_wf, IH. exact He.
  - intros n IH H. rewrite toks_E1 in H. rewrite item_of_E1. cbn [item_wf]. apply IH. exact H.
  - intros e IHe b n IHn H. rewrite toks_EBin in H. apply Forall_app in H.
    destruct H as [He Hn]. inversion Hn as [|? ? _ Hn']; subst.
    rewrite item_of_EBin. apply step_wf; [apply IHe; exact He|apply IHn; exact Hn'].
Qed.

Lemma tree_wf (e : expr leaf) : Forall tok_wf (toks e) -> wf_tree extra (tree e) = true.
Proof. intros H. unfold tree. apply ival_wf. apply (proj2 tree_wf_mut). exact H. Qed.

End Wf.

(* ------------------------------------------------------------------------------------------ *)
Theorem parse_produces_wf (extra : list (str * kcls)) (x : str) (c : check) :
  parse_text_rule extra x = PCheck c -> wf_tree extra c = true.
Proof.
  intros H. unfold parse_text_rule in H. destruct x as [|a x'].
  - inversion H; subst. cbn [wf_tree]. apply wf_leaf_true.
  - remember (a :: x') as x eqn:Ex.
    destruct (parse_tokens (tokenize extra x)) as [p|] eqn:E.
    + destruct (sound _ E) as (e & He & Hp). rewrite Hp in H. inversion H; subst c.
      apply tree_wf. rewrite He. apply tokenize_wf.
    + inversion H; subst. cbn [wf_tree]. apply wf_leaf_false.
Qed.

Theorem print_parse_fixed_point (extra : list (str * kcls)) (x : str) (c : check) :
  parse_text_rule extra x = PCheck c -> parse_text_rule extra (print c) = PCheck c.
Proof. intros H. apply print_parse. exact (parse_produces_wf extra x c H). Qed.

Print Assumptions print_parse.
Print Assumptions print_injective.
Print Assumptions parse_produces_wf.
Print Assumptions print_parse_fixed_point.
