(* The stratified (documented) grammar and the flat chain used by the parser proofs agree:
   same tokens, same meaning. *)
From Coq Require Import List Bool Arith Lia.
From OP Require Import Base.Check Base.ParserTypes Model.SR Spec.Grammar.
Import ListNotations.
Set Implicit Arguments.

Section Flatten.
Variable leaf : Type.
Variable env : leaf -> bool.
Notation oexp := (oexp leaf). Notation aexp := (aexp leaf). Notation nexp := (nexp leaf).
Notation expr := (expr leaf). Notation nunit := (nunit leaf).

Definition den2_pre (pre : option expr) (v : bool) : bool * bool :=
  match pre with
  | None => (false, v)
  | Some e => let (d, c) := den2 env e in (d || c, v)
  end.

Lemma flat_den :
  (forall o : oexp, den env (flat_o o) = den_o env o) /\
  (forall (a : aexp) pre, den2 env (flat_a pre a) = den2_pre pre (den_a env a)) /\
  (forall n : nexp, den_n env (flat_x n) = den_x env n).
Proof.
  apply oan_ind.
  - intros a IH. change (flat_o (OA a)) with (flat_a None a). unfold den. rewrite IH.
    reflexivity.
  - intros o IHo a IHa. change (flat_o (OOr o a)) with (flat_a (Some (flat_o o)) a).
    unfold den in *. rewrite IHa. cbn [den2_pre].
    change (den_o env (OOr o a)) with (den_o env o || den_a env a).
    destruct (den2 env (flat_o o)) as [d c]. now rewrite IHo.
  - intros n IH pre. change (den_a env (AN n)) with (den_x env n).
    destruct pre as [e|].
    + change (flat_a (Some e) (AN n)) with (EBin e false (flat_x n)).
      rewrite den2_EBin. cbn [den2_pre]. destruct (den2 env e). now rewrite IH.
    + change (flat_a None (AN n)) with (E1 (flat_x n)). rewrite den2_E1. now rewrite IH.
  - intros a IHa n IHn pre.
    change (flat_a pre (AAnd a n)) with (EBin (flat_a pre a) true (flat_x n)).
    change (den_a env (AAnd a n)) with (den_a env a && den_x env n).
    rewrite den2_EBin, IHa, IHn. destruct pre as [e|]; cbn [den2_pre]; [|reflexivity].
    destruct (den2 env e); reflexivity.
  - intros n IH. change (flat_x (XNot n)) with (NNot (flat_x n)). rewrite den_n_NNot.
    now rewrite IH.
  - intros l. reflexivity.
  - intros o IH. change (flat_x (XParen o)) with (NParen (flat_o o)). rewrite den_n_NParen.
    exact IH.
Qed.

Theorem den_flatten (o : oexp) : den env (flat_o o) = den_o env o.
Proof. apply flat_den. Qed.

Definition toks_pre (pre : option expr) (ts : list (token leaf)) : list (token leaf) :=
  match pre with None => ts | Some e => toks e ++ TOr :: ts end.

Lemma flat_toks :
  (forall o : oexp, toks (flat_o o) = toks_o o) /\
  (forall (a : aexp) pre, toks (flat_a pre a) = toks_pre pre (toks_a a)) /\
  (forall n : nexp, toks_n (flat_x n) = toks_x n).
Proof.
  apply oan_ind.
  - intros a IH. change (flat_o (OA a)) with (flat_a None a). now rewrite IH.
  - intros o IHo a IHa. change (flat_o (OOr o a)) with (flat_a (Some (flat_o o)) a).
    rewrite IHa. cbn [toks_pre]. now rewrite IHo.
  - intros n IH pre. destruct pre as [e|].
    + change (flat_a (Some e) (AN n)) with (EBin e false (flat_x n)).
      rewrite toks_EBin. cbn [toks_pre]. now rewrite IH.
    + change (flat_a None (AN n)) with (E1 (flat_x n)). rewrite toks_E1. now rewrite IH.
  - intros a IHa n IHn pre.
    change (flat_a pre (AAnd a n)) with (EBin (flat_a pre a) true (flat_x n)).
    rewrite toks_EBin, IHa, IHn.
    change (toks_a (AAnd a n)) with (toks_a a ++ TAnd :: toks_x n).
    destruct pre as [e|]; cbn [toks_pre]; [|reflexivity].
    rewrite <- app_assoc. reflexivity.
  - intros n IH. change (flat_x (XNot n)) with (NNot (flat_x n)). rewrite toks_n_NNot.
    now rewrite IH.
  - intros l. reflexivity.
  - intros o IH. change (flat_x (XParen o)) with (NParen (flat_o o)). rewrite toks_n_NParen.
    now rewrite IH.
Qed.

Theorem toks_flatten (o : oexp) : toks (flat_o o) = toks_o o.
Proof. apply flat_toks. Qed.

End Flatten.
