From Coq Require Import String List Bool NArith.
From OP Require Import Base.Str Base.Check Base.ParserTypes Base.Res Base.Json
                       Model.Leaf Model.Tokenize Model.Eval Model.Trace Model.Http.
Import ListNotations.
Set Implicit Arguments.

Definition cur_text (cur : option str) : str := match cur with Some c => c | None => [] end.

(* a remote check allows only on a reply, and only if the reply body is accepted *)
Theorem only_reply_allows w k m cur :
  http_check w k m cur = Ok true ->
  exists url body, subst (k ++ [colon] ++ m) (w_target w) = Ok url /\
                   w_http w url (cur_text cur) = HReply body /\ accept body = true.
Proof.
  unfold http_check, cur_text. destruct (subst (k ++ [colon] ++ m) (w_target w)) as [url|e|]; try discriminate.
  destruct (w_http w url _) as [body| |e] eqn:H; try discriminate.
  intros E. inversion E. eauto.
Qed.

Theorem timeout_raises w k m cur url :
  subst (k ++ [colon] ++ m) (w_target w) = Ok url -> w_http w url (cur_text cur) = HTimeout ->
  http_check w k m cur = Raise ERuntimeError.
Proof. unfold http_check, cur_text. intros -> ->. reflexivity. Qed.

Theorem fault_raises w k m cur url e :
  subst (k ++ [colon] ++ m) (w_target w) = Ok url -> w_http w url (cur_text cur) = HFault e ->
  http_check w k m cur = Raise e.
Proof. unfold http_check, cur_text. intros -> ->. reflexivity. Qed.

Theorem reply_decides w k m cur url body :
  subst (k ++ [colon] ++ m) (w_target w) = Ok url -> w_http w url (cur_text cur) = HReply body ->
  http_check w k m cur = Ok (accept body).
Proof. unfold http_check, cur_text. intros -> ->. reflexivity. Qed.

(* the payload carries the enforced policy name, the complete target (same keys, opaque objects
   blanked, everything else untouched) and the credentials, in the configured encoding *)
Theorem payload_fields form cur tgt creds :
  construct_payload form cur tgt creds =
  (if form then PForm else PJson)
    (match cur with Some n => JStr n | None => JNull end) (blank_target tgt) creds.
Proof. unfold construct_payload. destruct form; reflexivity. Qed.

Theorem blank_target_keys kvs : keys (match blank_target (JDict kvs) with JDict l => l | _ => [] end) = keys kvs.
Proof.
  cbn [blank_target]. unfold keys. rewrite map_map. apply map_ext. intros [k v]. destruct v; reflexivity.
Qed.

Theorem blank_target_value kvs k v :
  In (k, v) kvs ->
  In (k, match v with JObj _ => JDict [] | _ => v end)
     (match blank_target (JDict kvs) with JDict l => l | _ => [] end).
Proof.
  intros H. cbn [blank_target]. apply in_map_iff. exists (k, v). split; [|exact H].
  destruct v; reflexivity.
Qed.
