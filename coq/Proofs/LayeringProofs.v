(* C09 / C11 / C12: the load_rules model against the documented layering. *)
From Coq Require Import String List Bool NArith Lia.
From OP Require Import Base.Str Base.Check Base.ParserTypes Base.Res Base.Json Base.DTree
                       Gen.GPolicy Model.Leaf Model.Tokenize Model.Print Model.Eval Model.Load
                       Spec.Layering.
Import ListNotations.

(* ------------------------------------------------------------------ *)
(* C11                                                                 *)
(* ------------------------------------------------------------------ *)
Theorem handle_deprecated_spec (cf : lconf) (st : est) (d : rdef) (dp : deprec) :
  assoc (rd_name d) (e_file_rules st) = None ->
  handle_deprecated cf st d dp
  = spec_deprecated cf (fun n => assoc n (e_file_rules st)) d dp.
Proof.
  intros Hnew.
  unfold handle_deprecated, spec_deprecated.
  assert (E : forall a, deprecated_env cf st d dp a =
     match a with
     | 0%N => Some (str_eqb (dp_name dp) (rd_name d))
     | 1%N => Some (match assoc (dp_name dp) (e_file_rules st) with Some _ => true | None => false end)
     | 2%N => Some false
     | 3%N => match assoc (dp_name dp) (e_file_rules st) with
              | Some c => Some (str_eqb (print c) (s "rule:" ++ rd_name d))
              | None => None end
     | 4%N => Some false
     | 5%N => Some (c_enforce_new_defaults cf)
     | 6%N => Some (str_eqb (dp_check_str dp) (rd_check_str d))
     | 7%N => Some false
     | 8%N => Some false
     | _ => None
     end).
  { intros a. unfold deprecated_env, has_key. rewrite Hnew. reflexivity. }
  destruct (str_eqb (dp_name dp) (rd_name d)) eqn:E0;
  destruct (assoc (dp_name dp) (e_file_rules st)) as [c|] eqn:E1;
  try destruct (str_eqb (print c) (s "rule:" ++ rd_name d)) eqn:E3;
  destruct (c_enforce_new_defaults cf) eqn:E5;
  destruct (str_eqb (dp_check_str dp) (rd_check_str d)) eqn:E6;
  cbv [deprecated_tree DTree.run ceval]; rewrite ?E; cbn [negb andb orb];
  rewrite ?E0, ?E1, ?E3, ?E5, ?E6; reflexivity.
Qed.

(* ------------------------------------------------------------------ *)
(* dict.update = last writer wins                                      *)
(* ------------------------------------------------------------------ *)
Section Maps.
Context {A : Type}.
Implicit Types (l base new : list (str * A)).

Lemma assoc_update n new : forall base,
  assoc n (update base new)
  = match last_binding n new with Some v => Some v | None => assoc n base end.
Proof.
  unfold update.
  induction new as [|[k v] new IH]; intros base; cbn [fold_left last_binding fst snd].
  - reflexivity.
  - rewrite IH. destruct (last_binding n new) as [w|]; [reflexivity|].
    destruct (str_eqb k n) eqn:E.
    + apply str_eqb_eq in E. subst k. apply assoc_dset_same.
    + apply assoc_dset_other. now apply str_eqb_neq.
Qed.

Lemma last_binding_app n (a b : list (str * A)) :
  last_binding n (a ++ b)
  = match last_binding n b with Some v => Some v | None => last_binding n a end.
Proof.
  induction a as [|[k v] a IH]; cbn [app last_binding].
  - destruct (last_binding n b); reflexivity.
  - rewrite IH. destruct (last_binding n b); reflexivity.
Qed.

Lemma keys_dset k (v : A) l x : In x (keys (dset k v l)) <-> x = k \/ In x (keys l).
Proof.
  rewrite <- !assoc_In_keys. destruct (str_dec k x) as [->|Hn].
  - rewrite assoc_dset_same. split; eauto.
  - rewrite (assoc_dset_other v l Hn). split; [eauto|]. intros [->|H]; [congruence|exact H].
Qed.

Lemma dset_nodup k (v : A) l : NoDup (keys l) -> NoDup (keys (dset k v l)).
Proof.
  induction l as [|[k' v'] r IH]; cbn [dset keys map fst]; intros H.
  - constructor; [intros []|constructor].
  - inversion H as [|? ? Hni Hr]; subst. destruct (str_eqb k' k) eqn:E; cbn [map fst].
    + constructor; assumption.
    + constructor; [|apply IH; exact Hr].
      fold (keys (dset k v r)). rewrite keys_dset. intros [->|Hin].
      * rewrite str_eqb_refl in E. discriminate.
      * apply Hni. exact Hin.
Qed.

Lemma update_nodup new : forall base, NoDup (keys base) -> NoDup (keys (update base new)).
Proof.
  unfold update. induction new as [|p new IH]; intros base H; cbn [fold_left].
  - exact H.
  - apply IH. apply dset_nodup. exact H.
Qed.

Lemma last_binding_None_keys n l : ~ In n (keys l) -> last_binding n l = None.
Proof.
  induction l as [|[k v] r IH]; cbn [keys map fst last_binding In]; intros H.
  - reflexivity.
  - fold (keys r) in H. rewrite IH by tauto.
    destruct (str_eqb k n) eqn:E; [|reflexivity]. apply str_eqb_eq in E. tauto.
Qed.

Lemma nodup_last_assoc n l : NoDup (keys l) -> last_binding n l = assoc n l.
Proof.
  induction l as [|[k v] r IH]; cbn [keys map fst last_binding assoc]; intros H.
  - reflexivity.
  - inversion H as [|? ? Hni Hr]; subst. fold (keys r) in Hni, Hr.
    destruct (str_eqb k n) eqn:E.
    + apply str_eqb_eq in E. subst k. now rewrite last_binding_None_keys.
    + rewrite IH by exact Hr. destruct (assoc n r); reflexivity.
Qed.

(* updating with a dict built by update is updating with the raw bindings *)
Lemma assoc_update_dict n base new :
  assoc n (update base (update [] new))
  = match last_binding n new with Some v => Some v | None => assoc n base end.
Proof.
  rewrite assoc_update, nodup_last_assoc by (apply update_nodup; constructor).
  rewrite assoc_update. cbn [assoc]. destruct (last_binding n new); reflexivity.
Qed.
End Maps.

Lemma last_binding_parse n (ct : content) :
  last_binding n (parse_content ct)
  = match last_binding n ct with Some v => Some (parse_value v) | None => None end.
Proof.
  unfold parse_content.
  induction ct as [|[k v] r IH]; cbn [map last_binding fst snd]; [reflexivity|].
  rewrite IH. destruct (last_binding n r); [reflexivity|]. destruct (str_eqb k n); reflexivity.
Qed.

(* ------------------------------------------------------------------ *)
(* layers                                                              *)
(* ------------------------------------------------------------------ *)
Definition layer (n : str) (ct : content) (prev : option check) : option check :=
  match last_binding n ct with Some v => Some (parse_value v) | None => prev end.

Lemma layer_app n a b prev : layer n (a ++ b) prev = layer n b (layer n a prev).
Proof.
  unfold layer. rewrite last_binding_app. destruct (last_binding n b); reflexivity.
Qed.

Lemma assoc_parsed_over n base ct :
  assoc n (update base (update [] (parse_content ct))) = layer n ct (assoc n base).
Proof.
  rewrite assoc_update_dict, last_binding_parse. unfold layer.
  destruct (last_binding n ct); reflexivity.
Qed.

Lemma assoc_parsed n ct : assoc n (update [] (parse_content ct)) = layer n ct None.
Proof.
  rewrite assoc_update, last_binding_parse. unfold layer. cbn [assoc].
  destruct (last_binding n ct); reflexivity.
Qed.

Lemma fold_layer {X} (pj : est -> store) (f : est -> X -> est) (g : X -> content) :
  (forall st x n, assoc n (pj (f st x)) = layer n (g x) (assoc n (pj st))) ->
  forall l st n, assoc n (pj (fold_left f l st)) = layer n (flat_map g l) (assoc n (pj st)).
Proof.
  intros Hf. induction l as [|x l IH]; intros st n; cbn [fold_left flat_map].
  - reflexivity.
  - rewrite IH, Hf, layer_app. reflexivity.
Qed.

Lemma fold_frame {X B} (pj : est -> B) (f : est -> X -> est) :
  (forall st x, pj (f st x) = pj st) -> forall l st, pj (fold_left f l st) = pj st.
Proof.
  intros Hf. induction l as [|x l IH]; intros st; cbn [fold_left]; [reflexivity|].
  now rewrite IH, Hf.
Qed.

Definition dir_bindings (d : pdir) : content :=
  flat_map (fun p => pf_content (snd p)) (walk_files d).
Definition dirs_bindings (ds : list pdir) : content := flat_map dir_bindings ds.

Lemma walk_dir_rules st d n :
  assoc n (e_rules (walk_dir st d)) = layer n (dir_bindings d) (assoc n (e_rules st)).
Proof.
  unfold walk_dir, dir_bindings.
  apply (fold_layer e_rules (fun acc p => apply_file acc (pf_content (snd p)) false)
           (fun p : str * pfile => pf_content (snd p))).
  intros st' x n'. cbn [apply_file e_rules]. apply assoc_parsed_over.
Qed.
Lemma walk_dir_frules st d n :
  assoc n (e_file_rules (walk_dir st d)) = layer n (dir_bindings d) (assoc n (e_file_rules st)).
Proof.
  unfold walk_dir, dir_bindings.
  apply (fold_layer e_file_rules (fun acc p => apply_file acc (pf_content (snd p)) false)
           (fun p : str * pfile => pf_content (snd p))).
  intros st' x n'. cbn [apply_file e_file_rules]. apply assoc_parsed_over.
Qed.
Lemma walk_dirs_rules ds st n :
  assoc n (e_rules (fold_left walk_dir ds st)) = layer n (dirs_bindings ds) (assoc n (e_rules st)).
Proof. apply (fold_layer e_rules walk_dir dir_bindings). intros; apply walk_dir_rules. Qed.
Lemma walk_dirs_frules ds st n :
  assoc n (e_file_rules (fold_left walk_dir ds st))
  = layer n (dirs_bindings ds) (assoc n (e_file_rules st)).
Proof. apply (fold_layer e_file_rules walk_dir dir_bindings). intros; apply walk_dir_frules. Qed.

(* ------------------------------------------------------------------ *)
(* frames: what the stages leave alone                                 *)
(* ------------------------------------------------------------------ *)
Lemma walk_dir_pk st d : e_path_known (walk_dir st d) = e_path_known st.
Proof. unfold walk_dir. apply (fold_frame e_path_known). reflexivity. Qed.
Lemma walk_dir_mc st d : e_mcache (walk_dir st d) = e_mcache st.
Proof. unfold walk_dir. apply (fold_frame e_mcache). reflexivity. Qed.
Lemma walk_dir_dm st d : e_dmtimes (walk_dir st d) = e_dmtimes st.
Proof. unfold walk_dir. apply (fold_frame e_dmtimes). reflexivity. Qed.
Lemma walk_dir_uc st d : e_use_conf st = true -> e_use_conf (walk_dir st d) = true.
Proof.
  unfold walk_dir. generalize (walk_files d) as l. intros l. revert st.
  induction l as [|x l IH]; intros st H; cbn [fold_left]; [exact H|]. apply IH. reflexivity.
Qed.
Lemma walk_dirs_pk ds st : e_path_known (fold_left walk_dir ds st) = e_path_known st.
Proof. apply (fold_frame e_path_known). apply walk_dir_pk. Qed.
Lemma walk_dirs_mc ds st : e_mcache (fold_left walk_dir ds st) = e_mcache st.
Proof. apply (fold_frame e_mcache). apply walk_dir_mc. Qed.
Lemma walk_dirs_dm ds st : e_dmtimes (fold_left walk_dir ds st) = e_dmtimes st.
Proof. apply (fold_frame e_dmtimes). apply walk_dir_dm. Qed.
Lemma walk_dirs_uc ds : forall st, e_use_conf st = true -> e_use_conf (fold_left walk_dir ds st) = true.
Proof.
  induction ds as [|d ds IH]; intros st H; cbn [fold_left]; [exact H|].
  apply IH. now apply walk_dir_uc.
Qed.

Definition dstep (cf : lconf) (acc : est) (d : rdef) : est :=
  if has_key (rd_name d) (e_rules acc) then acc
  else
    let chk := match rd_dep d with
               | Some dp => handle_deprecated cf acc d dp
               | None => rd_check d end in
    {| e_rules := dset (rd_name d) chk (e_rules acc); e_file_rules := e_file_rules acc;
       e_path_known := e_path_known acc; e_mcache := e_mcache acc;
       e_dmtimes := e_dmtimes acc; e_use_conf := e_use_conf acc |}.
Lemma add_defaults_fold cf st : add_defaults cf st = fold_left (dstep cf) (c_registered cf) st.
Proof. reflexivity. Qed.

Lemma dstep_frame {B} (pj : est -> B) :
  (forall r fr pk mc dm uc r', pj (Build_est r fr pk mc dm uc) = pj (Build_est r' fr pk mc dm uc)) ->
  forall cf st d, pj (dstep cf st d) = pj st.
Proof.
  intros H cf st d. unfold dstep. destruct (has_key (rd_name d) (e_rules st)); [reflexivity|].
  destruct st as [r fr pk mc dm uc]; cbn [e_rules e_file_rules e_path_known e_mcache e_dmtimes e_use_conf]. apply H.
Qed.
Lemma add_defaults_fr cf st : e_file_rules (add_defaults cf st) = e_file_rules st.
Proof. rewrite add_defaults_fold. apply (fold_frame e_file_rules). intros; now apply dstep_frame. Qed.
Lemma add_defaults_pk cf st : e_path_known (add_defaults cf st) = e_path_known st.
Proof. rewrite add_defaults_fold. apply (fold_frame e_path_known). intros; now apply dstep_frame. Qed.
Lemma add_defaults_mc cf st : e_mcache (add_defaults cf st) = e_mcache st.
Proof. rewrite add_defaults_fold. apply (fold_frame e_mcache). intros; now apply dstep_frame. Qed.
Lemma add_defaults_dm cf st : e_dmtimes (add_defaults cf st) = e_dmtimes st.
Proof. rewrite add_defaults_fold. apply (fold_frame e_dmtimes). intros; now apply dstep_frame. Qed.
Lemma add_defaults_uc cf st : e_use_conf (add_defaults cf st) = e_use_conf st.
Proof. rewrite add_defaults_fold. apply (fold_frame e_use_conf). intros; now apply dstep_frame. Qed.

(* ------------------------------------------------------------------ *)
(* the registered-defaults loop                                        *)
(* ------------------------------------------------------------------ *)
Definition chk_of (cf : lconf) (F : store) (d : rdef) : check :=
  match rd_dep d with
  | Some dp => spec_deprecated cf (fun n => assoc n F) d dp
  | None => rd_check d end.

(* every key of file_rules is a key of rules *)
Definition fr_sub (st : est) : Prop :=
  forall k, assoc k (e_rules st) = None -> assoc k (e_file_rules st) = None.

Lemma has_key_true {A} k (l : list (str * A)) : has_key k l = true <-> exists v, assoc k l = Some v.
Proof. unfold has_key. destruct (assoc k l); split; eauto; try discriminate. intros (v & H). discriminate. Qed.
Lemma has_key_false {A} k (l : list (str * A)) : has_key k l = false <-> assoc k l = None.
Proof. unfold has_key. destruct (assoc k l); split; congruence. Qed.

Lemma dstep_cases cf st d : fr_sub st ->
  (has_key (rd_name d) (e_rules st) = true /\ dstep cf st d = st) \/
  (assoc (rd_name d) (e_rules st) = None /\
   e_rules (dstep cf st d) = dset (rd_name d) (chk_of cf (e_file_rules st) d) (e_rules st) /\
   e_file_rules (dstep cf st d) = e_file_rules st).
Proof.
  intros Hsub. unfold dstep. destruct (has_key (rd_name d) (e_rules st)) eqn:Hk; [left; auto|].
  right. apply has_key_false in Hk. split; [exact Hk|]. cbn [e_rules e_file_rules]. split; [|reflexivity].
  f_equal. unfold chk_of. destruct (rd_dep d) as [dp|]; [|reflexivity].
  apply handle_deprecated_spec. apply Hsub. exact Hk.
Qed.

Lemma defaults_assoc cf n : forall regs st, fr_sub st ->
  assoc n (e_rules (fold_left (dstep cf) regs st)) =
  match assoc n (e_rules st) with
  | Some c => Some c
  | None => match find_default n regs with
            | Some d => Some (chk_of cf (e_file_rules st) d)
            | None => None end
  end.
Proof.
  induction regs as [|d regs IH]; intros st Hsub; cbn [fold_left find_default].
  - destruct (assoc n (e_rules st)); reflexivity.
  - destruct (@dstep_cases cf st d Hsub) as [(Hk & E)|(Hk & Er & Ef)].
    + rewrite E, (IH st Hsub). destruct (assoc n (e_rules st)) eqn:En; [reflexivity|].
      destruct (str_eqb (rd_name d) n) eqn:Ed; [|reflexivity].
      apply str_eqb_eq in Ed. subst n. apply has_key_true in Hk. destruct Hk as (v & Hv). congruence.
    + assert (Hsub' : fr_sub (dstep cf st d)).
      { intros k Hkk. rewrite Ef. apply Hsub. rewrite Er in Hkk.
        destruct (str_dec (rd_name d) k) as [<-|Hne].
        - rewrite assoc_dset_same in Hkk. discriminate.
        - now rewrite assoc_dset_other in Hkk by exact Hne. }
      rewrite (IH _ Hsub'), Er, Ef.
      destruct (str_eqb (rd_name d) n) eqn:Ed.
      * apply str_eqb_eq in Ed. subst n. rewrite assoc_dset_same, Hk. reflexivity.
      * apply str_eqb_neq in Ed. rewrite assoc_dset_other by exact Ed. reflexivity.
Qed.

Lemma spec_deprecated_ext cf f g d dp :
  (forall n, f n = g n) -> spec_deprecated cf f d dp = spec_deprecated cf g d dp.
Proof. intros H. unfold spec_deprecated. rewrite H. reflexivity. Qed.

(* ------------------------------------------------------------------ *)
(* C09: the fresh load                                                 *)
(* ------------------------------------------------------------------ *)
Definition main_content (fs : fsys) : content :=
  match fs_main fs with Some f => pf_content f | None => [] end.

(* The exact condition under which a fresh enforcer without a main policy file looks into its
   policy directories at all: _is_directory_updated compares against a cached mtime defaulting
   to 0, so a directory whose newest mtime is 0 is never seen as updated. *)
Definition dirs_seen (fs : fsys) : Prop :=
  fs_main fs = None ->
  existing (fs_dirs fs) = [] \/ fst (dirs_updated (fs_dirs fs) []) = true.

(* the natural sufficient condition: directory timestamps are after the epoch *)
Definition mtimes_pos (fs : fsys) : Prop :=
  forall pd, In (Some pd) (fs_dirs fs) -> (0 < pd_mtime pd)%N.

Lemma newest_ge pd : (pd_mtime pd <= newest pd)%N.
Proof.
  unfold newest. generalize (pd_mtime pd) as m. induction (pd_entries pd) as [|p l IH]; intros m;
    cbn [fold_left]; [lia|].
  etransitivity; [|apply IH]. lia.
Qed.

Lemma mtimes_pos_seen fs : mtimes_pos fs -> dirs_seen fs.
Proof.
  unfold mtimes_pos, dirs_seen. intros H _. induction (fs_dirs fs) as [|d ds IH].
  - left. reflexivity.
  - cbn [dirs_updated hd tl existing flat_map]. destruct d as [pd|].
    + right. destruct (dirs_updated ds []) as [u c'].
      assert (Hp : (0 <? newest pd)%N = true).
      { apply N.ltb_lt. pose proof (newest_ge pd). specialize (H pd (or_introl eq_refl)). lia. }
      rewrite Hp. reflexivity.
    + cbn [app]. destruct IH as [IH|IH].
      * intros pd Hin. apply H. right. exact Hin.
      * left. exact IH.
      * right. destruct (dirs_updated ds []) as [u c']. exact IH.
Qed.

Ltac red_load :=
  cbv beta iota zeta delta [load_rules load_main read_main with_path_known with_dmtimes reset_rules
    apply_file init_state e_rules e_file_rules e_path_known e_mcache e_dmtimes e_use_conf
    orb negb andb fst snd].

Lemma fresh_shape cf fs : c_overwrite cf = true -> dirs_seen fs ->
  exists pk mc dm,
    load_rules cf init_state fs false
    = add_defaults cf (fold_left walk_dir (existing (fs_dirs fs))
        (Build_est (update [] (parse_content (main_content fs)))
                   (update [] (parse_content (main_content fs))) pk mc dm true)).
Proof.
  intros Hov Hseen. unfold dirs_seen, main_content in *. red_load.
  destruct (fs_main fs) as [f|]; red_load; rewrite Hov; red_load.
  - destruct (dirs_updated (fs_dirs fs) []) as [upd dm]. red_load.
    do 3 eexists. destruct (existing (fs_dirs fs)); reflexivity.
  - destruct (dirs_updated (fs_dirs fs) []) as [upd dm]. red_load.
    do 3 eexists. destruct (Hseen eq_refl) as [E|E].
    + rewrite E. destruct upd; reflexivity.
    + cbn [fst] in E. rewrite E. destruct (existing (fs_dirs fs)); reflexivity.
Qed.

Definition walked (fs : fsys) (pk : bool) (mc : option (N * content)) (dm : list (option N)) : est :=
  fold_left walk_dir (existing (fs_dirs fs))
    (Build_est (update [] (parse_content (main_content fs)))
               (update [] (parse_content (main_content fs))) pk mc dm true).

Lemma file_def_layers fs n :
  file_def fs n = layer n (dirs_bindings (existing (fs_dirs fs))) (layer n (main_content fs) None).
Proof.
  unfold file_def.
  change (file_bindings fs) with (main_content fs ++ dirs_bindings (existing (fs_dirs fs))).
  rewrite <- layer_app. reflexivity.
Qed.

Lemma walked_rules fs pk mc dm n : assoc n (e_rules (walked fs pk mc dm)) = file_def fs n.
Proof.
  unfold walked. rewrite walk_dirs_rules. cbn [e_rules]. rewrite assoc_parsed.
  symmetry. apply file_def_layers.
Qed.
Lemma walked_frules fs pk mc dm n : assoc n (e_file_rules (walked fs pk mc dm)) = file_def fs n.
Proof.
  unfold walked. rewrite walk_dirs_frules. cbn [e_file_rules]. rewrite assoc_parsed.
  symmetry. apply file_def_layers.
Qed.

(* The stated theorems need one extra hypothesis, [dirs_seen] (implied by [mtimes_pos]); see the
   counterexample [fresh_load_spec_needs_dirs_seen] below.  [regs_nodup] is not needed: with a
   duplicated registration the first one wins in both the model and [find_default]. *)
Theorem fresh_file_rules (cf : lconf) (fs : fsys) (n : str) :
  c_overwrite cf = true -> dirs_seen fs ->
  assoc n (e_file_rules (load_rules cf init_state fs false)) = file_def fs n.
Proof.
  intros Hov Hseen. destruct (fresh_shape cf fs Hov Hseen) as (pk & mc & dm & E). rewrite E.
  rewrite add_defaults_fr. apply walked_frules.
Qed.

Theorem fresh_load_spec_strong (cf : lconf) (fs : fsys) (n : str) :
  c_overwrite cf = true -> dirs_seen fs ->
  assoc n (e_rules (load_rules cf init_state fs false)) = spec_rule cf fs n.
Proof.
  intros Hov Hseen. destruct (fresh_shape cf fs Hov Hseen) as (pk & mc & dm & E). rewrite E.
  fold (walked fs pk mc dm). rewrite add_defaults_fold, defaults_assoc.
  - rewrite walked_rules. unfold spec_rule. destruct (file_def fs n); [reflexivity|].
    destruct (find_default n (c_registered cf)) as [d|]; [|reflexivity].
    f_equal. unfold chk_of. destruct (rd_dep d) as [dp|]; [|reflexivity].
    apply spec_deprecated_ext. intros k. apply walked_frules.
  - intros k. rewrite walked_rules, walked_frules. auto.
Qed.

Theorem fresh_load_spec (cf : lconf) (fs : fsys) (n : str) :
  c_overwrite cf = true -> regs_nodup cf -> dirs_seen fs ->
  assoc n (e_rules (load_rules cf init_state fs false)) = spec_rule cf fs n.
Proof. intros Hov _ Hseen. now apply fresh_load_spec_strong. Qed.

Corollary fresh_load_spec_pos (cf : lconf) (fs : fsys) (n : str) :
  c_overwrite cf = true -> regs_nodup cf -> mtimes_pos fs ->
  assoc n (e_rules (load_rules cf init_state fs false)) = spec_rule cf fs n.
Proof. intros Hov _ Hp. apply fresh_load_spec_strong; [exact Hov|now apply mtimes_pos_seen]. Qed.

Corollary fresh_file_rules_pos (cf : lconf) (fs : fsys) (n : str) :
  c_overwrite cf = true -> mtimes_pos fs ->
  assoc n (e_file_rules (load_rules cf init_state fs false)) = file_def fs n.
Proof. intros Hov Hp. apply fresh_file_rules; [exact Hov|now apply mtimes_pos_seen]. Qed.

(* Why [dirs_seen]: no main policy file and one policy directory all of whose mtimes are 0.  The
   fresh enforcer never walks the directory, the documented layering does. *)
Definition cex_cf : lconf := {| c_enforce_new_defaults := true; c_registered := []; c_overwrite := true |}.
Definition cex_fs : fsys :=
  {| fs_main := None;
     fs_dirs := [Some {| pd_mtime := 0;
                         pd_entries := [([], EFile {| pf_mtime := 0; pf_content := [([], JNull)] |})] |}] |}.
Example fresh_load_spec_needs_dirs_seen :
  c_overwrite cex_cf = true /\ regs_nodup cex_cf /\
  assoc [] (e_rules (load_rules cex_cf init_state cex_fs false)) = None /\
  assoc [] (e_file_rules (load_rules cex_cf init_state cex_fs false)) = None /\
  spec_rule cex_cf cex_fs [] = Some (parse_value JNull) /\
  file_def cex_fs [] = Some (parse_value JNull).
Proof. repeat split; try (vm_compute; reflexivity). constructor. Qed.

(* ------------------------------------------------------------------ *)
(* C12: loading again                                                  *)
(* ------------------------------------------------------------------ *)
Lemma dirs_updated_idem ds : forall c,
  dirs_updated ds (snd (dirs_updated ds c)) = (false, snd (dirs_updated ds c)).
Proof.
  induction ds as [|d ds IH]; intros c; cbn [dirs_updated]; [reflexivity|].
  specialize (IH (tl c)). destruct (dirs_updated ds (tl c)) as [u c'] eqn:E. cbn [snd] in IH.
  destruct d as [pd|].
  - destruct (match hd None c with Some t => t | None => 0 end <? newest pd)%N eqn:El;
      cbn [snd dirs_updated hd tl]; rewrite IH.
    + rewrite N.ltb_irrefl. reflexivity.
    + rewrite El. reflexivity.
  - cbn [snd dirs_updated hd tl]. rewrite IH. reflexivity.
Qed.

Lemma dstep_has_key cf st d k :
  has_key k (e_rules st) = true -> has_key k (e_rules (dstep cf st d)) = true.
Proof.
  intros H. unfold dstep. destruct (has_key (rd_name d) (e_rules st)) eqn:Hk; [exact H|].
  cbn [e_rules]. destruct (str_dec (rd_name d) k) as [<-|Hne].
  - congruence.
  - unfold has_key in *. now rewrite assoc_dset_other by exact Hne.
Qed.
Lemma dsteps_has_key cf k : forall l st,
  has_key k (e_rules st) = true -> has_key k (e_rules (fold_left (dstep cf) l st)) = true.
Proof.
  induction l as [|d l IH]; intros st H; cbn [fold_left]; [exact H|].
  apply IH. now apply dstep_has_key.
Qed.
Lemma dsteps_has_all cf d : forall l st,
  In d l -> has_key (rd_name d) (e_rules (fold_left (dstep cf) l st)) = true.
Proof.
  induction l as [|d' l IH]; intros st Hin; cbn [fold_left]; [destruct Hin|].
  destruct Hin as [->|Hin]; [|now apply IH].
  apply dsteps_has_key. unfold dstep.
  destruct (has_key (rd_name d) (e_rules st)) eqn:Hk; [exact Hk|].
  cbn [e_rules]. unfold has_key. now rewrite assoc_dset_same.
Qed.
Lemma dsteps_id cf : forall l st,
  (forall d, In d l -> has_key (rd_name d) (e_rules st) = true) -> fold_left (dstep cf) l st = st.
Proof.
  induction l as [|d l IH]; intros st H; cbn [fold_left]; [reflexivity|].
  assert (E : dstep cf st d = st).
  { unfold dstep. now rewrite (H d (or_introl eq_refl)). }
  rewrite E. apply IH. intros d' Hd'. apply H. now right.
Qed.

Lemma nonempty_key {A} (l : list (str * A)) : l <> [] <-> exists k, has_key k l = true.
Proof.
  split.
  - destruct l as [|[k v] l]; [congruence|]. intros _. exists k. unfold has_key. cbn [assoc].
    now rewrite str_eqb_refl.
  - intros (k & Hk) ->. discriminate.
Qed.

Lemma walk_dirs_has_key ds st k :
  has_key k (e_rules st) = true -> has_key k (e_rules (fold_left walk_dir ds st)) = true.
Proof.
  unfold has_key. rewrite walk_dirs_rules. unfold layer.
  destruct (last_binding k (dirs_bindings ds)); [reflexivity|auto].
Qed.

Lemma built_nonempty cf ds st :
  e_rules st <> [] -> e_rules (add_defaults cf (fold_left walk_dir ds st)) <> [].
Proof.
  rewrite !nonempty_key. intros (k & Hk). exists k. rewrite add_defaults_fold.
  apply dsteps_has_key. now apply walk_dirs_has_key.
Qed.

Definition parsed (ct : content) : store := update [] (parse_content ct).

Lemma load_shape cf s fs : c_overwrite cf = true -> e_use_conf s = true ->
  let known := e_path_known s || match fs_main fs with Some _ => true | None => false end in
  let dm := snd (dirs_updated (fs_dirs fs) (e_dmtimes s)) in
  exists ds0 r fr mc,
    load_rules cf s fs false
    = add_defaults cf (fold_left walk_dir ds0 (Build_est r fr known mc dm true))
    /\ match fs_main fs with
       | Some f => exists cm cd, mc = Some (cm, cd) /\ (cm <? pf_mtime f)%N = false /\
                    (r <> [] \/ (ds0 = existing (fs_dirs fs) /\ r = parsed cd /\ fr = parsed cd))
       | None => known = true -> ds0 = existing (fs_dirs fs) /\ r = [] /\ fr = []
       end.
Proof.
  intros Hov Huc. destruct s as [r0 fr0 pk0 mc0 dm0 uc0]. cbn [e_use_conf] in Huc. subst uc0.
  red_load. rewrite !Hov.
  destruct (dirs_updated (fs_dirs fs) dm0) as [upd dm] eqn:Edu.
  destruct (fs_main fs) as [f|]; destruct pk0; red_load.
  1,2: destruct mc0 as [[cm cd]|]; [destruct (cm <? pf_mtime f)%N eqn:Elt|]; red_load.
  2,5: destruct r0 as [|p0 r0]; red_load.
  all: rewrite ?Edu; red_load.
  all: destruct upd; destruct (existing (fs_dirs fs)) as [|pd ds] eqn:Eds; red_load.
  all: first
    [ exists (@nil pdir); do 3 eexists; split; [reflexivity|]
    | exists (pd :: ds); do 3 eexists; split; [reflexivity|] ].
  all: try (intros Hk; first [discriminate Hk | repeat split; reflexivity]).
  all: do 2 eexists; split; [reflexivity|]; split; [first [exact Elt | apply N.ltb_irrefl]|].
  all: first [left; discriminate | right; repeat split; reflexivity].
Qed.

(* a state that a (non-forced) load leaves alone *)
Definition rebuilt_from (cf : lconf) (fs : fsys) (s1 : est) (ct : content) : Prop :=
  s1 = add_defaults cf (fold_left walk_dir (existing (fs_dirs fs))
         (Build_est (parsed ct) (parsed ct) (e_path_known s1) (e_mcache s1) (e_dmtimes s1) true)).

Record stable (cf : lconf) (fs : fsys) (s1 : est) : Prop := {
  st_uc : e_use_conf s1 = true;
  st_dm : dirs_updated (fs_dirs fs) (e_dmtimes s1) = (false, e_dmtimes s1);
  st_regs : forall d, In d (c_registered cf) -> has_key (rd_name d) (e_rules s1) = true;
  st_main : match fs_main fs with
            | Some f => e_path_known s1 = true /\
                        exists cm cd, e_mcache s1 = Some (cm, cd) /\ (cm <? pf_mtime f)%N = false /\
                                      (e_rules s1 = [] -> rebuilt_from cf fs s1 cd)
            | None => e_path_known s1 = true -> rebuilt_from cf fs s1 []
            end }.

Lemma stable_fix cf fs s1 : c_overwrite cf = true -> stable cf fs s1 -> load_rules cf s1 fs false = s1.
Proof.
  intros Hov [Huc Hdm Hregs Hmain]. unfold rebuilt_from in Hmain.
  destruct s1 as [r fr pk mc dm uc].
  cbn [e_use_conf e_dmtimes e_rules e_path_known e_mcache] in *. subst uc.
  assert (Hid : add_defaults cf (Build_est r fr pk mc dm true) = Build_est r fr pk mc dm true).
  { rewrite add_defaults_fold. apply dsteps_id. exact Hregs. }
  red_load. rewrite !Hov.
  destruct (fs_main fs) as [f|].
  - destruct Hmain as (-> & cm & cd & -> & Elt & Hre). red_load. rewrite Elt.
    destruct r as [|p0 r]; red_load; rewrite Hdm; red_load.
    + specialize (Hre eq_refl). rewrite Hre.
      destruct (existing (fs_dirs fs)); reflexivity.
    + exact Hid.
  - destruct pk; red_load; rewrite Hdm; red_load.
    + specialize (Hmain eq_refl). rewrite Hmain.
      destruct (existing (fs_dirs fs)); reflexivity.
    + exact Hid.
Qed.

Lemma first_stable cf s fs : c_overwrite cf = true -> e_use_conf s = true ->
  stable cf fs (load_rules cf s fs false).
Proof.
  intros Hov Huc. destruct (load_shape cf s fs Hov Huc) as (ds0 & r & fr & mc & E & Hm).
  cbv zeta in E, Hm. rewrite E.
  set (known := e_path_known s || match fs_main fs with Some _ => true | None => false end) in *.
  set (dm := snd (dirs_updated (fs_dirs fs) (e_dmtimes s))) in *.
  set (X := Build_est r fr known mc dm true) in *.
  assert (Fpk : e_path_known (add_defaults cf (fold_left walk_dir ds0 X)) = known)
    by now rewrite add_defaults_pk, walk_dirs_pk.
  assert (Fmc : e_mcache (add_defaults cf (fold_left walk_dir ds0 X)) = mc)
    by now rewrite add_defaults_mc, walk_dirs_mc.
  assert (Fdm : e_dmtimes (add_defaults cf (fold_left walk_dir ds0 X)) = dm)
    by now rewrite add_defaults_dm, walk_dirs_dm.
  split.
  - rewrite add_defaults_uc. now apply walk_dirs_uc.
  - rewrite Fdm. apply dirs_updated_idem.
  - intros d Hd. rewrite add_defaults_fold. now apply dsteps_has_all.
  - unfold rebuilt_from. rewrite Fpk, Fmc, Fdm. destruct (fs_main fs) as [f|].
    + destruct Hm as (cm & cd & -> & Elt & Hr). split.
      { subst known. apply orb_true_r. }
      exists cm, cd. split; [reflexivity|]. split; [exact Elt|]. intros Hnil.
      destruct Hr as [Hr|(-> & -> & ->)].
      * exfalso. revert Hnil. apply built_nonempty. exact Hr.
      * reflexivity.
    + intros Hk. destruct (Hm Hk) as (-> & Hr & Hfr). subst X. rewrite Hr, Hfr. reflexivity.
Qed.

Theorem load_idempotent (cf : lconf) (s : est) (fs : fsys) :
  c_overwrite cf = true ->
  let s1 := load_rules cf s fs false in
  load_rules cf s1 fs false = s1.
Proof.
  intros Hov s1. subst s1. destruct (e_use_conf s) eqn:Huc.
  - apply stable_fix; [exact Hov|]. now apply first_stable.
  - assert (E : load_rules cf s fs false = s).
    { unfold load_rules. rewrite Huc. reflexivity. }
    rewrite E. exact E.
Qed.

(* in particular a merged deprecated OrCheck does not grow *)
Corollary load_idempotent_rules (cf : lconf) (s : est) (fs : fsys) (n : str) :
  c_overwrite cf = true ->
  assoc n (e_rules (load_rules cf (load_rules cf s fs false) fs false))
  = assoc n (e_rules (load_rules cf s fs false)).
Proof. intros Hov. now rewrite (load_idempotent cf s fs Hov). Qed.

Print Assumptions handle_deprecated_spec.
Print Assumptions fresh_load_spec.
Print Assumptions fresh_load_spec_strong.
Print Assumptions fresh_load_spec_pos.
Print Assumptions fresh_file_rules.
Print Assumptions fresh_file_rules_pos.
Print Assumptions fresh_load_spec_needs_dirs_seen.
Print Assumptions load_idempotent.
Print Assumptions load_idempotent_rules.
