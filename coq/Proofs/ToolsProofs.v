(* C18: the policy-file rewriting tools (upgrade, convert, generate, list-redundant) produce
   policies that decide as the policy they were given: the effective check of every surviving
   name (Spec.Layering.spec_rule) is unchanged. *)
From Coq Require Import String List Bool NArith Lia.
From OP Require Import Base.Str Base.Check Base.ParserTypes Base.Res Base.Json
                       Model.Leaf Model.Print Model.Eval Model.Load Model.Tools
                       Spec.Layering Spec.ToolsSpec Spec.PrintSpec
                       Proofs.PrintProofs Proofs.LayeringProofs.
Import ListNotations.

#[local] Opaque parse_value print.

(* ------------------------------------------------------------------ *)
(* registered defaults                                                 *)
(* ------------------------------------------------------------------ *)
Lemma find_rdef_default n regs : find_rdef n regs = find_default n regs.
Proof.
  induction regs as [|d r IH]; cbn [find_rdef find_default]; [reflexivity|].
  rewrite IH. reflexivity.
Qed.

Lemma find_default_some n regs d : find_default n regs = Some d -> In d regs /\ rd_name d = n.
Proof.
  induction regs as [|d0 r IH]; cbn [find_default In]; [discriminate|].
  destruct (str_eqb (rd_name d0) n) eqn:E.
  - intros H. injection H as ->. split; [now left|now apply str_eqb_eq].
  - intros H. destruct (IH H) as [Hi Hn]. split; [now right|exact Hn].
Qed.

Lemma find_default_none n regs : find_default n regs = None -> ~ In n (map rd_name regs).
Proof.
  induction regs as [|d0 r IH]; cbn [find_default In map]; [tauto|].
  destruct (str_eqb (rd_name d0) n) eqn:E; [discriminate|].
  intros H [Hd|Hin]; [apply str_eqb_neq in E; contradiction|exact (IH H Hin)].
Qed.

Lemma find_default_notin n regs : ~ In n (map rd_name regs) -> find_default n regs = None.
Proof.
  intros H. destruct (find_default n regs) as [d|] eqn:E; [|reflexivity].
  apply find_default_some in E. destruct E as [Hi Hn]. exfalso. apply H. rewrite <- Hn.
  now apply in_map.
Qed.

Lemma find_default_in regs d :
  NoDup (map rd_name regs) -> In d regs -> find_default (rd_name d) regs = Some d.
Proof.
  induction regs as [|d0 r IH]; cbn [map In find_default]; intros Hnd Hin; [contradiction|].
  inversion Hnd as [|? ? Hni Hr]; subst.
  destruct Hin as [->|Hin].
  - now rewrite str_eqb_refl.
  - destruct (str_eqb (rd_name d0) (rd_name d)) eqn:E.
    + apply str_eqb_eq in E. exfalso. apply Hni. rewrite E. now apply in_map.
    + now apply IH.
Qed.

Lemma regs_inj regs d1 d2 :
  NoDup (map rd_name regs) -> In d1 regs -> In d2 regs -> rd_name d1 = rd_name d2 -> d1 = d2.
Proof.
  intros Hnd H1 H2 E. apply (find_default_in _ _ Hnd) in H1. apply (find_default_in _ _ Hnd) in H2.
  rewrite E in H1. congruence.
Qed.

Lemma renamed_olds_in regs d dp :
  In d regs -> rd_dep d = Some dp -> dp_name dp <> rd_name d -> In (dp_name dp) (renamed_olds regs).
Proof.
  intros Hin Hd Hne. unfold renamed_olds. apply in_flat_map. exists d. split; [exact Hin|].
  rewrite Hd. apply str_eqb_neq in Hne. rewrite Hne. now left.
Qed.

(* ------------------------------------------------------------------ *)
(* dictionaries                                                        *)
(* ------------------------------------------------------------------ *)
Lemma assoc_In {A} k (v : A) l : assoc k l = Some v -> In (k, v) l.
Proof.
  induction l as [|[k' v'] r IH]; cbn [assoc In]; [discriminate|].
  destruct (str_eqb k' k) eqn:E.
  - apply str_eqb_eq in E. subst k'. intros H. injection H as ->. now left.
  - intros H. right. exact (IH H).
Qed.

Lemma In_assoc {A} k (v : A) l : NoDup (keys l) -> In (k, v) l -> assoc k l = Some v.
Proof.
  induction l as [|[k' v'] r IH]; cbn [assoc In keys map fst]; intros Hnd Hin; [contradiction|].
  inversion Hnd as [|? ? Hni Hr]; subst. destruct Hin as [E|Hin].
  - injection E as -> ->. now rewrite str_eqb_refl.
  - destruct (str_eqb k' k) eqn:E.
    + apply str_eqb_eq in E. subst k'. exfalso. apply Hni.
      change k with (fst (k, v)). now apply in_map.
    + exact (IH Hr Hin).
Qed.

Lemma ddel_keys_sub {A} k (l : list (str * A)) x : In x (keys (ddel k l)) -> In x (keys l).
Proof.
  induction l as [|[k' v'] r IH]; cbn [ddel keys map fst In]; [tauto|].
  destruct (str_eqb k' k); cbn [map fst In]; [tauto|].
  intros [H|H]; [now left|right; exact (IH H)].
Qed.

Lemma ddel_nodup {A} k (l : list (str * A)) : NoDup (keys l) -> NoDup (keys (ddel k l)).
Proof.
  induction l as [|[k' v'] r IH]; cbn [ddel keys map fst]; intros H; [exact H|].
  inversion H as [|? ? Hni Hr]; subst. destruct (str_eqb k' k); cbn [map fst]; [exact Hr|].
  constructor; [|exact (IH Hr)]. intros Hin. apply Hni. exact (ddel_keys_sub _ _ _ Hin).
Qed.

Lemma assoc_ddel_other {A} k k2 (l : list (str * A)) : k <> k2 -> assoc k2 (ddel k l) = assoc k2 l.
Proof.
  intros Hn. induction l as [|[k' v'] r IH]; cbn [ddel assoc]; [reflexivity|].
  destruct (str_eqb k' k) eqn:E; cbn [assoc].
  - apply str_eqb_eq in E. subst k'. apply str_eqb_neq in Hn. rewrite Hn. reflexivity.
  - rewrite IH. reflexivity.
Qed.

Lemma assoc_ddel_same {A} k (l : list (str * A)) : NoDup (keys l) -> assoc k (ddel k l) = None.
Proof.
  induction l as [|[k' v'] r IH]; cbn [ddel assoc keys map fst]; intros H; [reflexivity|].
  inversion H as [|? ? Hni Hr]; subst. destruct (str_eqb k' k) eqn:E; cbn [assoc].
  - apply str_eqb_eq in E. subst k'. apply assoc_None_keys. exact Hni.
  - rewrite E. exact (IH Hr).
Qed.

Lemma filter_keys_sub {A} (f : str * A -> bool) l x : In x (keys (filter f l)) -> In x (keys l).
Proof.
  unfold keys. rewrite !in_map_iff. intros (p & Hp & Hin). apply filter_In in Hin.
  exists p. tauto.
Qed.

Lemma filter_nodup {A} (f : str * A -> bool) l : NoDup (keys l) -> NoDup (keys (filter f l)).
Proof.
  induction l as [|p r IH]; cbn [filter keys map]; intros H; [exact H|].
  inversion H as [|? ? Hni Hr]; subst. destruct (f p); cbn [map]; [|exact (IH Hr)].
  constructor; [|exact (IH Hr)]. intros Hin. apply Hni. exact (filter_keys_sub _ _ _ Hin).
Qed.

Lemma assoc_filter {A} (f : str * A -> bool) n l : NoDup (keys l) ->
  assoc n (filter f l)
  = match assoc n l with Some v => if f (n, v) then Some v else None | None => None end.
Proof.
  induction l as [|[k v] r IH]; cbn [filter assoc keys map fst]; intros H; [reflexivity|].
  inversion H as [|? ? Hni Hr]; subst. destruct (str_eqb k n) eqn:E.
  - apply str_eqb_eq in E. subst k. destruct (f (n, v)); cbn [assoc].
    + now rewrite str_eqb_refl.
    + apply assoc_None_keys. intros Hin. apply Hni. exact (filter_keys_sub _ _ _ Hin).
  - destruct (f (k, v)); cbn [assoc]; [rewrite E|]; exact (IH Hr).
Qed.

(* ------------------------------------------------------------------ *)
(* the effective rule of an enforcer with one policy file              *)
(* ------------------------------------------------------------------ *)
Definition lk (ct : content) (k : str) : option check :=
  match last_binding k ct with Some v => Some (parse_value v) | None => None end.
Definition ak (ct : content) (k : str) : option check :=
  match assoc k ct with Some v => Some (parse_value v) | None => None end.

Lemma file_def_main ct k : file_def (main_only ct) k = lk ct k.
Proof.
  unfold file_def, lk, file_bindings, main_only.
  cbn [fs_main fs_dirs pf_content existing flat_map]. rewrite app_nil_r. reflexivity.
Qed.

Lemma lk_ak ct k : is_file ct -> lk ct k = ak ct k.
Proof. intros H. unfold lk, ak. rewrite nodup_last_assoc by exact H. reflexivity. Qed.

(* spec_rule under the default configuration, as a function of the file lookup *)
Definition resolve (regs : list rdef) (f : str -> option check) (n : str) : option check :=
  match f n with
  | Some c => Some c
  | None =>
      match find_default n regs with
      | Some d =>
          Some (match rd_dep d with
                | Some dp =>
                    match (if str_eqb (dp_name dp) (rd_name d) then None else f (dp_name dp)) with
                    | Some c => if str_eqb (print c) (s "rule:" ++ rd_name d) then rd_check d else c
                    | None => rd_check d
                    end
                | None => rd_check d
                end)
      | None => None
      end
  end.

Lemma spec_rule_resolve regs ct n :
  spec_rule (default_conf regs) (main_only ct) n = resolve regs (lk ct) n.
Proof.
  unfold spec_rule, resolve. cbn [c_registered default_conf]. rewrite file_def_main.
  destruct (lk ct n); [reflexivity|]. destruct (find_default n regs) as [d|]; [|reflexivity].
  destruct (rd_dep d) as [dp|]; [|reflexivity].
  unfold spec_deprecated. cbn [c_enforce_new_defaults negb andb]. rewrite file_def_main.
  reflexivity.
Qed.

Lemma resolve_ext regs f g n :
  f n = g n ->
  (forall d dp, find_default n regs = Some d -> rd_dep d = Some dp ->
                dp_name dp <> rd_name d -> f n = None -> f (dp_name dp) = g (dp_name dp)) ->
  resolve regs f n = resolve regs g n.
Proof.
  intros Hn Hold. unfold resolve. rewrite <- Hn. destruct (f n) eqn:Ef; [reflexivity|].
  destruct (find_default n regs) as [d|] eqn:Ed; [|reflexivity].
  destruct (rd_dep d) as [dp|] eqn:Edp; [|reflexivity].
  destruct (str_eqb (dp_name dp) (rd_name d)) eqn:E; [reflexivity|].
  apply str_eqb_neq in E. rewrite (Hold d dp eq_refl Edp E eq_refl). reflexivity.
Qed.

Lemma resolve_fext regs f g n : (forall k, f k = g k) -> resolve regs f n = resolve regs g n.
Proof. intros H. apply resolve_ext; [apply H|]. intros. apply H. Qed.

Lemma spec_rule_file regs ct n : is_file ct ->
  spec_rule (default_conf regs) (main_only ct) n = resolve regs (ak ct) n.
Proof. intros H. rewrite spec_rule_resolve. apply resolve_fext. intros k. now apply lk_ak. Qed.

(* ------------------------------------------------------------------ *)
(* oslopolicy-policy-upgrade                                           *)
(* ------------------------------------------------------------------ *)
Section Upgrade.
Variable file : content.

Definition ustep (pol : content) (d : rdef) : content :=
  match rd_dep d with
  | Some dp =>
      match assoc (dp_name dp) file with
      | Some v =>
          if negb (str_eqb (dp_name dp) (rd_name d)) && is_alias_of v (rd_name d)
          then ddel (dp_name dp) pol
          else dset (rd_name d) v (ddel (dp_name dp) pol)
      | None => pol
      end
  | None => pol
  end.

Lemma upgrade_fold regs : upgrade regs file = fold_left ustep regs file.
Proof. reflexivity. Qed.

(* what one step does to the lookup of a name *)
Definition eff (d : rdef) (k : str) (prev : option jv) : option jv :=
  match rd_dep d with
  | Some dp =>
      match assoc (dp_name dp) file with
      | Some v =>
          if negb (str_eqb (dp_name dp) (rd_name d)) && is_alias_of v (rd_name d)
          then (if str_eqb (dp_name dp) k then None else prev)
          else (if str_eqb (rd_name d) k then Some v
                else if str_eqb (dp_name dp) k then None else prev)
      | None => prev
      end
  | None => prev
  end.

Lemma ustep_nodup pol d : NoDup (keys pol) -> NoDup (keys (ustep pol d)).
Proof.
  intros H. unfold ustep. destruct (rd_dep d) as [dp|]; [|exact H].
  destruct (assoc (dp_name dp) file) as [v|]; [|exact H].
  destruct (negb (str_eqb (dp_name dp) (rd_name d)) && is_alias_of v (rd_name d)).
  - now apply ddel_nodup.
  - apply dset_nodup. now apply ddel_nodup.
Qed.

Lemma ustep_eff pol d k : NoDup (keys pol) -> assoc k (ustep pol d) = eff d k (assoc k pol).
Proof.
  intros Hnd. unfold ustep, eff. destruct (rd_dep d) as [dp|]; [|reflexivity].
  destruct (assoc (dp_name dp) file) as [v|]; [|reflexivity].
  destruct (negb (str_eqb (dp_name dp) (rd_name d)) && is_alias_of v (rd_name d)).
  - destruct (str_eqb (dp_name dp) k) eqn:E.
    + apply str_eqb_eq in E. subst k. now apply assoc_ddel_same.
    + apply assoc_ddel_other. now apply str_eqb_neq.
  - destruct (str_eqb (rd_name d) k) eqn:En.
    + apply str_eqb_eq in En. subst k. apply assoc_dset_same.
    + apply str_eqb_neq in En. rewrite assoc_dset_other by exact En.
      destruct (str_eqb (dp_name dp) k) eqn:E.
      * apply str_eqb_eq in E. subst k. now apply assoc_ddel_same.
      * apply assoc_ddel_other. now apply str_eqb_neq.
Qed.

Definition efold (k : str) (l : list rdef) (o : option jv) : option jv :=
  fold_left (fun o d => eff d k o) l o.

Lemma ufold_assoc k : forall l acc, NoDup (keys acc) ->
  NoDup (keys (fold_left ustep l acc)) /\
  assoc k (fold_left ustep l acc) = efold k l (assoc k acc).
Proof.
  unfold efold.
  induction l as [|d l IH]; intros acc Hnd; cbn [fold_left]; [split; [exact Hnd|reflexivity]|].
  destruct (IH (ustep acc d) (ustep_nodup acc d Hnd)) as [H1 H2]. split; [exact H1|].
  rewrite H2, (ustep_eff acc d k Hnd). reflexivity.
Qed.

Lemma efold_fix k c : forall l, (forall d, In d l -> eff d k c = c) -> efold k l c = c.
Proof.
  unfold efold. induction l as [|d l IH]; intros H; cbn [fold_left]; [reflexivity|].
  rewrite (H d (or_introl eq_refl)). apply IH. intros d' Hd'. apply H. now right.
Qed.

Lemma efold_hit k c : forall l, (forall d, In d l -> eff d k c = c) ->
  (exists d, In d l /\ forall o, eff d k o = c) -> forall o, efold k l o = c.
Proof.
  induction l as [|d l IH]; intros Hfix (d0 & Hin & Hc) o; [destruct Hin|].
  change (efold k (d :: l) o) with (efold k l (eff d k o)).
  destruct Hin as [->|Hin].
  - rewrite Hc. apply efold_fix. intros d' Hd'. apply Hfix. now right.
  - apply IH; [intros d' Hd'; apply Hfix; now right|]. exists d0. split; assumption.
Qed.

(* a step leaves alone every name it neither sets nor deletes *)
Lemma eff_notin d k o : assoc k file = None -> rd_name d <> k -> eff d k o = o.
Proof.
  intros Hk Hn. unfold eff. destruct (rd_dep d) as [dp|]; [|reflexivity].
  destruct (assoc (dp_name dp) file) as [v|] eqn:Ev; [|reflexivity].
  assert (Eo : str_eqb (dp_name dp) k = false).
  { apply str_eqb_neq. intros E. congruence. }
  apply str_eqb_neq in Hn. rewrite Hn, Eo.
  destruct (negb (str_eqb (dp_name dp) (rd_name d)) && is_alias_of v (rd_name d)); reflexivity.
Qed.

Lemma eff_none_other d k : rd_name d <> k -> eff d k None = None.
Proof.
  intros Hn. unfold eff. destruct (rd_dep d) as [dp|]; [|reflexivity].
  destruct (assoc (dp_name dp) file) as [v|]; [|reflexivity].
  apply str_eqb_neq in Hn. rewrite Hn.
  destruct (negb (str_eqb (dp_name dp) (rd_name d)) && is_alias_of v (rd_name d));
    destruct (str_eqb (dp_name dp) k); reflexivity.
Qed.

Lemma efold_nohit k : assoc k file = None ->
  forall l o, ~ In k (map rd_name l) -> efold k l o = o.
Proof.
  intros Hk. induction l as [|d l IH]; intros o Hni; [reflexivity|].
  change (efold k (d :: l) o) with (efold k l (eff d k o)).
  cbn [map In] in Hni. rewrite eff_notin by tauto. apply IH. tauto.
Qed.

(* a name absent from the file is touched only by the step of its own registered default *)
Lemma efold_single k d : assoc k file = None -> rd_name d = k ->
  forall l o, NoDup (map rd_name l) -> In d l -> efold k l o = eff d k o.
Proof.
  intros Hk Hd. induction l as [|d0 l IH]; intros o Hnd Hin; [destruct Hin|].
  change (efold k (d0 :: l) o) with (efold k l (eff d0 k o)).
  cbn [map] in Hnd. inversion Hnd as [|? ? Hni Hr]; subst.
  destruct Hin as [->|Hin].
  - apply efold_nohit; assumption.
  - rewrite (eff_notin d0 _ o Hk).
    + now apply IH.
    + intros E. apply Hni. rewrite E. now apply in_map.
Qed.

End Upgrade.

Lemma upgrade_is_file regs file : is_file file -> is_file (upgrade regs file).
Proof. intros H. rewrite upgrade_fold. exact (proj1 (ufold_assoc file [] regs file H)). Qed.

Lemma upgrade_assoc regs file k : is_file file ->
  assoc k (upgrade regs file) = efold file k regs (assoc k file).
Proof. intros H. rewrite upgrade_fold. exact (proj2 (ufold_assoc file k regs file H)). Qed.

(* a renamed deprecated name never survives the upgrade *)
Lemma upgrade_old_gone regs file d dp :
  is_file file -> (forall d', In d' regs -> ~ In (rd_name d') (renamed_olds regs)) ->
  In d regs -> rd_dep d = Some dp -> dp_name dp <> rd_name d ->
  assoc (dp_name dp) (upgrade regs file) = None.
Proof.
  intros Hf Hc2 Hin Hdp Hne. rewrite upgrade_assoc by exact Hf.
  assert (Hold : In (dp_name dp) (renamed_olds regs)) by (eapply renamed_olds_in; eassumption).
  assert (Hnames : forall d', In d' regs -> rd_name d' <> dp_name dp).
  { intros d' Hd' E. apply (Hc2 d' Hd'). rewrite E. exact Hold. }
  destruct (assoc (dp_name dp) file) as [v|] eqn:Ev.
  - apply efold_hit.
    + intros d' Hd'. apply eff_none_other. now apply Hnames.
    + exists d. split; [exact Hin|]. intros o. unfold eff. rewrite Hdp, Ev.
      assert (En : str_eqb (rd_name d) (dp_name dp) = false).
      { apply str_eqb_neq. intros E. now apply Hne. }
      rewrite En, str_eqb_refl.
      destruct (negb (str_eqb (dp_name dp) (rd_name d)) && is_alias_of v (rd_name d)); reflexivity.
  - apply efold_nohit; [exact Ev|]. intros Hin'. apply in_map_iff in Hin'.
    destruct Hin' as (d' & E & Hd'). exact (Hnames d' Hd' E).
Qed.

Theorem upgrade_preserves (regs : list rdef) (file : content) (n : str) :
  NoDup (map rd_name regs) -> is_file file -> not_self_conflicting regs file ->
  ~ In n (renamed_olds regs) ->
  spec_rule (default_conf regs) (main_only (upgrade regs file)) n
  = spec_rule (default_conf regs) (main_only file) n.
Proof.
  intros Hnd Hf [Hc1 Hc2] Hn.
  rewrite !spec_rule_file by (try apply upgrade_is_file; exact Hf).
  destruct (assoc n file) as [v|] eqn:Ev.
  - (* n is defined by the file: it keeps its value *)
    assert (HU : assoc n (upgrade regs file) = Some v).
    { rewrite upgrade_assoc, Ev by exact Hf. apply efold_fix. intros d Hd.
      unfold eff. destruct (rd_dep d) as [dp|] eqn:Edp; [|reflexivity].
      destruct (assoc (dp_name dp) file) as [v'|] eqn:Ev'; [|reflexivity].
      destruct (str_eqb (dp_name dp) (rd_name d)) eqn:Eon.
      - apply str_eqb_eq in Eon. cbn [negb andb].
        destruct (str_eqb (rd_name d) n) eqn:En.
        + apply str_eqb_eq in En. congruence.
        + rewrite Eon, En. reflexivity.
      - apply str_eqb_neq in Eon.
        assert (Eo : str_eqb (dp_name dp) n = false).
        { apply str_eqb_neq. intros E. apply Hn. rewrite <- E. eapply renamed_olds_in; eassumption. }
        assert (En : str_eqb (rd_name d) n = false).
        { apply str_eqb_neq. intros E.
          assert (Hk : has_key (rd_name d) file = false).
          { apply (Hc1 d dp Hd Edp Eon). apply has_key_true. eauto. }
          apply has_key_false in Hk. congruence. }
        rewrite Eo, En. destruct (negb false && is_alias_of v' (rd_name d)); reflexivity. }
    unfold resolve, ak. rewrite HU, Ev. reflexivity.
  - destruct (find_default n regs) as [d|] eqn:Ed.
    + destruct (find_default_some _ _ _ Ed) as [Hin Hname].
      assert (HU : assoc n (upgrade regs file) = eff file d n None).
      { rewrite upgrade_assoc, Ev by exact Hf. now apply efold_single. }
      unfold resolve, ak. rewrite HU, Ev, Ed. unfold eff.
      destruct (rd_dep d) as [dp|] eqn:Edp; [|reflexivity].
      destruct (str_eqb (dp_name dp) (rd_name d)) eqn:Eon.
      * apply str_eqb_eq in Eon. rewrite Eon, Hname, Ev. reflexivity.
      * apply str_eqb_neq in Eon.
        rewrite (upgrade_old_gone regs file d dp Hf Hc2 Hin Edp Eon).
        assert (Eo : str_eqb (dp_name dp) n = false).
        { apply str_eqb_neq. intros E. apply Hn. rewrite <- E. eapply renamed_olds_in; eassumption. }
        destruct (assoc (dp_name dp) file) as [v|] eqn:Ev'; [|reflexivity].
        cbn [negb andb]. rewrite Eo, Hname, str_eqb_refl.
        unfold is_alias_of.
        destruct (str_eqb (print (parse_value v)) (s "rule:" ++ n)); reflexivity.
    + assert (HU : assoc n (upgrade regs file) = None).
      { rewrite upgrade_assoc, Ev by exact Hf. apply efold_nohit; [exact Ev|].
        now apply find_default_none. }
      unfold resolve, ak. rewrite HU, Ev, Ed. reflexivity.
Qed.

(* ------------------------------------------------------------------ *)
(* oslopolicy-convert-json-to-yaml                                     *)
(* ------------------------------------------------------------------ *)
Lemma convert_is_file regs file : is_file file -> is_file (convert regs file).
Proof. intros H. unfold convert, is_file. now apply filter_nodup. Qed.

Lemma convert_assoc regs file k : is_file file ->
  assoc k (convert regs file)
  = match assoc k file with
    | Some v => if convert_keeps regs (k, v) then Some v else None
    | None => None end.
Proof. intros H. unfold convert. now apply assoc_filter. Qed.

(* a dropped rule is the registered default of its name *)
Lemma dropped_is_default regs k v :
  (forall d, In d regs -> wf_tree [] (rd_check d) = true) ->
  wf_tree [] (parse_value v) = true ->
  convert_keeps regs (k, v) = false ->
  exists d, find_default k regs = Some d /\ parse_value v = rd_check d.
Proof.
  intros Hwr Hwv. unfold convert_keeps. cbn [fst snd]. rewrite find_rdef_default.
  destruct (find_default k regs) as [d|] eqn:Ed; [|discriminate].
  intros H. apply negb_false_iff in H. unfold same_as_default in H. apply str_eqb_eq in H.
  exists d. split; [reflexivity|].
  apply (print_injective [] _ _ Hwv); [|exact H].
  apply Hwr. now apply (find_default_some _ _ _ Ed).
Qed.

(* the two exclusions that conversion (and list-redundant) actually needs: a file does not define
   both a renamed deprecated name and its successor; a registered name that is also the renamed
   predecessor of another default is not defined by the file *)
Theorem convert_preserves_gen (regs : list rdef) (file : content) (n : str) :
  NoDup (map rd_name regs) -> is_file file ->
  (forall d dp, In d regs -> rd_dep d = Some dp -> dp_name dp <> rd_name d ->
                has_key (dp_name dp) file = true -> has_key (rd_name d) file = false) ->
  (forall d, In d regs -> In (rd_name d) (renamed_olds regs) -> has_key (rd_name d) file = false) ->
  (forall d, In d regs -> wf_tree [] (rd_check d) = true) ->
  (forall k v, In (k, v) file -> wf_tree [] (parse_value v) = true) ->
  spec_rule (default_conf regs) (main_only (convert regs file)) n
  = spec_rule (default_conf regs) (main_only file) n.
Proof.
  intros Hnd Hf Hc1 Hc2 Hwr Hwf.
  rewrite !spec_rule_file by (try apply convert_is_file; exact Hf).
  destruct (assoc n file) as [v|] eqn:Ev.
  - destruct (convert_keeps regs (n, v)) eqn:Ek.
    + apply resolve_ext.
      * unfold ak. rewrite convert_assoc, Ev, Ek by exact Hf. reflexivity.
      * intros d dp _ _ _ Hnone. unfold ak in Hnone.
        rewrite convert_assoc, Ev, Ek in Hnone by exact Hf. discriminate.
    + destruct (dropped_is_default regs n v Hwr (Hwf n v (assoc_In _ _ _ Ev)) Ek) as (d & Ed & Epv).
      destruct (find_default_some _ _ _ Ed) as [Hin Hname].
      unfold resolve, ak. rewrite convert_assoc, Ev, Ek, Ed by exact Hf. rewrite Epv. f_equal.
      destruct (rd_dep d) as [dp|] eqn:Edp; [|reflexivity].
      destruct (str_eqb (dp_name dp) (rd_name d)) eqn:Eon; [reflexivity|].
      apply str_eqb_neq in Eon. rewrite convert_assoc by exact Hf.
      destruct (assoc (dp_name dp) file) as [v'|] eqn:Ev'; [|reflexivity].
      exfalso.
      assert (Hk : has_key (rd_name d) file = false).
      { apply (Hc1 d dp Hin Edp Eon). apply has_key_true. eauto. }
      apply has_key_false in Hk. congruence.
  - apply resolve_ext.
    + unfold ak. rewrite convert_assoc, Ev by exact Hf. reflexivity.
    + intros d dp Ed Edp Eon _. destruct (find_default_some _ _ _ Ed) as [Hin Hname].
      unfold ak. rewrite convert_assoc by exact Hf.
      destruct (assoc (dp_name dp) file) as [v'|] eqn:Ev'; [|reflexivity].
      destruct (convert_keeps regs (dp_name dp, v')) eqn:Ek; [reflexivity|].
      exfalso. unfold convert_keeps in Ek. cbn [fst snd] in Ek. rewrite find_rdef_default in Ek.
      destruct (find_default (dp_name dp) regs) as [d'|] eqn:Ed'; [|discriminate].
      destruct (find_default_some _ _ _ Ed') as [Hin' Hname'].
      assert (Hk : has_key (rd_name d') file = false).
      { apply (Hc2 d' Hin'). rewrite Hname'. exact (renamed_olds_in regs d dp Hin Edp Eon). }
      apply has_key_false in Hk. congruence.
Qed.

Theorem convert_preserves (regs : list rdef) (file : content) (n : str) :
  NoDup (map rd_name regs) -> is_file file -> not_self_conflicting regs file ->
  (forall d, In d regs -> wf_tree [] (rd_check d) = true) ->
  (forall k v, In (k, v) file -> wf_tree [] (parse_value v) = true) ->
  spec_rule (default_conf regs) (main_only (convert regs file)) n
  = spec_rule (default_conf regs) (main_only file) n.
Proof.
  intros Hnd Hf [Hc1 Hc2] Hwr Hwf. apply convert_preserves_gen; try assumption.
  intros d Hd Hin. exfalso. exact (Hc2 d Hd Hin).
Qed.

(* ------------------------------------------------------------------ *)
(* oslopolicy-policy-generator                                         *)
(* ------------------------------------------------------------------ *)
Definition gen_extra (regs : list rdef) (fr : content) : content :=
  flat_map (fun d => if has_key (rd_name d) fr then []
                     else [(rd_name d, JStr (rd_check_str d))]) regs.

Lemma last_gen_extra fr n : forall regs, NoDup (map rd_name regs) ->
  last_binding n (gen_extra regs fr)
  = if has_key n fr then None
    else match find_default n regs with
         | Some d => Some (JStr (rd_check_str d))
         | None => None end.
Proof.
  unfold gen_extra.
  induction regs as [|d r IH]; intros Hnd; cbn [flat_map find_default map].
  - cbn [last_binding]. destruct (has_key n fr); reflexivity.
  - cbn [map] in Hnd. inversion Hnd as [|? ? Hni Hr]; subst.
    rewrite last_binding_app, (IH Hr).
    destruct (str_eqb (rd_name d) n) eqn:E.
    + apply str_eqb_eq in E. subst n. rewrite (find_default_notin _ _ Hni).
      destruct (has_key (rd_name d) fr); cbn [last_binding]; [reflexivity|].
      rewrite str_eqb_refl. reflexivity.
    + assert (Hhd : last_binding n (if has_key (rd_name d) fr then []
                                    else [(rd_name d, JStr (rd_check_str d))]) = None).
      { destruct (has_key (rd_name d) fr); cbn [last_binding]; [reflexivity|]. rewrite E. reflexivity. }
      rewrite Hhd. destruct (has_key n fr); [reflexivity|].
      destruct (find_default n r); reflexivity.
Qed.

Theorem generate_preserves (regs : list rdef) (fr : content) (n : str) :
  NoDup (map rd_name regs) -> is_file fr ->
  (forall k, In k (renamed_olds regs) -> has_key k fr = false) ->
  (forall d, In d regs -> rd_check d = parse_value (JStr (rd_check_str d))) ->
  spec_rule (default_conf regs) (main_only (generate regs fr)) n
  = spec_rule (default_conf regs) (main_only fr) n.
Proof.
  intros Hnd Hf Hold Hchk. rewrite !spec_rule_resolve.
  assert (HG : forall k, lk (generate regs fr) k
                         = match ak fr k with
                           | Some c => Some c
                           | None => match find_default k regs with
                                     | Some d => Some (rd_check d)
                                     | None => None end
                           end).
  { intros k. unfold lk, generate. fold (gen_extra regs fr).
    rewrite last_binding_app, (last_gen_extra fr k regs Hnd), (nodup_last_assoc k fr Hf).
    unfold ak, has_key. destruct (assoc k fr) as [v|]; [reflexivity|].
    destruct (find_default k regs) as [d|] eqn:Ed; [|reflexivity].
    rewrite (Hchk d); [reflexivity|]. now apply (find_default_some _ _ _ Ed). }
  assert (HF : forall k, lk fr k = ak fr k) by (intros k; now apply lk_ak).
  destruct (ak fr n) as [c|] eqn:En.
  - unfold resolve. rewrite HG, HF, En. reflexivity.
  - unfold resolve. rewrite HG, HF, En.
    destruct (find_default n regs) as [d|] eqn:Ed; [|reflexivity].
    destruct (find_default_some _ _ _ Ed) as [Hin Hname]. f_equal.
    destruct (rd_dep d) as [dp|] eqn:Edp; [|reflexivity].
    destruct (str_eqb (dp_name dp) (rd_name d)) eqn:Eon; [reflexivity|].
    apply str_eqb_neq in Eon. rewrite HF. unfold ak.
    assert (Hk : has_key (dp_name dp) fr = false).
    { apply Hold. eapply renamed_olds_in; eassumption. }
    apply has_key_false in Hk. rewrite Hk. reflexivity.
Qed.

(* ------------------------------------------------------------------ *)
(* oslopolicy-list-redundant                                           *)
(* ------------------------------------------------------------------ *)
(* deleting the reported rules is what conversion does *)
Lemma without_redundant regs fr : is_file fr -> without (redundant regs fr) fr = convert regs fr.
Proof.
  intros Hf. unfold without, convert. apply filter_ext_in. intros [k v] Hin. cbn [fst].
  unfold redundant. destruct (convert_keeps regs (k, v)) eqn:Ek.
  - apply negb_true_iff. apply mem_str_nIn. intros H. apply in_map_iff in H.
    destruct H as ([k' v'] & E & H). cbn [fst] in E. subst k'. apply filter_In in H.
    destruct H as [Hin' Hk']. apply (In_assoc _ _ _ Hf) in Hin. apply (In_assoc _ _ _ Hf) in Hin'.
    assert (v' = v) by congruence. subst v'. rewrite Ek in Hk'. discriminate.
  - apply negb_false_iff. apply mem_str_In. apply in_map_iff. exists (k, v).
    split; [reflexivity|]. apply filter_In. split; [exact Hin|]. rewrite Ek. reflexivity.
Qed.

Theorem redundant_removable (regs : list rdef) (fr : content) (n : str) :
  NoDup (map rd_name regs) -> is_file fr ->
  (forall k, In k (renamed_olds regs) -> has_key k fr = false) ->
  (forall d, In d regs -> wf_tree [] (rd_check d) = true) ->
  (forall k v, In (k, v) fr -> wf_tree [] (parse_value v) = true) ->
  spec_rule (default_conf regs) (main_only (without (redundant regs fr) fr)) n
  = spec_rule (default_conf regs) (main_only fr) n.
Proof.
  intros Hnd Hf Hold Hwr Hwf. rewrite without_redundant by exact Hf.
  apply convert_preserves_gen; try assumption.
  - intros d dp Hin Edp Eon Hk. rewrite Hold in Hk; [discriminate|].
    eapply renamed_olds_in; eassumption.
  - intros d _ Hin. now apply Hold.
Qed.

(* ------------------------------------------------------------------ *)
(* every exclusion is needed: concrete policies where the property fails without it *)
(* ------------------------------------------------------------------ *)
Module Cex.
Definition mk (n c : string) (dep : option deprec) : rdef :=
  {| rd_name := s n; rd_check_str := s c; rd_check := parse_value (JStr (s c));
     rd_dep := dep; rd_scope := [] |}.
Definition mkd (n c : string) : deprec :=
  {| dp_name := s n; dp_check_str := s c; dp_check := parse_value (JStr (s c)) |}.
Definition eff_of (regs : list rdef) (ct : content) (n : string) : option check :=
  spec_rule (default_conf regs) (main_only ct) (s n).

(* "new" (default role:n) deprecates "old" *)
Definition r_ren := [mk "new" "role:n" (Some (mkd "old" "role:o"))].

(* generate, without rd_check d = parse_value (JStr (rd_check_str d)): the generated entry is the
   check STRING, the enforcer's default is the check OBJECT *)
Definition bad : rdef :=
  {| rd_name := s "a"; rd_check_str := s "role:x"; rd_check := CLeaf LTrue;
     rd_dep := None; rd_scope := [] |}.
Example generate_needs_coherent_default :
  eff_of [bad] (generate [bad] []) "a" <> eff_of [bad] [] "a".
Proof. vm_compute. discriminate. Qed.

(* generate, with an override under the deprecated name: "new" is governed by old: role:x before,
   by the generated new: role:n afterwards *)
Definition f_old : content := [(s "old", JStr (s "role:x"))].
Example generate_needs_no_old_override :
  eff_of r_ren (generate r_ren f_old) "new" <> eff_of r_ren f_old "new".
Proof. vm_compute. discriminate. Qed.

(* upgrade, file defines both the old and the new name: the old value overwrites the new one *)
Definition f_both : content := [(s "old", JStr (s "role:x")); (s "new", JStr (s "role:y"))].
Example upgrade_needs_clause1 :
  eff_of r_ren (upgrade r_ren f_both) "new" <> eff_of r_ren f_both "new".
Proof. vm_compute. discriminate. Qed.

(* upgrade, a registered name that is the renamed predecessor of another default (c -> a -> b):
   writing a := (value of c) makes it an override of b *)
Definition r_chain := [mk "b" "role:b" (Some (mkd "a" "role:a"));
                       mk "a" "role:a2" (Some (mkd "c" "role:c"))].
Definition f_c : content := [(s "c", JStr (s "role:x"))].
Example upgrade_needs_clause2 :
  eff_of r_chain (upgrade r_chain f_c) "b" <> eff_of r_chain f_c "b".
Proof. vm_compute. discriminate. Qed.

(* convert / list-redundant, file defines both the old name and new = its default: once new is
   commented out (deleted) the override under the old name takes over *)
Definition f_both_d : content := [(s "old", JStr (s "role:x")); (s "new", JStr (s "role:n"))].
Example convert_needs_clause1 :
  eff_of r_ren (convert r_ren f_both_d) "new" <> eff_of r_ren f_both_d "new".
Proof. vm_compute. discriminate. Qed.
Example redundant_needs_no_old_override :
  redundant r_ren f_both_d = [s "new"] /\
  eff_of r_ren (without (redundant r_ren f_both_d) f_both_d) "new" <> eff_of r_ren f_both_d "new".
Proof. split; [reflexivity|]. vm_compute. discriminate. Qed.

(* convert, a registered name "a" that is also the renamed predecessor of "b": a: <default of a>
   is an override of b; commenting it out changes b *)
Definition r_pred := [mk "a" "role:a" None; mk "b" "role:b" (Some (mkd "a" "role:a"))].
Definition f_a : content := [(s "a", JStr (s "role:a"))].
Example convert_needs_clause2 :
  eff_of r_pred (convert r_pred f_a) "b" <> eff_of r_pred f_a "b".
Proof. vm_compute. discriminate. Qed.
End Cex.

Print Assumptions upgrade_preserves.
Print Assumptions convert_preserves.
Print Assumptions convert_preserves_gen.
Print Assumptions generate_preserves.
Print Assumptions redundant_removable.
