From Coq Require Import String List Bool NArith.
From OP Require Import Base.DTree Gen.GPolicy Model.Pick.
Import ListNotations.

Theorem pick_spec (i : pickin) : picks_json i = spec_picks_json i.
Proof.
  destruct i as [y ne fb fo loc fj]. unfold picks_json, spec_picks_json, pick_env.
  destruct y, ne, fb, fo, loc, fj; reflexivity.
Qed.
