From Coq Require Import String List Bool NArith Lia.
From OP Require Import Base.Str Base.Check Base.ParserTypes Base.Res Base.Json
                       Model.Leaf Model.Tokenize Spec.ListRule.
Import ListNotations.
Set Implicit Arguments.

Section P.
Variable extra : list (str * kcls).
Variable env : leaf -> bool.
Hypothesis env_false : env LFalse = false.

Lemma beval_and_of cs : beval env (and_of cs) = forallb (beval env) cs.
Proof.
  destruct cs as [|c [|c2 r]]; cbn [and_of].
  - apply beval_and.
  - cbn [forallb]. now rewrite andb_true_r.
  - apply beval_and.
Qed.

Definition or_of (ol : list check) : check :=
  match ol with [] => CLeaf LFalse | [c] => c | _ => COr ol end.
Lemma beval_or_of ol : beval env (or_of ol) = existsb (beval env) ol.
Proof.
  destruct ol as [|c [|c2 r]]; cbn [or_of].
  - exact env_false.
  - cbn [existsb]. now rewrite orb_false_r.
  - apply beval_or.
Qed.

Definition entry_val (v : jv) : bool :=
  match inner_checks extra v with Some cs => forallb (beval env) cs | None => false end.

Lemma existsb_flat (l : list jv) :
  existsb (beval env)
    (flat_map (fun v => match inner_checks extra v with Some cs => [and_of cs] | None => [] end) l)
  = existsb entry_val l.
Proof.
  induction l as [|v r IH]; [reflexivity|]. cbn [flat_map existsb]. rewrite existsb_app, IH.
  unfold entry_val at 2. destruct (inner_checks extra v) as [cs|]; cbn [existsb].
  - now rewrite beval_and_of, orb_false_r.
  - reflexivity.
Qed.

Lemma entry_val_spec v :
  (match v with JStr _ => true | JList l' => is_strs l' | _ => false end) = true ->
  entry_val v = spec_entry extra env v.
Proof.
  unfold entry_val, spec_entry. destruct v as [| | | |x|l'|kvs|t]; try discriminate; intros H.
  - destruct x as [|c x]; reflexivity.
  - cbn [inner_checks members]. destruct l' as [|a r]; [reflexivity|].
    set (l' := a :: r) in *.
    assert (E : forallb (beval env)
                  (map (fun r0 => match r0 with
                                  | JStr x => CLeaf (parse_check extra x)
                                  | _ => CLeaf LFalse end) l')
                = forallb (fun m => env (parse_check extra m))
                    (flat_map (fun r0 => match r0 with JStr x => [x] | _ => [] end) l')).
    { clear -H. induction l' as [|b q IH]; [reflexivity|]. cbn [is_strs forallb] in H.
      apply andb_prop in H. destruct H as [Hb Hq]. destruct b; try discriminate.
      cbn [map flat_map forallb app]. now rewrite IH. }
    rewrite E. unfold l' at 2. cbn [flat_map]. destruct a; try discriminate.
    cbn [app]. reflexivity.
Qed.

Theorem translate_list_spec (l : list jv) :
  rule_shaped_list l = true -> env LTrue = true ->
  beval env (translate_list extra l) = spec_list extra env l.
Proof.
  intros Hs Ht. destruct l as [|v r]; [exact Ht|].
  unfold translate_list, spec_list. set (l := v :: r) in *.
  change (beval env (or_of (flat_map (fun v0 => match inner_checks extra v0 with
                                                | Some cs => [and_of cs] | None => [] end) l))
          = existsb (spec_entry extra env) l).
  rewrite beval_or_of, existsb_flat. clear -Hs.
  induction l as [|a q IH]; [reflexivity|]. cbn [rule_shaped_list forallb] in Hs.
  apply andb_prop in Hs. destruct Hs as [Ha Hq]. cbn [existsb].
  rewrite entry_val_spec by exact Ha. now rewrite IH.
Qed.
End P.
