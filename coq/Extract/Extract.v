(* Extraction of the executable model and spec oracles.  ExtrOcamlBasic only: bool, option,
   unit, list, prod, sumbool, sumor are mapped to their OCaml counterparts, andb/orb inlined;
   N, positive, nat, Z stay the extracted inductive types. No Extract Constant of our own. *)
From Coq Require Import Extraction ExtrOcamlBasic.
From OP Require Import Base.Sx Model.Wire.
Extraction Language OCaml.
Extraction "Extract/model.ml" Wire.wire_main.
