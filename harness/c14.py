"""C14: evaluating a rule never crashes; what cannot be evaluated denies."""
from common import corr_kind
from world import base_case, run_cases, describe, out_of_model, agree
from c06 import render_expr

GEN = ['GChecks.v', 'GPolicy.v', 'GParser.v']

DOCUMENTED = {'PolicyNotAuthorized', 'InvalidScope', 'InvalidContextObject', 'PolicyNotRegistered', 'Custom7'}

# hostile left sides: Python keywords, operators, brackets, digits, dots, quotes
LEFT = ['class', 'def', 'lambda', 'None', 'True', 'not', 'is', 'in', 'import', '1+', '+1', '1+1', '-', '--1', '~1', '*',
        '**', '1/0', 'a.0', '0.a', '.a', 'a.', 'a..b', '.', '..', '1.', '.5', '1e', '1e5', '0x', '0xg', '[', ']', '[]', '[1,',
        '{', '{}', '{[1]}', '{1,2}', '(1', '1)', '(,)', '"', "'", '"a', "a'", '"a"b', "'''", '""""', 'f"x"', "b'x'", 'r"\\"',
        'a b', 'a\tb', 'a,b', 'a;b', 'a=b', 'a==b', 'a->b', '@', '!', '#', '$x', '`', '\\', '\\n', 'é', 'ß', '1_000', '1__0',
        '0o8', '0b2', '९', 'a.b.c.d.e', 'roles', 'roles.x', 'x.roles', '__class__', 'a.__class__', 'True.real', '9' * 30,
        '1' * 5000, 'nan', 'inf', '-inf', '1j', '...', 'Ellipsis', 'print(1)', '__import__("os")', 'a[0]', 'a.b[0]']
RIGHT = ['x', '%(k)s', '%(missing)s', 'pre-%(k)s-post', '%(k)s%(k2)s', '', 'True', 'None', "['a']", '1',
         '%(k.x)s', '%(k.b)s', '%(k2.b.c)s', '%(other.0)s']
VALUES = ['s', '', 0, 1, -1, 2.5, True, False, None, [], ['a'], [[]], [['a']], [{'b': 'x'}], {}, {'b': 'x'}, {'b': None},
          {'b': ['x', {'c': 1}]}, {'b': {'c': [1, [2]]}}, [1, 's', None, {'b': 'x'}, [{'b': 'x'}]]]


def run(run, binfo):
    tier, rng = run.tier, run.rng
    n = 1500 if tier == 'quick' else 40000
    cases = []
    for _ in range(n):
        leaves = []
        for _ in range(rng.randint(1, 4)):
            kind = rng.choice(LEFT)
            if rng.random() < 0.3:
                kind = '.'.join(rng.choice(['a', 'b', 'c', 'roles', '0']) for _ in range(rng.randint(1, 4)))
            if ':' in kind:
                continue
            leaves.append(kind + ':' + rng.choice(RIGHT))
        leaves += ['role:' + rng.choice(['admin', '%(k)s', '%(missing)s']), 'rule:lower', 'rule:undefined']
        leaves = [l for l in leaves if not any(ch.isspace() for ch in l) and not l.startswith('(')
                  and not l.endswith(')')] or ['role:x']
        top = render_expr(rng, leaves, rng.randint(1, 6))
        lower = render_expr(rng, [l for l in leaves if not l.startswith('rule:')] or ['@'], rng.randint(1, 3))
        rules = {'top': top, 'lower': lower}
        if rng.random() < 0.3:
            rules['lone'] = rng.choice(['not', 'NOT', "'abc'", '""', '"role:admin"', '(', ')', 'and', 'or', 'not not'])
            rules['top'] = rng.choice(['rule:lone', 'not rule:lone', '@ and rule:lone', 'rule:lone or ' + top])
        # list-form rules can carry any text, including whitespace and parentheses
        lf = []
        for _ in range(rng.randint(1, 3)):
            k = rng.choice(LEFT)
            if ':' not in k:
                lf.append(k + ':' + rng.choice(RIGHT))
        rules['listform'] = [lf, ['role:admin']] if lf else [['role:admin']]
        creds = {k: rng.choice(VALUES) for k in rng.sample(['a', 'b', 'c', 'x', '0', 'class', 'None'], rng.randint(0, 5))}
        r = rng.random()
        if r < 0.6:
            creds['roles'] = rng.choice([[], ['admin'], ['Admin', 'x'], ['é']])
        target = {k: rng.choice(VALUES) for k in rng.sample(['k', 'k2', 'other'], rng.randint(0, 3))}
        q = rng.choice(['top', 'lower', 'listform', 'nope'] + (['lone'] if 'lone' in rules else []))
        dr = rng.random() < 0.3
        c = base_case(rules=rules, rule=('name', q), creds=creds, target=target, do_raise=dr,
                      exc=(7 if rng.random() < 0.3 else None),
                      default=rng.choice([('none',), ('name', 'lower')]))
        if rng.random() < 0.25:
            # the other entry point, with the caller's exception class built from positional and keyword arguments
            c['authorize'] = True
            c['registered'] = {n: None for n in rules if rng.random() < 0.8}
            if c['exc'] is not None:
                c['exc_args'] = ('a1', 2)
                c['exc_kwargs'] = {'kw': 'v'}
        elif rng.random() < 0.25:
            # the same rules (text and list forms) read from a policy file by the enforcement call itself
            c['from_file'] = True
        cases.append(c)
    # literals that parse but have no decimal string form (CPython's 4300-digit limit applies to str(), not to hex/octal
    # input): not evaluable, hence deny
    for kind in ('0x' + 'f' * 3600, '-0x' + 'f' * 3600, '[0x' + 'f' * 3600 + ']', '0o' + '7' * 4810):
        for rhs in ('x', '%(k)s'):
            cases.append(base_case(rules={'big': [[kind + ':' + rhs]]}, rule=('name', 'big'), creds={'roles': []},
                                   target={'k': 'v'}, do_raise=(rhs == 'x')))
    for kind in ('a.0', 'a.1', 'a.5', 'a.-1', 'roles.0', 'a.\u00b2', 'a.0.b', 'a.b.0', 'a.00', '0', '0.0'):
        for av in ([], ['x'], [[]], [{'b': 'x'}], [{'b': []}], 's', None, {}, {'0': 'x'}, {'b': []}, [['x']], 0):
            cases.append(base_case(rules={'p': [[kind + ':x']]}, rule=('name', 'p'), creds={'a': av, 'roles': []}, target={}))
    # a list in the MIDDLE of a path whose members are of every JSON type: members that are not containers are passed over
    for kind in ('a.b', 'a.b.c', 'a.roles', 'a.b.0', 'x.a.b'):
        for av in ([0, {'b': 'x'}], [{'b': 'x'}, 0], [None, {'b': 'x'}], [True, {'b': {'c': 'x'}}], ['s', {'b': 'x'}],
                   [[], {'b': 'x'}], [2.5], [0, False, None, '', 's'], [{'b': [0, {'c': 'x'}]}], [{'b': 0}, {'b': 'x'}],
                   [[0, {'b': 'x'}]], {'a': [0, {'b': 'x'}]}):
            cases.append(base_case(rules={'p': [[kind + ':x']], 'via': 'not rule:p'}, rule=('name', 'p' if len(cases) % 2 else 'via'),
                                   creds={'a': av, 'x': {'a': av}, 'roles': []}, target={}))
    # registered defaults with scope types whose check string carries placeholders: a scope mismatch
    # must surface as InvalidScope (or False), never as a formatting error
    for cs in ['role:%(wanted)s', 'project_id:%(project_id)s and role:%(k)s', "'x':%(y.z)s", 'role:admin', '%(odd)s:x']:
        for dr in (False, True):
            for es in (False, True):
                for creds in ({'roles': ['admin'], 'project_id': 'p'}, {'roles': [], 'system_scope': 'all'},
                              {'roles': ['admin'], 'domain_id': 'd'},
                              # scope attributes of every JSON type: any truthy `system` means system scope
                              {'roles': ['admin'], 'system': True}, {'roles': ['admin'], 'system': 1},
                              {'roles': [], 'system': 'x'}, {'roles': ['admin'], 'system': ['all']},
                              {'roles': ['admin'], 'system': {'all': True}}, {'roles': ['admin'], 'system_scope': 2.5},
                              {'roles': ['admin'], 'system_scope': ['all']}, {'roles': ['admin'], 'domain_id': 7},
                              {'roles': ['admin'], 'project_id': ['p'], 'domain_id': {}}):
                    for types in (['system'], ['project'], ['domain', 'system']):
                        cases.append(base_case(rules={'pol': cs}, rule=('name', 'pol'), creds=creds,
                                               target={'wanted': 'admin', 'project_id': 'p', 'k': 'admin'},
                                               registered={'pol': types}, registered_check={'pol': cs},
                                               enforce_scope=es, do_raise=dr, exc=None))
    run.count('cases', len(cases))
    bad_corr = []
    kinds = {}
    for c, (mres, mtr, ires, itr) in zip(cases, run_cases(cases)):
        run.evaluations += 1
        if out_of_model(mres):
            run.count('out_of_model')
        elif not agree(mres, ires):
            bad_corr.append((c, mres, ires))
        kinds[ires[0] + ':' + str(ires[1])] = kinds.get(ires[0] + ':' + str(ires[1]), 0) + 1
        if ires[0] == 'exc' and ires[1] not in DOCUMENTED:
            run.violation('crash:' + ires[1], 'enforce(%r) raised %s: %s' % (c['rule'][1], ires[1], ires[2:]),
                          {'kind': 'failing-input', 'suite': 'spec-c14', 'input': describe(c),
                           'expected': 'a decision or a documented exception', 'observed': ires})
        else:
            run.nontrivial.add(repr((c['rules'][c['rule'][1]] if c['rule'][1] in c['rules'] else None,
                                     sorted(map(repr, c['creds'].items())))))
    run.extra['outcome_histogram'] = kinds
    run.sample(describe(cases[0]))
    run.sample(describe(cases[len(cases) // 2]))
    run.extra['correspondence_disagreements'] = len(bad_corr)
    if bad_corr and not run.violations:
        c, m, i = next((x for x in bad_corr if corr_kind(x[1]) == 'failing-input'), bad_corr[0])
        run.violation('correspondence:S3', 'model and implementation disagree on a hostile rule',
                      {'kind': corr_kind(m), 'oracle': 'the Coq model, for which the property is proved', 'obligation': 'correspondence suite S3 (hostile leaves)',
                       'input': describe(c), 'model': m, 'observed': i, 'count': len(bad_corr)})
    run.rule = ('%d acyclic rule sets whose leaves have left sides from a hostile alphabet of %d texts (Python keywords, '
                'operators, brackets, digits, dots, quotes, huge integers, dunder names) or dotted paths, right sides with '
                'well-formed %%(key)s placeholders, in text and list form, against credentials whose values take every JSON type '
                'at every path position and targets with values of every JSON type; exception class escaping Enforcer.enforce '
                'must be documented; model vs implementation. non-trivial = distinct (rule, credentials)' % (n, len(LEFT)))


def replay(run, rep):
    from world import run_impl
    c = rep['input']
    c['default'] = tuple(c['default'])
    c['rule'] = tuple(c['rule'])
    ires, _ = run_impl(c)
    print('observed', ires)
    return not (ires[0] == 'exc' and ires[1] not in DOCUMENTED)
