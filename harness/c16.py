"""C16: a remote http(s) check allows only on an explicit True from the server."""
import copy
import itertools
import json
import os
import re

from common import S, enc_jv, run_batch, Opaque, work_dir
from common import corr_kind
from world import base_case, run_cases, describe, agree, out_of_model, _last_request
import world

GEN = ['GChecks.v', 'GPolicy.v', 'GParser.v']

ALPHA = ['"', 'T', 'r', 'u', 'e', 't', ' ', '\n']
EXTRA_BODIES = ['True', 'true', 'TRUE', '"True"', '""True""', '"True', 'True"', "'True'", ' True', 'True ', 'True\n',
                '1', 'yes', '', '""', '"', 'null', '{"allowed": true}', '[true]', 'T' * 500, 'True' * 2, '\x00True',
                'Тrue', 'True\x00', '﻿True', '"""""True"""', 'T"rue', 'Tr"ue', 'Tru"e', '"Tr"ue"', 'Tr""ue', 'T"r"u"e', '"T"rue', 'True"x', 'x"True',
                'Tr ue', 'T\nrue',
                # JSON spellings of the accepted text are not the accepted text
                '"\\u0054rue"', '"Tru\\u0065"', ' "True" ', '\t"True"\r\n', '"True"\n', '["True"]', '{"True": 1}', 'true\n']


def wire_target(t):
    """python target -> wire jv with opaque objects marked"""
    def conv(v):
        if type(v) is object:
            return Opaque(1)
        if isinstance(v, dict):
            return {k: conv(x) for k, x in v.items()}
        if isinstance(v, list):
            return [conv(x) for x in v]
        return v
    return conv(t)


def from_wire_jv(x):
    t = x[0]
    if t == 0:
        return None
    if t == 1:
        return bool(x[1])
    if t == 2:
        return x[1]
    if t == 3:
        return float(''.join(chr(c) for c in x[1]))
    if t == 4:
        return ''.join(chr(c) for c in x[1])
    if t == 5:
        return [from_wire_jv(y) for y in x[1]]
    if t == 6:
        return {''.join(chr(c) for c in k): from_wire_jv(v) for k, v in x[1]}
    return '<opaque>'


def run(run, binfo):
    tier, rng = run.tier, run.rng
    # ---- decisions: every body up to length N over the alphabet, under several wrappers
    maxlen = 4 if tier == 'quick' else 5
    bodies = list(EXTRA_BODIES)
    for n in range(0, maxlen + 1):
        bodies += [''.join(p) for p in itertools.product(ALPHA, repeat=n)]
    wrappers = [('pol', 'http://host/%(name)s'), ('pol', 'not https://h/x'), ('pol', 'role:x or (role:y and http://h/p)'),
                ('alias', 'rule:pol')]
    cases, wants = [], []
    # the reply's status code plays no part: the accepted bodies under every status, also as raw bytes, and bodies
    # that are not valid UTF-8 around the accepted text
    for b in ('True', '"True"', b'True', b'"True"', b'True\xff', b'\xffTrue', b'Tr\xffue', b'"True\xc3"', b'\xef\xbb\xbfTrue'):
        for status in (200, 201, 204, 301, 400, 401, 403, 404, 500, 503):
            c = base_case(rules={'pol': 'http://h/%(name)s', 'alias': 'rule:pol'}, rule=('name', 'pol'),
                          creds={'roles': ['y']}, target={'name': 'tgt'}, http=('reply', b, status))
            text = b.decode('utf-8', 'replace') if isinstance(b, bytes) else b
            c['content_json'] = status % 2 == 1
            cases.append(c)
            wants.append(('ret', text.lstrip('"').rstrip('"') == 'True'))
    for i, b in enumerate(bodies):
        name, text = wrappers[i % len(wrappers)]
        rules = {'pol': text if name == 'pol' else 'http://h/%(name)s', 'alias': 'rule:pol'}
        status = [200, 201, 204, 301, 400, 403, 404, 500, 503][i % 9]
        c = base_case(rules=rules, rule=('name', name), creds={'roles': ['y']}, target={'name': 'tgt'},
                      http=('reply', b, status))
        # how the request is encoded plays no part in how the reply is read
        c['content_json'] = (i // 2) % 2 == 1
        # ... nor does the log level, whatever the target's keys look like
        if i % 5 == 0:
            c['debug'] = True
            c['target'] = {'name': 'tgt', 'password': 'pw', 'auth_token': 'tk', 'nested': {'admin_pass': 'np'}}
        cases.append(c)
        ok = re.fullmatch(r'"*True"*', b) is not None
        if 'not ' in rules[name]:
            ok = not ok
        wants.append(('ret', ok))
    # faults
    for fault, want in [(('timeout',), ('exc', 'RuntimeError')), (('fault', 'ConnectionError'), ('exc', 'ConnectionError')),
                        (('fault', 'SSLError'), ('exc', 'SSLError')), (('fault', 'Fault'), ('exc', 'Fault'))]:
        for text in ('http://h/x', 'role:nobody or https://h/x', 'not http://h/x'):
            cases.append(base_case(rules={'pol': text}, rule=('name', 'pol'), creds={'roles': []}, http=fault))
            wants.append(want)
    # ... also when the remote check is reached through a reference: a fault is not a denial
    for fault, want in [(('timeout',), ('exc', 'RuntimeError')), (('fault', 'ConnectionError'), ('exc', 'ConnectionError')),
                        (('fault', 'Fault'), ('exc', 'Fault'))]:
        for name in ('alias', 'nalias', 'deep'):
            cases.append(base_case(rules={'pol': 'https://h/x', 'alias': 'rule:pol', 'nalias': 'not rule:pol',
                                          'deep': 'role:nobody or (rule:alias and role:y)'},
                                   rule=('name', name), creds={'roles': ['y']}, http=fault))
            wants.append(want)
    # missing URL key: KeyError escapes when enforced directly, denies through an alias
    cases.append(base_case(rules={'pol': 'http://h/%(missing)s'}, rule=('name', 'pol'), creds={}))
    wants.append(('exc', 'KeyError'))
    cases.append(base_case(rules={'pol': 'http://h/%(missing)s', 'alias': 'rule:pol'}, rule=('name', 'alias'), creds={}))
    wants.append(('ret', False))
    run.count('decision_cases', len(cases))
    bad_corr = []
    for c, want, (mres, mtr, ires, itr) in zip(cases, wants, run_cases(cases)):
        run.evaluations += 1
        mres2 = mres
        if mres[0] == 'exc' and mres[1] == 'Other1':
            mres2 = ('exc', want[1]) if want[0] == 'exc' else mres      # transport fault classes are opaque to the model
        if not out_of_model(mres2) and not agree(mres2, ires):
            bad_corr.append((c, mres, ires))
        elif mtr != itr and not (mres[0] == 'exc'):
            bad_corr.append((c, mtr, itr))
        if tuple(ires[:2]) != want:
            run.violation('decision', 'reply %r (status %r) for %r: %r, documented %r'
                          % (c.get('http'), c.get('http', [0, 0, 0])[-1], c['rules'], ires, want),
                          {'kind': 'failing-input', 'suite': 'spec-c16', 'input': describe(c),
                           'expected': list(want), 'observed': ires})
        if want == ('ret', True) or (c.get('http', ('',))[0] != 'reply'):
            run.nontrivial.add(repr(c.get('http')))
        # the request names the enforced policy
        for ev in itr:
            if ev[0] == 'http' and ev[2] != c['rule'][1]:
                run.violation('request-rule', 'request sent rule=%r while %r is enforced' % (ev[2], c['rule'][1]),
                              {'kind': 'failing-input', 'suite': 'spec-c16', 'input': describe(c),
                               'expected': c['rule'][1], 'observed': ev[2]})
    # ---- payload: both encodings, nested targets, opaque objects, target left unmodified
    from oslo_policy import policy
    world.register_custom()
    targets = [{}, {'name': 'n'}, {'name': 'n', 'network:tenant_id': 't-1', 'project.id': 'p.1', 'os-ext:zone': 'z'},
               {'name': 'n', 'nested': {'a': [1, {'b': None}], 'c': 2.5}},
               {'name': 'n', 'obj': object(), 'other': [1, 2]}, {'name': 'n', 'o1': object(), 'o2': object(), 'k': 'v'}]
    targets += [{'name': 'n', 'password': 'pw', 'token': 'tk'}, {'name': 'n', 'nested': {'admin_pass': 'np', 'auth_token': 't'}}]
    credss = [{}, {'roles': ['a', 'b'], 'user_id': 'u'}, {'roles': [], 'nested': {'x': [1, 2]}},
              # credentials that happen to carry the key the URL reads from the TARGET
              {'roles': ['a'], 'name': 'from-credentials', 'nested': 'c'}]
    preqs, pinfo = [], []
    for t, cr, form, depth in itertools.product(targets, credss, (True, False), (0, 1, 2)):
        text = 'http://host/path/%(name)s' if 'name' in t else 'http://host/path'
        if 'network:tenant_id' in t:
            text = 'http://host/path/%(name)s/%(network:tenant_id)s/%(project.id)s/%(os-ext:zone)s'
        for _ in range(depth):
            text = 'role:zz or (%s)' % text
        e = make_enforcer(form)
        e.set_rules(policy.Rules.from_dict({'the:policy': text, 'alias': 'rule:the:policy'}), use_conf=False)
        world.install_http_stub(('reply', 'True'))
        snap = copy.copy(t)
        keys_before = {k: id(v) for k, v in t.items()}
        name = 'alias' if depth == 2 else 'the:policy'
        if len(pinfo) % 2:
            # the encoding is the one configured when the request is made: the same loaded rule was used under
            # the other setting just before
            e.conf.set_override('remote_content_type',
                                'application/json' if form else 'application/x-www-form-urlencoded', group='oslo_policy')
            try:
                e.enforce(name, copy.copy(t), copy.deepcopy(cr))
            except Exception:   # noqa
                pass
            e.conf.set_override('remote_content_type',
                                'application/x-www-form-urlencoded' if form else 'application/json', group='oslo_policy')
            _last_request.clear()
        if len(pinfo) % 3 == 2 and 'name' in t:
            # the SAME target and credentials objects were used for an earlier request and updated in place since
            real_name, real_roles = t['name'], list(cr.get('roles', []))
            t['name'] = 'earlier'
            if 'roles' in cr:
                cr['roles'][:] = ['earlier-role']
            try:
                e.enforce(name, t, cr)
            except Exception:   # noqa
                pass
            t['name'] = real_name
            if 'roles' in cr:
                cr['roles'][:] = real_roles
            _last_request.clear()
        if len(pinfo) % 2 == 0:
            world._debug_logging(True)         # the log level plays no part in what is sent
        try:
            res = e.enforce(name, t, cr)
        finally:
            world._debug_logging(False)
        run.evaluations += 1
        req = dict(_last_request)
        if {k: id(v) for k, v in t.items()} != keys_before or t.keys() != snap.keys():
            run.violation('target-modified', 'the caller\'s target was modified by the remote check',
                          {'kind': 'failing-input', 'suite': 'spec-c16-payload',
                           'input': {'target': repr(t), 'form': form}, 'expected': 'unmodified', 'observed': repr(t)})
        if form:
            sent = {k: json.loads(v) for k, v in req['data'].items()} if req.get('data') else None
            enc_ok = req.get('json') is None
        else:
            sent = req.get('json')
            enc_ok = req.get('data') is None
        preqs.append([13, form, [S(name)], enc_jv(wire_target(t)), enc_jv(cr)])
        pinfo.append((t, cr, form, name, sent, enc_ok, req.get('url'), res))
    for (t, cr, form, name, sent, enc_ok, url, res), ans in zip(pinfo, run_batch(preqs)):
        want = {'rule': from_wire_jv(ans[1]), 'target': from_wire_jv(ans[2]), 'credentials': from_wire_jv(ans[3])}
        want_url = 'http://host/path/' + t['name'] if 'name' in t else 'http://host/path'
        if 'network:tenant_id' in t:
            want_url += '/t-1/p.1/z'
        if sent != want or not enc_ok or bool(ans[0]) != form or url != want_url or not res:
            run.violation('payload', 'request for target %r creds %r form=%r: sent %r to %r, model/documented %r to %r'
                          % (t, cr, form, sent, url, want, want_url),
                          {'kind': 'failing-input', 'suite': 'spec-c16-payload',
                           'input': {'target': repr(t), 'creds': cr, 'form': form}, 'expected': want, 'observed': sent})
        run.nontrivial.add(('payload', repr(t), repr(cr), form, name))
    run.count('payload_cases', len(pinfo))
    # opaque objects below the top level: whatever the check does with them (the unchanged code cannot serialise them),
    # the caller's target -- every container in it, by identity and content -- is as it was
    def shape(v):
        if isinstance(v, dict):
            return ('d', id(v), tuple((k, shape(x)) for k, x in v.items()))
        if isinstance(v, list):
            return ('l', id(v), tuple(shape(x) for x in v))
        return ('v', id(v))
    for form in (True, False):
        for mk in (lambda: {'name': 'n', 'nested': {'o': object(), 'k': 'v'}},
                   lambda: {'name': 'n', 'lst': [object(), {'o': object()}]},
                   lambda: {'name': 'n', 'deep': {'a': {'b': [1, {'c': object()}]}}, 'top': object()}):
            t = mk()
            before = shape(t)
            e = make_enforcer(form)
            e.set_rules(policy.Rules.from_dict({'the:policy': 'http://host/path/%(name)s'}), use_conf=False)
            world.install_http_stub(('reply', 'True'))
            try:
                e.enforce('the:policy', t, {'roles': []})
            except Exception:   # noqa
                pass
            run.evaluations += 1
            if shape(t) != before:
                run.violation('target-modified', 'the caller\'s target (opaque objects below the top level) was modified '
                              'by the remote check',
                              {'kind': 'failing-input', 'suite': 'spec-c16-payload',
                               'input': {'target': repr(t), 'form': form}, 'expected': 'unmodified', 'observed': repr(t)})
    # ---- TLS file pre-checks (https)
    tls_rows = tls_table(run)
    run.count('tls_rows', tls_rows)
    run.sample(describe(cases[40]))
    run.sample({'target': repr(targets[3]), 'form': True})
    run.extra['correspondence_disagreements'] = len(bad_corr)
    if bad_corr and not run.violations:
        c, m, i = next((x for x in bad_corr if corr_kind(x[1]) == 'failing-input'), bad_corr[0])
        run.violation('correspondence:S9', 'model and implementation disagree on a remote check',
                      {'kind': corr_kind(m), 'oracle': 'the Coq model, for which the property is proved', 'obligation': 'correspondence suite S9 (http)',
                       'input': describe(c), 'model': m, 'observed': i, 'count': len(bad_corr)})
    run.rule = ('every reply body of length <= %d over %r plus %d hand-picked ones (case variants, quotes, whitespace, JSON true, '
                'empty, long, BOM/NUL, homoglyph), cycling over 9 status codes and 4 placements (direct, under not, nested, through '
                'an alias): decision vs the accepted form "*True"*; timeout / connection / TLS / other faults raise; both content '
                'types x 5 targets (nested values, opaque objects) x 3 credentials x 3 nesting depths: recorded request (url, rule '
                '= enforced name, complete target with opaque objects blanked, credentials, encoding) vs the model, caller target '
                'unmodified; the TLS client/CA file pre-check table. non-trivial = allowed bodies, faults, payload cases'
                % (maxlen, ALPHA, len(EXTRA_BODIES)))


def make_enforcer(form):
    from oslo_policy import policy
    conf = world.fresh_conf()
    conf.set_override('remote_content_type',
                      'application/x-www-form-urlencoded' if form else 'application/json', group='oslo_policy')
    return policy.Enforcer(conf, policy_file='policy.yaml', use_conf=False)


def tls_table(run):
    from oslo_policy import policy
    rows = 0
    wd = work_dir()
    paths = {}
    for nm in ('cert', 'key', 'ca'):
        p = os.path.join(wd, nm + '.pem')
        open(p, 'w').write('x')
        paths[nm] = p
    missing = os.path.join(wd, 'missing.pem')
    reqs, info = [], []
    for cert, key, ca, verify in itertools.product(['unset', 'ok', 'missing'], ['unset', 'ok', 'missing'],
                                                   ['unset', 'ok', 'missing'], [False, True]):
        conf = world.fresh_conf()
        val = {'unset': None, 'ok': None, 'missing': missing}
        conf.set_override('remote_ssl_client_crt_file', paths['cert'] if cert == 'ok' else val[cert], group='oslo_policy')
        conf.set_override('remote_ssl_client_key_file', paths['key'] if key == 'ok' else val[key], group='oslo_policy')
        conf.set_override('remote_ssl_ca_crt_file', paths['ca'] if ca == 'ok' else val[ca], group='oslo_policy')
        conf.set_override('remote_ssl_verify_server_crt', verify, group='oslo_policy')
        e = policy.Enforcer(conf, policy_file='policy.yaml', use_conf=False)
        e.set_rules(policy.Rules.from_dict({'p': 'https://h/x'}), use_conf=False)
        world.install_http_stub(('reply', 'True'))
        _last_request.clear()
        try:
            r = ('ret', bool(e.enforce('p', {}, {})))
            v = _last_request['kw'].get('verify')
            sent_verify = 2 if isinstance(v, str) else (1 if v else 0)
            obs = [0, sent_verify]
        except RuntimeError:
            obs = [1, 7]
        rows += 1
        run.evaluations += 1

        def st(x):
            return [] if x == 'unset' else ([1, 1] if x == 'ok' else [0, 0])
        reqs.append([14, st(cert), st(key), st(ca), verify])
        info.append(((cert, key, ca, verify), obs))
        for k in ('remote_ssl_client_crt_file', 'remote_ssl_client_key_file', 'remote_ssl_ca_crt_file',
                  'remote_ssl_verify_server_crt'):
            conf.clear_override(k, group='oslo_policy')
    for (row, obs), ans in zip(info, run_batch(reqs)):
        if list(ans) != obs:
            run.violation('tls-precheck', 'TLS files %r: implementation %r, model %r' % (row, obs, ans),
                          {'kind': 'broken-obligation', 'obligation': 'correspondence (HttpsCheck TLS pre-checks)',
                           'input': list(row), 'model': ans, 'observed': obs})
        # a configured but missing client file must never lead to a request
        cert, key, ca, verify = row
        if (cert == 'missing' or key == 'missing' or (verify and ca == 'missing')) and obs[0] == 0:
            run.violation('tls-missing-file', 'a configured TLS file is missing but the request was sent: %r' % (row,),
                          {'kind': 'failing-input', 'suite': 'spec-c16-tls', 'input': list(row),
                           'expected': 'RuntimeError', 'observed': obs})
    return rows


def replay(run, rep):
    from world import run_impl
    c = rep['input']
    if 'rules' not in c:
        print('replay re-runs the payload/TLS part only through the quick check')
        return False
    c['default'] = tuple(c['default'])
    c['rule'] = tuple(c['rule'])
    c['http'] = tuple(c['http'])
    ires, _ = run_impl(c)
    print('observed', ires, 'expected', rep.get('expected'))
    return list(ires[:2]) == list(rep.get('expected'))
