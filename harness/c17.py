"""C17: a generated sample policy file overrides nothing and states every default."""
import json
import textwrap

import yaml

from common import work_dir, S, run_batch, unS

GEN = ['GChecks.v', 'GParser.v']

WORDS = ['Show', 'the', 'details', 'of', 'a', 'server.', '#hash', 'key:', 'value', '"quoted"', "it's", '-', '- item',
         'x' * 90, 'GET', '/v2/{id}', 'a:b', '%(x)s', 'naïve', 'Ünï', '\t', '  ', '{', '}', '[', ']', '!', '@', '&', '*',
         '|', '>', '%', '`', "'", '\\', '?', ',', '#']
BREAKS = ['\n', '\n\n', '\n  ', '\n    indented literal\n', '\r\n', '\r', '\x0b', '\x0c', '\x1c', '\x1d', '\x1e', '\x85',
          ' ', ' ', '\n\t', ' \n', '\n#', '\n"k": "v"', '\n"admin": "@"\n']
NAMES = ['compute:get', 'os_compute_api:servers:show', 'identity:list_users', 'a', 'admin_required', 'x.y-z_0', 'rule']
CHECKS = ['role:admin', 'rule:admin_required or project_id:%(project_id)s', '@', '!', '',
          "(role:a and not role:b) or 'literal':%(k)s", 'is_admin:True', 'http://h/%(x)s', "'x':%(y.z)s",
          # longer than any line-folding width, with and without spaces to fold at; characters outside Latin-1 / the BMP
          ' or '.join('role:some_rather_long_role_name_%d' % i for i in range(7)),
          'rule:' + 'x' * 130, 'role:team-\U00020bb7\u91ce or role:\u00e9quipe', 'role:a\tb',
          "'" + 'long literal ' * 9 + "':%(k)s and role:z"]


def rand_text(rng, hostile=True):
    n = rng.randint(0, 14)
    out = ''
    for i in range(n):
        out += rng.choice(WORDS)
        r = rng.random()
        if hostile and r < 0.25:
            out += rng.choice(BREAKS)
        else:
            out += ' '
    if rng.random() < 0.2:
        out = rng.choice(['  ', '\n', '\t']) + out
    return out


def gen_default(rng):
    from oslo_policy import policy
    name = rng.choice(NAMES) + rng.choice(['', ':x', '_2'])
    check = rng.choice(CHECKS)
    desc = rand_text(rng) if rng.random() < 0.85 else rng.choice([None, '', '   ', '\n'])
    kind = rng.random()
    kw = {}
    shape = 'plain'
    if kind < 0.25:
        kw = dict(deprecated_for_removal=True, deprecated_reason=rand_text(rng), deprecated_since=rng.choice(['N', '3.2.0', 'Xena']))
        shape = 'removal'
    elif kind < 0.6:
        renamed = rng.random() < 0.5
        old = policy.DeprecatedRule(name + ':old' if renamed else name, rng.choice(CHECKS),
                                    deprecated_reason=rand_text(rng) if rng.random() < 0.8 else None,
                                    deprecated_since=rng.choice(['N', '21.0.0', None]))
        kw = dict(deprecated_rule=old)
        if rng.random() < 0.2:
            kw.update(deprecated_reason=rand_text(rng), deprecated_since='S')
        shape = 'renamed' if renamed else 'changed'
    scope = rng.choice([None, None, ['project'], ['system', 'project'], []])
    if rng.random() < 0.6 and desc and desc.strip():
        ops = [{'method': rng.choice(['GET', 'POST', '']), 'path': rng.choice(['/v2/servers', '/x/{id}', ''])}
               for _ in range(rng.randint(1, 3))]
        d = policy.DocumentedRuleDefault(name, check, desc, ops, scope_types=scope, **kw)
    else:
        d = policy.RuleDefault(name, check, description=desc, scope_types=scope, **kw)
    return d, shape


def prep_desc(text):
    """the oracle side of _format_help_text: None for a falsy description, else strip().splitlines()"""
    if not text:
        return []
    return [[S(l) for l in text.strip().splitlines()]]


def enc_default(d):
    ops = []
    if hasattr(d, 'operations'):
        ops = [[[S(o['method']), S(o['path'])] for o in d.operations]]
    scope = [] if getattr(d, 'scope_types', None) is None else [[S(x) for x in d.scope_types]]
    if d.deprecated_for_removal:
        dep = [1, S(str(d.deprecated_since)), prep_desc(d.deprecated_reason)]
    elif d.deprecated_rule:
        r = d.deprecated_rule
        reason = r.deprecated_reason or d.deprecated_reason
        since = r.deprecated_since or d.deprecated_since
        dep = [2, S(r.name), S(r.check_str), S(str(since)), prep_desc(reason)]
    else:
        dep = [0]
    return [S(d.name), S(d.check_str), prep_desc(d.description), ops, scope, dep]


def wrap(text):
    return textwrap.wrap(text, 70, initial_indent='# ', subsequent_indent='# ')


def run(run, binfo):
    import warnings
    warnings.simplefilter('ignore')
    from oslo_policy import generator, policy
    tier, rng = run.tier, run.rng
    n = 500 if tier == 'quick' else 20000
    bad_corr = []
    shapes = {}
    reqs, infos = [], []
    for i in range(n):
        ds = []
        names = set()
        for _ in range(rng.randint(1, 5)):
            d, shape = gen_default(rng)
            if d.name in names:
                continue
            names.add(d.name)
            ds.append(d)
            shapes[shape] = shapes.get(shape, 0) + 1
        ex = rng.random() < 0.3
        reqs.append([15, ex, [enc_default(d) for d in ds]])
        infos.append((ds, ex))
    # a catalogue: every kind of default x every kind of (missing) description / reason / scope, each on its own
    from oslo_policy import policy as _p
    for desc_ in (None, '', '   ', 'Some text.'):
        for scope_ in (None, ['project']):
            for kind_ in ('plain', 'removal-noreason', 'removal', 'renamed-noreason', 'renamed', 'changed'):
                kw_ = {}
                if kind_.startswith('removal'):
                    kw_ = dict(deprecated_for_removal=True, deprecated_reason='' if 'noreason' in kind_ else 'going away',
                               deprecated_since='N')
                elif kind_.startswith('renamed') or kind_ == 'changed':
                    kw_ = dict(deprecated_rule=_p.DeprecatedRule(
                        'cat:old' if kind_.startswith('renamed') else 'cat:rule', 'role:old',
                        deprecated_reason=None if 'noreason' in kind_ else 'because', deprecated_since='N'))
                for ex_ in (False, True):
                    d_ = _p.RuleDefault('cat:rule', 'role:member', description=desc_, scope_types=scope_, **kw_)
                    reqs.append([15, ex_, [enc_default(d_)]])
                    infos.append(([d_], ex_))
    # the constructors called the way their signatures allow: every argument positional, in the documented order
    # (name, check_str, description, deprecated_rule, deprecated_for_removal, deprecated_reason, deprecated_since, scope_types)
    for reason_ in ('going away', 'Remove your overrides:\nthey are ignored.', 'a: b\n"k": v\n- item', ''):
        for since_ in ('N', '2024.1'):
            for ex_ in (False, True):
                pos = [_p.RuleDefault('pos:rule', 'role:member', 'Some text.', None, True, reason_, since_, ['project']),
                       _p.DocumentedRuleDefault('pos:doc', 'role:reader', 'Documented.', [{'path': '/x', 'method': 'GET'}],
                                                None, True, reason_, since_),
                       _p.RuleDefault('pos:ren', 'role:new', 'Renamed.',
                                      _p.DeprecatedRule('pos:old', 'role:old', deprecated_reason=reason_ or 'r',
                                                        deprecated_since=since_))]
                for d_ in pos:
                    reqs.append([15, ex_, [enc_default(d_)]])
                    infos.append(([d_], ex_))
    for (ds, ex), ans in zip(infos, run_batch(reqs)):
        run.evaluations += 1
        desc = {'defaults': [(d.name, d.check_str, d.description) for d in ds], 'exclude_deprecated': ex}
        try:
            text = ''.join(generator._sort_and_format_by_section({'sec': ds}, 'yaml', include_help=True,
                                                                  exclude_deprecated=ex))
            jparts = list(generator._sort_and_format_by_section({'sec': ds}, 'json'))
        except Exception as e:   # noqa
            run.violation('sample-crash', 'the sample generator fails with %s: %s' % (type(e).__name__, str(e)[:200]),
                          {'kind': 'failing-input', 'suite': 'spec-c17', 'input': desc, 'expected': 'a sample file',
                           'observed': type(e).__name__})
            continue
        jtext = '{\n    ' + ',\n    '.join(jparts) + '\n}\n'
        # model
        lines = []
        for o in ans[0]:
            if o[0] == 0:
                lines.append(unS(o[1]))
            else:
                lines += wrap(unS(o[1]))
        mtext = ''.join(l + '\n' for l in lines)
        desc = {'defaults': [(d.name, d.check_str, d.description) for d in ds], 'exclude_deprecated': ex}
        if mtext != text or unS(ans[1]) != jtext:
            bad_corr.append((desc, mtext[:400], text[:400]))
        want = {d.name: d.check_str for d in ds}
        # (1) the sample overrides nothing
        try:
            loaded = yaml.safe_load(text)
        except Exception as e:   # noqa
            loaded = 'YAML ERROR %s' % type(e).__name__
        if loaded is not None:
            run.violation('sample-overrides', 'the generated sample is not all comments: it loads as %r' % (loaded,),
                          {'kind': 'failing-input', 'suite': 'spec-c17', 'input': desc, 'expected': None,
                           'observed': repr(loaded)[:500]})
            continue
        # (2) uncommenting the rule lines gives exactly name -> default check string
        unc = '\n'.join(l[1:] if l.startswith('#"') else l for l in text.split('\n'))
        try:
            got = yaml.safe_load(unc) or {}
            r = policy.Rules.load(unc)
            okload = set(r.keys()) == set(want.keys())
        except Exception as e:   # noqa
            got, okload = 'YAML ERROR %s' % type(e).__name__, False
        if got != want or not okload:
            run.violation('sample-mapping', 'uncommented sample maps %r, defaults are %r' % (got, want),
                          {'kind': 'failing-input', 'suite': 'spec-c17', 'input': desc, 'expected': want,
                           'observed': repr(got)[:500]})
        # (3) the JSON sample holds the same mapping
        try:
            jgot = json.loads(jtext)
        except Exception as e:   # noqa
            jgot = 'JSON ERROR %s' % type(e).__name__
        if jgot != want:
            run.violation('json-mapping', 'JSON sample holds %r, defaults are %r' % (jgot, want),
                          {'kind': 'failing-input', 'suite': 'spec-c17', 'input': desc, 'expected': want,
                           'observed': repr(jgot)[:500]})
        run.nontrivial.add(text)
    # ---- end to end through _generate_sample: the defaults spread over several namespaces (some of them empty)
    from unittest import mock
    import tempfile
    nend = 0
    for j, (ds, ex) in enumerate(infos):
        if j % 4:
            continue
        nns = 1 + (j // 4) % 3
        spread = {'ns%d' % t: [] for t in range(nns + (1 if (j // 12) % 2 else 0))}     # sometimes one more, left empty
        keys = sorted(spread)
        for t, d in enumerate(ds):
            spread[keys[(t + j) % nns]].append(d)
        if (j // 24) % 2:
            spread = dict([('ns_empty_first', [])] + list(spread.items()))
        desc = {'namespaces': {k: [(d.name, d.check_str) for d in v] for k, v in spread.items()}, 'exclude_deprecated': ex}
        want = {d.name: d.check_str for d in ds}
        for fmt in ('yaml', 'json'):
            nend += 1
            run.evaluations += 1
            with tempfile.NamedTemporaryFile('r', suffix='.' + fmt, dir=work_dir()) as tf:
                if j % 8 == 0:
                    # regenerating over an older, longer sample
                    with open(tf.name, 'w') as old_f:
                        old_f.write('"stale:rule": "role:stale"\n' * 400)
                try:
                    with mock.patch.object(generator, 'get_policies_dict', return_value=spread):
                        generator._generate_sample(list(spread), tf.name, fmt, include_help=True, exclude_deprecated=ex)
                    out = open(tf.name).read()
                except Exception as e:   # noqa
                    run.violation('sample-crash', 'oslopolicy-sample-generator fails with %s' % type(e).__name__,
                                  {'kind': 'failing-input', 'suite': 'spec-c17', 'input': dict(desc, format=fmt),
                                   'expected': 'a sample file', 'observed': type(e).__name__})
                    continue
            if fmt == 'json':
                try:
                    jgot = json.loads(out)
                except Exception as e:   # noqa
                    jgot = 'JSON ERROR %s' % type(e).__name__
                if jgot != want:
                    run.violation('json-mapping', 'JSON sample over namespaces %r holds %r, defaults are %r'
                                  % (list(spread), jgot, want),
                                  {'kind': 'failing-input', 'suite': 'spec-c17', 'input': dict(desc, format=fmt),
                                   'expected': want, 'observed': repr(jgot)[:500]})
            else:
                try:
                    loaded = yaml.safe_load(out)
                    unc = '\n'.join(l[1:] if l.startswith('#"') else l for l in out.split('\n'))
                    got = yaml.safe_load(unc) or {}
                except Exception as e:   # noqa
                    loaded, got = 'YAML ERROR %s' % type(e).__name__, None
                if loaded is not None or got != want:
                    run.violation('sample-mapping', 'YAML sample over namespaces %r: loads as %r, uncommented %r, defaults %r'
                                  % (list(spread), loaded, got, want),
                                  {'kind': 'failing-input', 'suite': 'spec-c17', 'input': dict(desc, format=fmt),
                                   'expected': want, 'observed': repr(got)[:500]})
    run.count('end_to_end_samples', nend)
    run.extra['shape_histogram'] = shapes
    run.sample({'defaults': [(d.name, d.check_str, d.description) for d in infos[0][0]]})
    run.extra['correspondence_disagreements'] = len(bad_corr)
    if bad_corr and not run.violations:
        c, m, i = bad_corr[0]
        run.violation('correspondence:S8', 'model and implementation generate different sample text',
                      {'kind': 'broken-obligation', 'obligation': 'correspondence suite S8 (sample generator)',
                       'input': c, 'model': m, 'observed': i, 'count': len(bad_corr)})
    run.rule = ('%d lists of 1-5 RuleDefault/DocumentedRuleDefault objects (plain, deprecated for removal, renamed, changed '
                'default; names/check strings over the rule-language alphabet incl. quoted literals and %%(key)s) with descriptions '
                'and reasons built from hostile pieces (newlines, CR, VT, FF, FS/GS/RS, NEL, U+2028/2029, tabs, #, quotes, colons, '
                'leading whitespace, 90-character words, text that looks like a rule line), with and without exclude-deprecated: '
                'text vs the model (wrap placeholders expanded by the real textwrap); the YAML sample loads as nothing; with rule '
                'lines uncommented it loads (PyYAML and Rules.load) as exactly name -> check string; JSON sample = same mapping. '
                'non-trivial = distinct sample texts' % n)


def replay(run, rep):
    print('C17 replays re-run the quick check; input was', rep.get('input'))
    return False
