"""C04: role:X passes exactly when the credentials hold role X, ignoring case."""
from common import S, enc_jv, run_batch, unS
from common import corr_kind
from world import base_case, run_cases, describe, out_of_model, agree

GEN = ['GChecks.v', 'GUnicode.v', 'GParser.v']

ALPHABET = 'aAbBzZ019-_.:/@+éÉñÑüÜαΑβΒωΩдДяЯ'
KEYS = ['k', 'key2', 'a.b', 'auth_token', 'x_password', 'target.secret.owner']


def rand_name(rng, lo=1, hi=6):
    return ''.join(rng.choice(ALPHABET) for _ in range(rng.randint(lo, hi)))


def casevar(rng, x):
    return ''.join((c.upper() if rng.random() < 0.5 else c.lower()) for c in x)


def enc_parts(parts):
    return [[0, S(t)] if kind == 'lit' else [1, S(t)] for kind, t in parts]


def gen_case(rng):
    """-> (parts, target, creds)"""
    form = rng.choice(['lit', 'hole', 'mixed', 'mixed'])
    target = {}
    if form == 'lit':
        parts = [('lit', rand_name(rng))]
    elif form == 'hole':
        parts = [('hole', rng.choice(KEYS))]
    else:
        parts = []
        for _ in range(rng.randint(2, 3)):
            parts.append(('lit', rand_name(rng, 0, 3)) if rng.random() < 0.5 else ('hole', rng.choice(KEYS)))
    for kind, t in parts:
        if kind == 'hole' and rng.random() < 0.8:
            target[t] = rng.choice([rand_name(rng), rand_name(rng), 7, None, True, 1.5])
    # what X comes out (python-side, only to aim the role list; the oracle is the Coq spec)
    try:
        x = ''.join(t if kind == 'lit' else str(target[t]) for kind, t in parts)
    except KeyError:
        x = rand_name(rng)
    r = rng.random()
    if r < 0.12:
        creds = {'user_id': 'u'}
    elif r < 0.22:
        creds = {'roles': []}
    else:
        roles = []
        for _ in range(rng.randint(1, 4)):
            q = rng.random()
            if q < 0.3:
                roles.append(casevar(rng, x))
            elif q < 0.36:
                # a role name is compared whole: surrounding white space is part of it
                roles.append(rng.choice([' ', '\t', '']) + casevar(rng, x) + rng.choice([' ', '\n', ' ']))
            elif q < 0.5:
                roles.append(x + rng.choice(ALPHABET))
            elif q < 0.6 and len(x) > 1:
                roles.append(x[:-1])
            else:
                roles.append(rand_name(rng))
        creds = {'roles': roles}
    return parts, target, creds


def run(run, binfo):
    tier, rng = run.tier, run.rng
    n = 4000 if tier == 'quick' else 80000
    gens = [gen_case(rng) for _ in range(n)]
    # every single-character name of the generated lower-casing table
    import sys
    table_chars = [chr(c) for c in range(sys.maxunicode + 1)
                   if not (0xD800 <= c < 0xE000) and chr(c).lower() != chr(c)]
    if tier == 'quick':
        table_chars = table_chars[::3]
    for ch in table_chars:
        gens.append(([('lit', ch)], {}, {'roles': [ch.lower()]}))
        gens.append(([('lit', ch.lower())], {}, {'roles': ['zz', ch]}))
    # small scope, exhaustively: every X of length <= 2 over a tiny alphabet that holds the boundary characters (two
    # cases of a letter, another letter, a blank, a comma) and the empty string, literal or filled from the target,
    # against every role list of length <= 2 over names built from the same characters (and no roles entry at all)
    import itertools
    tiny = ['a', 'A', 'b', ' ', ',']
    xs = [''] + tiny + [p + q for p, q in itertools.product(tiny, repeat=2)]
    rolenames = ['', 'a', 'A', 'b', 'ab', 'a ', ' a', 'a,b', 'aa']
    rolelists = [None, []] + [[r] for r in rolenames] + [[r, q] for r, q in itertools.product(rolenames, repeat=2)]
    if tier == 'quick':
        rolelists = rolelists[::2]
    for x in xs:
        for rl in rolelists:
            creds = {'user_id': 'u'} if rl is None else {'roles': rl}
            gens.append(([('lit', x)], {}, creds))
            gens.append(([('hole', 'k')], {'k': x}, creds))
        gens.append(([('hole', 'k')], {}, {'roles': [x, '']}))
    # what a placeholder is filled with is taken as it is (percent signs and all); a dotted key is ONE key
    for v in ('ops%%eu', 'ops%eu', '%(k)s', '%s', '100%', '%%'):
        for rl in ([v], [v.upper()], [v.replace('%%', '%')], [v + v]):
            gens.append(([('hole', 'k')], {'k': v}, {'roles': rl}))
            gens.append(([('lit', 'x-'), ('hole', 'k')], {'k': v}, {'roles': ['x-' + r for r in rl]}))
    for nested in ({'a': {'b': 'Ops'}}, {'a': {'b': 'Ops'}, 'a.b': 'other'}, {'target': {'secret': {'owner': 'Ops'}}},
                   {'a': 'Ops'}, {'a': {'b': {'c': 'Ops'}}}):
        for key in ('a.b', 'target.secret.owner'):
            gens.append(([('hole', key)], nested, {'roles': ['ops', 'other']}))
    # a placeholder is filled from the TARGET only: same-named entries of the credentials do not stand in
    for key in ('k', 'key2', 'a.b', 'project_name'):
        for val in ('Ops', 'acme'):
            gens.append(([('hole', key)], {}, {key: val, 'roles': [val.lower(), 'zz']}))
            gens.append(([('hole', key)], {'other': val}, {key: val, 'roles': [val.upper()]}))
            gens.append(([('hole', key)], {key: 'tgt'}, {key: val, 'roles': [val.lower(), 'TGT']}))
    # names that differ by more than letter case -- compatibility forms (full width, ligature, superscript), combining
    # sequences versus precomposed letters -- are different names
    for x, other in (('admin', '\uff41\uff44\uff4d\uff49\uff4e'), ('fi', '\ufb01'), ('2', '\u00b2'), ('a', '\u00aa'),
                     ('\u00e9', 'e\u0301'), ('ss', '\u00df'), ('i', '\u0131'), ('k', '\u212a'), ('\u03c3', '\u03c2')):
        for a, b in ((x, other), (other, x)):
            gens.append(([('lit', a)], {}, {'roles': [b]}))
            gens.append(([('lit', a.upper())], {}, {'roles': [b, 'zz']}))
            gens.append(([('hole', 'k')], {'k': a}, {'roles': [b.upper()]}))
    # placeholder KEYS are case-sensitive even though role NAMES are not: the same template with another spelling of the key
    # is another rule (both orders of appearance within this process)
    for k1, k2 in (('project', 'Project'), ('Key', 'key'), ('tenant_name', 'TENANT_NAME')):
        for pre in ([], [('lit', 'Team-')]):
            for ka, kb in ((k1, k2), (k2, k1)):
                gens.append((pre + [('hole', ka)], {ka: 'dev', kb: 'Ops'}, {'roles': ['team-dev', 'DEV', 'zz']}))
                gens.append((pre + [('hole', kb)], {ka: 'dev', kb: 'Ops'}, {'roles': ['team-ops', 'ops', 'reader']}))
                gens.append((pre + [('hole', ka)], {kb: 'dev'}, {'roles': ['team-dev', 'DEV']}))
                gens.append((pre + [('hole', kb)], {ka: 'dev'}, {'roles': ['team-dev', 'DEV']}))
    reqs = [[8, 0, enc_parts(p), enc_jv(t), enc_jv(c)] for p, t, c in gens]
    spec = run_batch(reqs)
    cases, wants = [], []
    for (p, t, c), sp in zip(gens, spec):
        text, wf, want = unS(sp[0]), bool(sp[1]), bool(sp[2])
        if not wf:
            run.count('ill_formed_template_skipped')
            continue
        cases.append(base_case(rules={'r': [['role:' + text]]}, target=t, creds=c, debug=(len(cases) % 3 == 0)))
        wants.append(want)
        if set(c) == {'roles'} and isinstance(c['roles'], list) and all(isinstance(r, str) for r in c['roles']) \
                and len(cases) % 4 == 1:
            # the same role list handed over in the other representations of credentials: the request context object and
            # the mapping its to_policy_values() returns
            cases.append(base_case(rules={'r': [['role:' + text]]}, target=t, creds=c))
            cases[-1]['creds_as'] = ('context', 'policy_values')[(len(cases) // 4) % 2]
            wants.append(want)
            run.count('representation_cases')
        # through the text language as well when the leaf can be written there
        if not any(ch.isspace() for ch in text) and text and not text.endswith(')') \
                and '(' not in text[:1]:
            cases.append(base_case(rules={'r': 'not not role:' + text}, target=t, creds=c))
            wants.append(want)
    run.count('cases', len(cases))
    bad_corr = []
    npos = 0
    for c, want, (mres, mtr, ires, itr) in zip(cases, wants, run_cases(cases)):
        run.evaluations += 1
        if out_of_model(mres):
            run.count('out_of_model')
        elif not agree(mres, ires):
            bad_corr.append((c, mres, ires))
        if tuple(ires[:2]) != ('ret', want):
            run.violation('decision', 'role check %r target %r creds %r -> %r, documented %r'
                          % (c['rules']['r'], c['target'], c['creds'], ires, want),
                          {'kind': 'failing-input', 'suite': 'spec-c04', 'input': describe(c),
                           'expected': want, 'observed': ires})
        if want:
            npos += 1
            run.nontrivial.add(repr((c['rules']['r'], sorted(c['creds'].get('roles', [])))))
    run.count('allowed', npos)
    run.sample(describe(cases[1]))
    run.sample(describe(cases[len(cases) // 2]))
    run.extra['correspondence_disagreements'] = len(bad_corr)
    if bad_corr and not run.violations:
        c, m, i = next((x for x in bad_corr if corr_kind(x[1]) == 'failing-input'), bad_corr[0])
        run.violation('correspondence:S3', 'model and implementation disagree on a role check',
                      {'kind': corr_kind(m), 'oracle': 'the Coq model, for which the property is proved', 'obligation': 'correspondence suite S3 (role check)',
                       'input': describe(c), 'model': m, 'observed': i, 'count': len(bad_corr)})
    run.rule = ('%d generated (template, target, credentials) triples over the alphabet %r (literal, placeholder and mixed '
                'forms; targets with/without the key; credentials without roles, with [], with case variants / prefixes / '
                'extensions of X) + the small scope (all X of length <= 2 over {a, A, b, blank, comma} x all role lists of length <= 2) + every single-character name of the regenerated lower-casing table; extracted spec_role '
                'vs Enforcer.enforce, model vs implementation; non-trivial = distinct allowed cases' % (n, ALPHABET))


def replay(run, rep):
    from world import run_impl
    c = rep['input']
    c['default'] = tuple(c['default'])
    c['rule'] = tuple(c['rule'])
    ires, _ = run_impl(c)
    print('observed', ires, 'expected', rep.get('expected'))
    return tuple(ires[:2]) == ('ret', rep.get('expected'))
