"""C03: unknown policy names fail closed; the default rule is the only fallback."""
import itertools
import zlib

from common import S, run_batch
from common import corr_kind
from world import base_case, run_cases, describe, out_of_model, agree

GEN = ['GPolicy.v', 'GChecks.v', 'GParser.v']

NAMES = ['a', 'b', 'default']
BODIES = ['role:x', 'role:y', '@', '!', 'rule:a', 'rule:default']
ROLESETS = [[], ['x'], ['y'], ['x', 'y']]
FLIP = {'role:x': 'role:y', 'role:y': 'role:x', '@': '!', '!': '@', 'rule:a': '!', 'rule:default': '@'}


def spec_decision(rules, default, name, roles, depth=0):
    """independent reading of the statement, for rule sets whose bodies are role checks,
    constants or one reference"""
    def ev(text, depth):
        if depth > 8:
            return None
        if text == '@':
            return True
        if text == '!':
            return False
        if text.startswith('not '):
            v = ev(text[4:], depth)
            return None if v is None else not v
        if ' or ' in text:
            vs = [ev(t, depth) for t in text.split(' or ')]
            return None if None in vs else any(vs)
        if text.startswith('role:'):
            return text[5:] in roles
        if text.startswith('rule:'):
            return resolve(text[5:], depth + 1)
        raise ValueError(text)

    def resolve(n, depth):
        if n in rules:
            return ev(rules[n], depth)
        if default[0] == 'check':
            return ev(default[1], depth)
        if default[0] == 'name_empty' and 'default' in rules:
            return ev(rules['default'], depth)
        if default[0] in ('name', 'conf') and default[1] and default[1] in rules:
            return ev(rules[default[1]], depth)
        return False
    if not rules:
        return False
    return resolve(name, 0)


def run(run, binfo):
    tier = run.tier
    cases, specs = [], []
    names = NAMES if tier == 'quick' else NAMES + ['c']
    defaults = [('none',), ('name', 'default'), ('name', 'nodefault'), ('name', 'a'),
                ('check', 'role:x'), ('check', '!'), ('dict',), ('conf', 'default'), ('conf', 'b'),
                # a default given as a check object may be any check: a constant, a negation, a disjunction
                ('check', '@'), ('check', 'not role:x'), ('check', 'role:x or role:y'),
                # an empty string given to the constructor is "not given": the option (stock value `default`) applies
                ('name_empty',)]
    queried = names + ['zz']
    # all rule sets: each name absent or defined with one of the bodies
    opts = [None] + BODIES
    for combo in itertools.product(opts, repeat=len(names)):
        rules = {n: b for n, b in zip(names, combo) if b is not None}
        if tier == 'quick' and sum(1 for b in combo if b is not None) == len(names) and \
                zlib.crc32(repr(combo).encode()) % 3:
            continue
        for d in defaults:
            for q in queried:
                for roles in ROLESETS:
                    c = base_case(rules=rules, default=d, rule=('name', q), creds={'roles': roles})
                    # how the rule set reaches the enforcer must not matter: a dict, or a Rules object
                    # carrying the same / another / no default rule of its own
                    c['carrier'] = ['rules_same', 'dict', 'rules_other', 'rules_none', 'rules_same', 'rules_shared',
                                    'dict', 'rules_other'][len(cases) % 8]
                    c['carrier_default'] = 'a' if (len(cases) // 4) % 2 else 'b'
                    if c['carrier'] == 'rules_same' and (len(cases) // 4) % 2:
                        c['prehistory'] = {n: FLIP[b] for n, b in rules.items()}
                    if len(cases) % 5 == 2:
                        # no policy file at all: the rules come from a policy directory only
                        c['from_dir'] = True
                    elif len(cases) % 5 == 4:
                        c['from_file'] = True
                    if c.get('from_dir') or c.get('from_file'):
                        # the service also registered a default the files do not mention: loading merges it in
                        c['registered'] = {'zreg': None}
                        c['registered_check'] = {'zreg': 'role:nobody'}
                        c['model_rules'] = dict(rules, zreg='role:nobody')
                    # deny is False, or the not-authorized exception when the caller asked for one
                    c['do_raise'] = (len(cases) // 3) % 2 == 1
                    # what the log level is must not matter to the decision
                    c['debug'] = len(cases) % 7 == 3
                    cases.append(c)
    # a policy file that defines nothing, in every spelling: an empty rule set, hence deny (never an error)
    for txt in ('', '{}', '# only a comment\n', '---\n', 'null', '~\n', '--- {}\n', '\n\n', '# c\n---\n# d\n'):
        for d in defaults:
            for q in ('a', 'default', 'zz'):
                for dr in (False, True):
                    c = base_case(rules={}, default=d, rule=('name', q), creds={'roles': ['x']}, do_raise=dr)
                    c['from_file'] = True
                    c['file_text'] = txt
                    c['debug'] = len(cases) % 2 == 1
                    cases.append(c)
    run.count('cases', len(cases))
    bad_corr = []
    for c, (mres, mtr, ires, itr) in zip(cases, run_cases(cases)):
        run.evaluations += 1
        if not agree(mres, ires):
            bad_corr.append((c, mres, ires))
        want = spec_decision(c.get('model_rules', c['rules']), c['default'], c['rule'][1], c['creds']['roles'])
        if want is None:
            run.count('cyclic_skipped')
            continue
        key = (tuple(sorted(c['rules'].items())), c['default'], c['rule'][1])
        wanted = ('ret', want) if (want or not c['do_raise']) else ('exc', 'PolicyNotAuthorized')
        if tuple(ires[:2]) != wanted:
            run.violation('decision', 'enforce(%r) on %r default %r roles %r -> %r, documented %r'
                          % (c['rule'][1], c['rules'], c['default'], c['creds']['roles'], ires, want),
                          {'kind': 'failing-input', 'suite': 'spec-c03', 'input': describe(c),
                           'expected': want, 'observed': ires})
        elif c['rule'][1] not in c['rules']:
            run.nontrivial.add(key)
    run.sample(describe(cases[len(cases) // 2]))
    run.extra['correspondence_disagreements'] = len(bad_corr)
    if bad_corr and not run.violations:
        c, m, i = next((x for x in bad_corr if corr_kind(x[1]) == 'failing-input'), bad_corr[0])
        run.violation('correspondence:S4', 'model and implementation disagree on enforce',
                      {'kind': corr_kind(m), 'oracle': 'the Coq model, for which the property is proved', 'obligation': 'correspondence suite S4 (enforce)',
                       'input': describe(c), 'model': m, 'observed': i, 'count': len(bad_corr)})
    run.rule = ('complete table: every rule set over %r with bodies %r (or absent) x %d default-rule configurations '
                '(unset, defined/undefined name, check objects of several classes, dict, via policy_default_rule option; rules given by set_rules or loaded from a policy directory with no policy file) x queried names x '
                'role subsets x do_raise x log level (default / DEBUG), half of the Rules-carried sets written in place over earlier opposite definitions after an undefined name was enforced; model vs Enforcer.enforce and an independent reading of the statement; non-trivial = '
                'distinct (rule set, default, queried name) with the name undefined' % (names, BODIES, len(defaults)))
    run.exhaustive = tier == 'thorough'


def replay(run, rep):
    from world import run_impl
    c = rep['input']
    c['default'] = tuple(c['default'])
    c['rule'] = tuple(c['rule'])
    ires, _ = run_impl(c)
    print('observed', ires, 'expected', rep.get('expected'))
    want = rep.get('expected')
    wanted = ('ret', want) if (want or not c.get('do_raise')) else ('exc', 'PolicyNotAuthorized')
    return tuple(ires[:2]) == wanted
