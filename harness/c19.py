"""C19: oslopolicy-checker reports what the library would decide."""
import contextlib
import io
import json
import os

from common import S, enc_jv, run_batch, unS, work_dir
from c06 import render_expr
from world import kinds_of, lit_table

GEN = ['GChecks.v', 'GPolicy.v', 'GParser.v']

SAMPLES = ['auth_v3_token_admin.json', 'auth_v3_token_member.json', 'auth_v3_token_system_admin.json']


def gen_token(rng):
    tok = {'methods': ['password'], 'user': {'id': rng.choice(['u1', 'u2']), 'name': 'n', 'domain': {'id': 'default'}},
           'roles': [{'id': 'x', 'name': r} for r in rng.sample(['admin', 'member', 'reader', 'r0', 'r1'], rng.randint(0, 3))]}
    scope = rng.choice(['project', 'domain', 'system', 'none'])
    if scope == 'project':
        tok['project'] = {'id': rng.choice(['p1', 'p2']), 'name': 'p', 'domain': {'id': 'default'}}
    elif scope == 'domain':
        tok['domain'] = {'id': 'd1', 'name': 'D'}
        tok['domain_id'] = 'd1'
    elif scope == 'system':
        tok['system'] = {'all': True}
    return tok


LEAVES = ['domain_id:%(project_id)s', 'project_id:%(nested.after)s', 'domain_id:%(nested.after)s', 'role:admin', 'role:member', 'role:r0', 'is_admin:True', 'user_id:%(user_id)s', 'project_id:%(project_id)s',
          'system_scope:all', 'system:all', 'system.all:True', 'user.id:u1', 'project.id:%(project_id)s', 'domain_id:d1',
          'rule:helper', 'rule:default_like', 'rule:undefined_one', "'a':%(custom.key)s", 'roles:admin', '@', '!',
          'user_id:%(nested.after)s', 'user_id:%(nested.a.b)s', 'user_id:%(custom.owner)s', 'user_id:%(last)s',
          'user_id:%(custom.deep.owner)s', 'user_id:%(nested.a.after)s']


def gen_policy(rng):
    rules = {}
    if rng.random() < 0.25:
        rules.update({'adm:yes': 'is_admin:True', 'adm:no': 'not is_admin:True', 'adm:false': 'is_admin:False',
                      'adm:alias': 'rule:adm:yes'})
    for i in range(rng.randint(1, 6)):
        name = rng.choice(['svc:op%d' % i, 'compute:get%d' % i, 'plainname%d' % i,
                           # names whose plain string order differs from any order by components
                           'net:get', 'net-v2:get', 'net2:get', 'net.x:get', 'Net:get', 'net:Get', 'net::get', 'a:b:c', 'a:b-c'])
        rules[name] = render_expr(rng, rng.sample(LEAVES, rng.randint(1, 4)), rng.randint(1, 5))
    rules['helper'] = render_expr(rng, ['role:admin', 'role:member', '@'], rng.randint(1, 3))
    if rng.random() < 0.5:
        rules['default'] = rng.choice(['role:admin', '!', '@', 'rule:helper'])
    if rng.random() < 0.3:
        rules['svc:listy'] = [['role:admin'], ['role:member', 'is_admin:True']]
    return rules


_calls = [0]


def run_tool(policy_path, access_path, apply_rule, is_admin, target_path):
    from oslo_policy import shell
    import sys
    from unittest import mock
    buf = io.StringIO()
    _calls[0] += 1
    try:
        with contextlib.redirect_stdout(buf):
            if _calls[0] % 2:
                # the command line itself: options given only when they apply
                argv = ['oslopolicy-checker', '--policy', policy_path, '--access', access_path]
                if apply_rule:
                    argv += ['--rule', apply_rule]
                if is_admin:
                    argv += ['--is_admin']
                if target_path:
                    argv += ['--target', target_path]
                with mock.patch.object(sys, 'argv', argv):
                    shell.main()
            else:
                shell.tool(policy_path, access_path, apply_rule, is_admin, target_path)
        crash = None
    except (Exception, SystemExit) as e:   # noqa
        crash = type(e).__name__
    verdicts = []
    for line in buf.getvalue().splitlines():
        if line.startswith('passed: '):
            verdicts.append((line[8:], 'passed'))
        elif line.startswith('failed: '):
            verdicts.append((line[8:], 'failed'))
        elif line.startswith('exception: '):
            verdicts.append((None, 'exception'))
    return verdicts, crash


def library_view(rules_text, token, is_admin, target_json):
    """credentials and target derived from the files as the tool documents, decided by the library"""
    from oslo_config import cfg
    from oslo_policy import policy, shell
    import copy
    tok = copy.deepcopy(token)
    creds = tok
    creds['roles'] = [r['name'] for r in tok['roles']]
    creds['user_id'] = tok['user']['id']
    if tok.get('project'):
        creds['project_id'] = tok['project']['id']
    if tok.get('system'):
        creds['system_scope'] = 'all'
    creds['is_admin'] = is_admin
    if target_json is not None:
        # "nested target flattening to dotted keys", read independently of the tool's own flatten()
        def flat(d, prefix=''):
            out = {}
            for k, v in d.items():
                nk = prefix + '.' + k if prefix else k
                if isinstance(v, dict):
                    out.update(flat(v, nk))
                else:
                    out[nk] = v
            return out
        target = flat(copy.deepcopy(target_json))
    else:
        target = {'user_id': tok['user']['id']}
        if creds.get('project_id'):
            target['project_id'] = creds['project_id']
    conf = cfg.ConfigOpts()
    conf([], project='verif')
    e = policy.Enforcer(conf, policy_file='policy.yaml', use_conf=False, default_rule='default')
    e.set_rules(policy.Rules.load(rules_text, 'default'), use_conf=False)
    out = {}
    for k in e.rules:
        try:
            out[k] = 'passed' if e.enforce(k, dict(target), copy.deepcopy(creds)) else 'failed'
        except Exception as ex:   # noqa
            out[k] = 'exception'
    return out, e


def fixed_token(scope, roles=('member',)):
    tok = {'methods': ['password'], 'user': {'id': 'u1', 'name': 'n', 'domain': {'id': 'default'}},
           'roles': [{'id': 'x', 'name': r} for r in roles]}
    if scope == 'project':
        tok['project'] = {'id': 'p1', 'name': 'p', 'domain': {'id': 'default'}}
    elif scope == 'domain':
        tok['domain'] = {'id': 'd1', 'name': 'D'}
    elif scope == 'system':
        tok['system'] = {'all': True}
    return tok


def curated_cases():
    """every token scope x is_admin flag x (no target file, a target with nulls, an empty target) against rules that read the
    attributes the tool derives (or does not derive) from the token"""
    rules = {'t:proj': 'project_id:%(project_id)s', 't:notproj': 'not project_id:%(project_id)s',
             't:dom': 'domain_id:%(project_id)s', 't:user': 'user_id:%(user_id)s', 't:adm': 'is_admin:True',
             't:notadm': 'not is_admin:True', 't:admfalse': 'is_admin:False', 't:sys': 'system_scope:all',
             't:none': 'project_id:None', 't:domnone': 'domain_id:None', 't:alias': 'rule:t:proj', 'helper': 'role:member',
             't:proj:forced': '!', 't:adm:sub:deep': '@'}
    out = []
    for scope in ('project', 'domain', 'system', 'none'):
        for is_admin in (False, True):
            for target in (None, {'project_id': None, 'user_id': None}, {'project_id': 'p1', 'user_id': 'u1'}, {}):
                out.append((dict(rules), fixed_token(scope), is_admin, target))
    # attribute names as OpenStack services spell them (colons, dashes, dots from nesting), and a dotted key next to
    # the nested path of the same name, in either order (the later entry of the file wins)
    rules2 = {'n:a': 'user_id:%(network:tenant_id)s', 'n:b': 'user_id:%(server.OS-EXT-SRV-ATTR:host)s',
              'n:c': 'user_id:%(target.secret.owner)s', 'n:d': 'not user_id:%(target.secret.owner)s',
              'n:e': 'user_id:%(os-ext:zone)s'}
    for tgt in ({'network:tenant_id': 'u1', 'server': {'OS-EXT-SRV-ATTR:host': 'u1'}, 'os-ext:zone': 'zz',
                 'target.secret.owner': 'u1', 'target': {'secret': {'owner': 'zz'}}},
                {'network:tenant_id': 'zz', 'server': {'OS-EXT-SRV-ATTR:host': 'zz'}, 'os-ext:zone': 'u1',
                 'target': {'secret': {'owner': 'zz'}}, 'target.secret.owner': 'u1'},
                {'target': {'secret': {'owner': 'u1'}}, 'target.secret.owner': 'zz', 'network:tenant_id': 'u1'}):
        out.append((dict(rules2), fixed_token('project'), False, tgt))
    # every policy of a listing is evaluated with the credentials derived from the token -- not with what an earlier
    # policy's evaluation left of them: role names keep their letter case for checks that read them as attributes
    rules3 = {'a:first': 'role:member', 'b:case': 'roles:Member', 'c:lower': 'roles:member', 'd:not': 'not roles:Member',
              'e:again': 'role:MEMBER and roles:Member', 'f:sys': 'system_scope:all or roles:Reader'}
    for scope in ('project', 'system'):
        for is_admin in (False, True):
            out.append((dict(rules3), fixed_token(scope, roles=('Member', 'Reader')), is_admin, None))
            out.append((dict(rules3), fixed_token(scope, roles=('member', 'ADMIN')), is_admin, {}))
    return out


def run(run, binfo):
    tier, rng = run.tier, run.rng
    wd = work_dir()
    n = 150 if tier == 'quick' else 5000
    curated = curated_cases()
    n += len(curated)
    sample_dir = os.path.join(os.environ.get('VERIF_REPO', '/repo'), 'sample_data')
    tokens = []
    for fn in SAMPLES:
        with open(os.path.join(sample_dir, fn)) as f:
            tokens.append(json.load(f)['token'])
    mreqs, minfo = [], []
    for i in range(n):
        rules = gen_policy(rng)
        token = tokens[i % 3] if i % 4 == 0 else gen_token(rng)
        is_admin = rng.random() < 0.3
        target_json = None
        if rng.random() < 0.4:
            target_json = {'custom': {'key': rng.choice(['a', 'b']), 'deep': {'er': 1}, 'owner': rng.choice(['u1', 'zz'])},
                           'user_id': rng.choice(['u1', 'zz']), 'project_id': rng.choice(['p1', 'p2']),
                           'nested': {'a': {'b': rng.choice(['u1', 'u2'])}, 'after': rng.choice(['u1', 'u2'])},
                           'last': 'u1'}
            if rng.random() < 0.35:
                # null in the target is the text "None"; an attribute the token does not carry is simply missing
                target_json['project_id'] = None
                target_json['nested']['after'] = None
        elif rng.random() < 0.25:
            # a target file that is given but flattens to nothing is still THE target (not the caller's own ids)
            target_json = rng.choice([{}, {'target': {}}, {'a': {}, 'b': {'c': {}}}, {'custom': {'deep': {}}}])
        if i < len(curated):
            rules, token, is_admin, target_json = curated[i]
        pp = os.path.join(wd, 'pol.json')
        ap = os.path.join(wd, 'tok.json')
        tp = os.path.join(wd, 'tgt.json') if target_json is not None else None
        text = json.dumps(rules)
        open(pp, 'w').write(text)
        open(ap, 'w').write(json.dumps({'token': token}))
        if tp:
            open(tp, 'w').write(json.dumps(target_json))
        lib, enf = library_view(text, token, is_admin, target_json)
        inp = {'rules': rules, 'token': token, 'is_admin': is_admin, 'target': target_json}
        # whole listing
        verdicts, crash = run_tool(pp, ap, None, is_admin, tp)
        run.evaluations += 1
        mreqs.append([16, [[S(k), enc_jv(v)] for k, v in rules.items()], enc_jv(token), is_admin,
                      [enc_jv(target_json)] if target_json is not None else [], [],
                      lit_table(kinds_of(list(rules.values())))])
        minfo.append((inp, None, verdicts, crash))
        want_keys = sorted(k for k in rules if ':' in k)
        if crash or [k for k, _ in verdicts] != want_keys:
            run.violation('listing', 'listing %r (crash %r), documented: one verdict per name with a colon, sorted: %r'
                          % (verdicts, crash, want_keys),
                          {'kind': 'failing-input', 'suite': 'spec-c19', 'input': inp, 'expected': want_keys,
                           'observed': [verdicts, crash]})
        else:
            for k, v in verdicts:
                if lib.get(k) != v:
                    leafs = [l for l in ('system:', 'system.', 'system_scope') if l in json.dumps(rules[k])]
                    key = 'verdict:system-scoped-token:reads-system' if (token.get('system') and 'system' in json.dumps(rules)) \
                        else 'verdict'
                    run.violation(key, 'checker prints %s for %s, the library decides %s (rule %r)'
                                  % (v, k, lib.get(k), rules[k]),
                                  {'kind': 'failing-input', 'suite': 'spec-c19', 'input': dict(inp, rule=k),
                                   'expected': lib.get(k), 'observed': v})
                if v == 'passed':
                    run.nontrivial.add((i, k))
        # a single requested rule: defined, undefined with / without default
        reqs_ = [rng.choice(list(rules)), 'no:such:rule']
        prefixes = sorted({k.rsplit(':', 1)[0] for k in rules if k.count(':') >= 1})
        if prefixes:
            reqs_.append(rng.choice(prefixes))       # a defined or undefined name that other names extend by ':...'
        for req in reqs_:
            verdicts, crash = run_tool(pp, ap, req, is_admin, tp)
            run.evaluations += 1
            mreqs.append([16, [[S(k), enc_jv(v)] for k, v in rules.items()], enc_jv(token), is_admin,
                          [enc_jv(target_json)] if target_json is not None else [], [S(req)],
                          lit_table(kinds_of(list(rules.values())))])
            minfo.append((inp, req, verdicts, crash))
            if req in rules or 'default' in rules:
                want = lib.get(req if req in rules else 'default')
            else:
                want = 'failed'           # the library denies an unknown policy without a default rule
            got = verdicts[0][1] if (verdicts and not crash) else ('CRASH ' + str(crash))
            if len(verdicts) > 1 or got != want:
                key = 'requested-unknown-rule-without-default' if (req not in rules and 'default' not in rules) \
                    else 'requested-rule'
                run.violation(key, 'requested rule %r: checker %r, library %r' % (req, got, want),
                              {'kind': 'failing-input', 'suite': 'spec-c19', 'input': dict(inp, rule=req),
                               'expected': want, 'observed': got})
    bad_corr = []
    names = {1: 'passed', 0: 'failed', 2: 'exception'}
    for (inp, req, verdicts, crash), ans in zip(minfo, run_batch(mreqs)):
        if ans[0] != 0:
            model = ('CRASH', ans)
        else:
            model = [(unS(p[0]), names[p[1]]) for p in ans[1]]
        obs = ('CRASH', crash) if crash else [(k if k is not None else req, v) for k, v in verdicts]
        if model != obs and not (isinstance(model, tuple) and isinstance(obs, tuple)):
            # an 'exception' line does not print the key; compare verdict sequences then
            if isinstance(model, list) and isinstance(obs, list) and [v for _, v in model] == [v for _, v in obs] \
                    and all(k1 == k2 or v == 'exception' for (k1, v), (k2, _) in zip(model, obs)):
                continue
            bad_corr.append((dict(inp, rule=req), model, obs))
    run.extra['correspondence_disagreements'] = len(bad_corr)
    if bad_corr and not run.violations:
        c, m, o = bad_corr[0]
        run.violation('correspondence:S8', 'model and implementation disagree on the checker output',
                      {'kind': 'broken-obligation', 'obligation': 'correspondence suite S8 (oslopolicy-checker)',
                       'input': c, 'model': m, 'observed': o, 'count': len(bad_corr)})
    run.sample({'rules': gen_policy(rng)})
    run.rule = ('%d generated policy files (role/generic/system/reference leaves, with and without a default rule, aliases, a '
                'list-of-lists rule) x the three sample tokens and generated project/domain/system/unscoped tokens x is_admin x '
                'optional nested target file: the listing (sorted names containing a colon) and each verdict vs Enforcer.enforce on '
                'the credentials/target derived as the tool documents; a requested rule that is defined / undefined with and '
                'without a default rule. non-trivial = passed verdicts' % n)


def replay(run, rep):
    inp = rep['input']
    wd = work_dir()
    pp, ap = os.path.join(wd, 'pol.json'), os.path.join(wd, 'tok.json')
    tp = os.path.join(wd, 'tgt.json') if inp.get('target') is not None else None
    text = json.dumps(inp['rules'])
    open(pp, 'w').write(text)
    open(ap, 'w').write(json.dumps({'token': inp['token']}))
    if tp:
        open(tp, 'w').write(json.dumps(inp['target']))
    lib, _ = library_view(text, inp['token'], inp['is_admin'], inp.get('target'))
    req = inp.get('rule')
    verdicts, crash = run_tool(pp, ap, req, inp['is_admin'], tp)
    print('tool', verdicts, crash, 'library', lib.get(req))
    if crash:
        return False
    want = lib.get(req) if req in lib else (lib.get('default') if 'default' in lib else 'failed')
    return bool(verdicts) and verdicts[0][1] == want
