"""C09: effective policy is defaults, then policy file, then policy.d in sorted order."""
import itertools
import os
import shutil

from common import S, run_batch
from loadsim import FsSim, make_enforcer, enc_defaults, observe, model_history, fresh_root

GEN = ['GPolicy.v', 'GChecks.v', 'GParser.v']

# layers in precedence order (later wins); the last two must be ignored
LAYERS = ['default', 'main', 'policy.d/-early.yaml', 'policy.d/10-x.yaml', 'policy.d/2-y.json', 'policy.d/B.yaml', 'policy.d/_u.yaml',
          'policy.d/a.yaml', 'policy.d/a.yaml~', 'policy.d/noext', 'second.d/a.yaml', 'second.d/z.txt',
          'policy.d/.hidden.yaml', 'policy.d/sub']
# every regular file counts, whatever its name looks like (backup suffix, no extension, .txt): only dot-files and
# sub-directories are ignored
EFFECTIVE = LAYERS[:12]
NAMES = ['alpha', 'beta']


def build(root, assign, main_present, fmts, dirs=None):
    """assign: name -> set of layers defining it"""
    fs = FsSim(root, dirs=dirs) if dirs else FsSim(root)
    defaults = []
    for n in NAMES:
        if 'default' in assign[n]:
            defaults.append((n, 'role:default', None, ['system'] if n == 'alpha' else None))
    files = {}
    for n in NAMES:
        for l in assign[n]:
            if l not in ('default', 'policy.d/sub'):
                files.setdefault(l, {})[n] = 'role:' + l.replace('/', '_').replace('.', '_')
    if main_present:
        fs.write_main(files.get('main', {}), fmts.get('main', 'json'))
    for l in LAYERS[2:13]:
        d, fn = l.split('/')
        if l in files or l == 'policy.d/10-x.yaml':
            fs.write(d, fn, files.get(l, {}), 'yaml' if fmts.get(l) == 'yaml' else 'json')
    fs.subdir('policy.d', 'sub')
    fs.sync()
    return fs, defaults


def spec_winner(assign_n, main_present, dup=False):
    best = None
    order = list(EFFECTIVE)
    if dup:
        # policy.d is configured a second time after second.d: it is one more layer, on top
        order += [l for l in EFFECTIVE if l.startswith('policy.d/')]
    for l in order:
        if l in assign_n and (l != 'main' or main_present):
            best = l
    return best


def run(run, binfo):
    tier, rng = run.tier, run.rng
    root = fresh_root('c09')
    subsets = []
    for r in range(len(LAYERS) + 1):
        subsets += [set(c) for c in itertools.combinations(LAYERS, r)]
    if tier == 'quick':
        picks = subsets[::23]
    else:
        picks = subsets[::2]
    # small layouts exhaustively: every set of at most two layers, and every set of at most three that has the dot-file
    # or the sub-directory in it (what must be ignored is ignored whatever its neighbours are called)
    small = [set(c) for r in (1, 2) for c in itertools.combinations(LAYERS, r)]
    small += [set(c) | {x} for x in ('policy.d/.hidden.yaml', 'policy.d/sub')
              for c in itertools.combinations([l for l in LAYERS if l != x], 2)]
    picks = small[::(1 if tier == 'thorough' else 2)] + picks
    cases = []
    for sub in picks:
        other = rng.choice(subsets)
        cases.append(({'alpha': sub, 'beta': other}, rng.random() < 0.8))
    bad_corr = []
    for i, (assign, main_present) in enumerate(cases):
        if not main_present:
            # "main" cannot define anything when the file is absent
            pass
        fmts = {l: rng.choice(['json', 'yaml']) for l in LAYERS}
        shutil.rmtree(root, ignore_errors=True)
        os.makedirs(root)
        mode = ['override', 'override+dup', 'config_file', 'override+abs'][i % 4]
        from loadsim import DIRS
        dirs = list(DIRS) + (['policy.d'] if mode == 'override+dup' else [])
        fs, defaults = build(root, assign, main_present, fmts, dirs)
        # (the directories may also be configured by absolute path, the missing ones included)
        cfg_dirs = [os.path.join(root, d) for d in dirs] if mode == 'override+abs' else dirs
        e = make_enforcer(root, defaults, dirs=cfg_dirs, dirs_via='config_file' if mode == 'config_file' else 'override')
        try:
            e.load_rules()
        except Exception as ex:   # noqa
            run.violation('load-error', 'loading the layout fails with %s: %s' % (type(ex).__name__, str(ex)[:200]),
                          {'kind': 'failing-input', 'suite': 'spec-c09',
                           'input': {'assign': {k: sorted(v) for k, v in assign.items()},
                                     'main_present': main_present, 'fmts': fmts, 'dirs_mode': mode},
                           'expected': 'the layered policy', 'observed': type(ex).__name__})
            continue
        obs = observe(e)
        mod = model_history([1, enc_defaults(defaults), 1], [[fs.wire(), 0]])[0]
        spec = run_batch([[11, [1, enc_defaults(defaults), 1], fs.wire(), [S(n) for n in NAMES]]])[0]
        from common import unS
        for n, sp in zip(NAMES, spec):
            want_s = unS(sp[0]) if sp else None
            got_s = dict(obs['rules']).get(n)
            if want_s != got_s:
                run.violation('layering-spec', 'name %s: effective %r, extracted spec_rule says %r' % (n, got_s, want_s),
                              {'kind': 'failing-input', 'suite': 'spec-c09',
                               'input': {'assign': {k: sorted(v) for k, v in assign.items()},
                                         'main_present': main_present, 'fmts': fmts, 'dirs_mode': mode},
                               'expected': want_s, 'observed': got_s})
        run.evaluations += 1
        if obs != mod:
            bad_corr.append((repr(assign), mod, obs))
        for n in NAMES:
            w = spec_winner(assign[n], main_present, dup=(mode == 'override+dup'))
            got = dict(obs['rules']).get(n)
            want = None if w is None else 'role:' + w.replace('/', '_').replace('.', '_')
            if got != want:
                run.violation('layering', 'name %s defined in %r (main present: %r): effective %r, documented %r'
                              % (n, sorted(assign[n]), main_present, got, want),
                              {'kind': 'failing-input', 'suite': 'spec-c09',
                               'input': {'assign': {k: sorted(v) for k, v in assign.items()},
                                         'main_present': main_present, 'fmts': fmts, 'dirs_mode': mode},
                               'expected': want, 'observed': got})
            # decisions on role subsets agree with the winning layer
            if want is not None:
                role = want[5:]
                sysc = {'system_scope': 'all'} if n == 'alpha' else {}
                if n == 'alpha' and 'default' in assign[n] and e.enforce(n, {}, {'roles': [role], 'project_id': 'p'}):
                    run.violation('scope-from-default', 'alpha is registered for system scope only, yet a project token '
                                  'passes (layers %r)' % sorted(assign[n]),
                                  {'kind': 'failing-input', 'suite': 'spec-c09',
                                   'input': {'assign': {k: sorted(v) for k, v in assign.items()},
                                             'main_present': main_present, 'fmts': fmts, 'dirs_mode': mode},
                                   'expected': False, 'observed': True})
                if not e.enforce(n, {}, dict({'roles': [role]}, **sysc)) or e.enforce(n, {}, dict({'roles': ['other']}, **sysc)):
                    run.violation('layering-decision', 'decision of %s does not follow %s' % (n, want),
                                  {'kind': 'failing-input', 'suite': 'spec-c09',
                                   'input': {'assign': {k: sorted(v) for k, v in assign.items()},
                                             'main_present': main_present, 'fmts': fmts},
                                   'expected': want, 'observed': 'decision'})
            elif e.enforce(n, {}, {'roles': ['default', 'main']}):
                run.violation('undefined-allows', 'name %s defined nowhere is allowed' % n,
                              {'kind': 'failing-input', 'suite': 'spec-c09',
                               'input': {'assign': {k: sorted(v) for k, v in assign.items()},
                                         'main_present': main_present, 'fmts': fmts, 'dirs_mode': mode},
                               'expected': False, 'observed': True})
        run.nontrivial.add(repr(sorted(assign['alpha'])) + str(main_present))
        if i == 3:
            run.sample({'assign': {k: sorted(v) for k, v in assign.items()}, 'main_present': main_present,
                        'observed_rules': obs['rules']})
    run.count('layouts', len(cases))
    table_rows = pick_table(run)
    run.count('file_selection_rows', table_rows)
    run.extra['correspondence_disagreements'] = len(bad_corr)
    if bad_corr and not run.violations:
        c, m, i = bad_corr[0]
        run.violation('correspondence:S5', 'model and implementation disagree on a fresh load',
                      {'kind': 'broken-obligation', 'obligation': 'correspondence suite S5 (fresh load)',
                       'input': c, 'model': m, 'observed': i, 'count': len(bad_corr)})
    run.rule = ('%d layouts: policy name alpha in every%s subset of the layers %r (registered default, main file '
                'present/absent, three files in policy.d whose names exercise the sort order, a file in a second directory, a '
                'dot-file and a sub-directory that must be ignored, configured-but-missing directories; policy_dirs set by override, with policy.d configured twice, or by repeated lines in a configuration file), beta in a random '
                'subset, each file independently JSON or YAML; effective definition and decisions vs "last writer in the '
                'documented order", model vs implementation on Enforcer.rules/file_rules/cache; plus the %d-row file-selection '
                'table against real oslo.config. non-trivial = distinct layouts'
                % (len(cases), '' if tier == 'thorough' else ' second', LAYERS, table_rows))
    shutil.rmtree(root, ignore_errors=True)


def pick_spec(opt_value, location, fallback, have_yaml, have_json, have_other, explicit):
    """the statement: explicit argument, else the configured file, except the legacy fallback"""
    if explicit:
        return explicit
    if opt_value == 'policy.yaml' and fallback:
        if have_yaml:
            return 'policy.yaml'
        if location in ('opt_default', 'set_default') and have_json:
            return 'policy.json'
    return opt_value


def pick_table(run):
    from oslo_config import cfg
    from oslo_policy import policy, opts
    rows = 0
    model_rows = []
    root = fresh_root('c09pick')
    for how, value in [('opt_default', 'policy.yaml'), ('set_default', 'policy.yaml'), ('set_default', 'other.yaml'),
                       ('config_file', 'policy.yaml'), ('config_file', 'other.yaml'),
                       ('override', 'policy.yaml'), ('override', 'other.yaml'),
                       # a name that merely ends in / contains the library default is another name
                       ('set_default', 'nova-policy.yaml'), ('set_default', 'policy.yaml.sample'),
                       # the library's own helper a service calls to change the defaults (alone, and under a value the
                       # operator configured, which wins)
                       ('lib_set_defaults', 'policy.yaml'), ('lib_set_defaults', 'other.yaml'),
                       ('config_file+lib_set_defaults', 'policy.yaml'), ('config_file+lib_set_defaults', 'other.yaml')]:
        for have_yaml, have_json, have_other in itertools.product([False, True], repeat=3):
            for fallback in (True, False):
                for explicit in (None, 'explicit.yaml', 'policy.yaml'):
                    shutil.rmtree(root, ignore_errors=True)
                    os.makedirs(root)
                    for fn, have in (('policy.yaml', have_yaml), ('policy.json', have_json), ('other.yaml', have_other)):
                        if have:
                            open(os.path.join(root, fn), 'w').write('{}')
                    conf = cfg.ConfigOpts()
                    opts._register(conf)
                    args = ['--config-dir', root]
                    if how in ('config_file', 'config_file+lib_set_defaults'):
                        cf = os.path.join(root, 'svc.conf')
                        open(cf, 'w').write('[oslo_policy]\npolicy_file = %s\n' % value)
                        args = ['--config-file', cf, '--config-dir', root]
                    conf(args, project='verif')
                    saved_opts = {o.dest: (o.default, o._set_location) for o in opts._options}
                    try:
                        if how == 'set_default':
                            conf.set_default('policy_file', value, group='oslo_policy')
                        elif how == 'override':
                            conf.set_override('policy_file', value, group='oslo_policy')
                        elif how == 'lib_set_defaults':
                            opts.set_defaults(conf, policy_file=value)
                        elif how == 'config_file+lib_set_defaults':
                            opts.set_defaults(conf, policy_file='libdefault.yaml')
                        e = policy.Enforcer(conf, policy_file=explicit, fallback_to_json_file=fallback)
                        got = e.policy_file
                    finally:
                        if how == 'set_default':
                            conf.clear_default('policy_file', group='oslo_policy')
                        if 'lib_set_defaults' in how:
                            # the helper rewrites the module-level option objects: put the stock default back
                            conf.clear_override('policy_file', group='oslo_policy')
                            for o in opts._options:
                                o.default, o._set_location = saved_opts[o.dest]
                    loc = {'opt_default': 'opt_default', 'set_default': 'set_default', 'lib_set_defaults': 'set_default',
                           'config_file': 'user', 'override': 'set_override', 'config_file+lib_set_defaults': 'user'}[how]
                    want = pick_spec(value, loc, fallback, have_yaml, have_json, have_other, explicit)
                    if not explicit:
                        found_opt = have_yaml if value == 'policy.yaml' else (have_other if value == 'other.yaml' else False)
                        lcode = {'opt_default': 0, 'set_default': 1, 'user': 2, 'set_override': 3}[loc]
                        model_rows.append(([12, value == 'policy.yaml', True, fallback, found_opt, lcode, have_json],
                                           got, value))
                    rows += 1
                    run.evaluations += 1
                    if got != want:
                        run.violation('file-selection', 'option %s=%s, files yaml=%r json=%r other=%r, fallback=%r, '
                                      'explicit=%r: picked %r, documented %r'
                                      % (how, value, have_yaml, have_json, have_other, fallback, explicit, got, want),
                                      {'kind': 'failing-input', 'suite': 'spec-c09-pick',
                                       'input': {'how': how, 'value': value, 'have': [have_yaml, have_json, have_other],
                                                 'fallback': fallback, 'explicit': explicit},
                                       'expected': want, 'observed': got})
    shutil.rmtree(root, ignore_errors=True)
    answers = run_batch([r[0] for r in model_rows])
    for (req, got, value), ans in zip(model_rows, answers):
        mpick = 'policy.json' if ans[0] else value
        if mpick != got:
            run.violation('correspondence:pick', 'model picks %r, implementation %r for %r' % (mpick, got, req),
                          {'kind': 'broken-obligation', 'obligation': 'correspondence (pick_default_policy_file)',
                           'input': req, 'model': mpick, 'observed': got})
    return rows


def replay(run, rep):
    print('replay for C09 re-runs the whole quick check; input was', rep.get('input'))
    return False
