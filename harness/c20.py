"""C20: a decision taken during a reload sees the old or the new policy, never a mix.

A deterministic scheduler: the reloading thread runs under sys.settrace and is paused at a chosen
source-line boundary inside oslo_policy; the deciding thread then takes its decisions (its own
implicit load_rules included); then the reloader resumes.  The phase of a preemption point is the
last shared-state write site (from the translator's list) the reloader has executed."""
import ast
import os
import shutil
import sys
import threading

from loadsim import FsSim, make_enforcer, fresh_root

GEN = ['GPolicy.v']

sys.path.insert(0, os.path.join(os.path.dirname(os.path.dirname(os.path.abspath(__file__))), 'gen'))


def site_lines():
    """(function name, line number) -> write-site label, from the current source"""
    import gen
    import gen_policy
    mod = gen.parse('oslo_policy/policy.py')
    return {(fn.name, n.lineno): lab for fn, n, lab in gen_policy.reload_site_nodes(mod)}


SCENARIOS = ['main-edit-with-dir-override', 'dir-edit', 'permissive-default-rule', 'deprecated-defaults',
             'dir-edit-no-overwrite', 'deprecated-main-emptied', 'deprecated-dir-override-edit', 'two-dirs-later-edit',
             'main-edit-referring-default', 'permissive-default-drop-override']
# the two-switch family also has a scenario in which two directories change in the same deployment step
TWO_SWITCH_SCENARIOS = SCENARIOS + ['two-dirs-both-edit']


def _rm_root(root):
    if os.path.islink(root):
        os.remove(root)
    shutil.rmtree(root, ignore_errors=True)
    shutil.rmtree(root + '.real', ignore_errors=True)


def build(scn, root):
    """-> (fs, enforcer loaded with the OLD policy, change function, probes)"""
    # the configuration directory is reached through a symbolic link (release trees are commonly deployed that way)
    _rm_root(root)
    os.makedirs(root + '.real')
    os.symlink(root + '.real', root)
    fs = FsSim(root)
    fs.mkdir('policy.d')
    defaults = [('reg:a', 'role:dflt_a', None, None), ('reg:b', 'role:dflt_b', None, None)]
    kw = {}
    if scn == 'main-edit-with-dir-override':
        fs.write_main({'p': 'role:main_old', 'q': 'role:main_q'}, 'json')
        fs.write('policy.d', 'o.yaml', {'p': 'role:dir'}, 'json')

        def change():
            fs.write_main({'p': 'role:main_new', 'q': 'role:main_q'}, 'json')
    elif scn == 'main-edit-referring-default':
        # a registered default REFERS to a rule the policy file defines and a directory file overrides (the default's
        # check objects outlive every reload); another rule of the policy file is edited
        defaults = [('reg:a', 'rule:p or role:dflt_a', None, None), ('reg:b', 'not rule:p', None, None)]
        fs.write_main({'p': 'role:main', 'q': 'role:main_old'}, 'json')
        fs.write('policy.d', 'o.yaml', {'p': 'role:dir'}, 'json')

        def change():
            fs.write_main({'p': 'role:main', 'q': 'role:main_new'}, 'json')
    elif scn == 'dir-edit':
        fs.write_main({'p': 'role:main', 'q': 'role:main_q'}, 'json')
        fs.write('policy.d', 'o.yaml', {'p': 'role:dir_old'}, 'json')

        def change():
            fs.write('policy.d', 'o.yaml', {'p': 'role:dir_new'}, 'json')
    elif scn == 'dir-edit-no-overwrite':
        # an enforcer built with overwrite=False merges instead of replacing
        kw['overwrite'] = False
        fs.write_main({'p': 'role:main', 'q': 'role:main_q'}, 'json')
        fs.write('policy.d', 'o.yaml', {'p': 'role:dir_old'}, 'json')

        def change():
            fs.write('policy.d', 'o.yaml', {'p': 'role:dir_new'}, 'json')
    elif scn == 'deprecated-main-emptied':
        # the operator's override of a deprecated name (and the rule it refers to) goes away: the file is left empty
        defaults = [('reg:a', 'role:new_a', ('old:a', 'role:old_a'), None),
                    ('reg:b', 'role:new_b', ('reg:b', 'role:old_b'), None)]
        kw['enforce_new_defaults'] = False
        fs.write_main({'old:a': 'rule:q', 'q': 'role:main_q', 'p': 'role:main_old'}, 'json')

        def change():
            fs.write_main({}, 'json')
    elif scn == 'deprecated-dir-override-edit':
        # the operator's override of a deprecated name lives in a directory file and is edited there
        defaults = [('reg:a', 'role:new_a', ('old:a', 'role:old_a'), None),
                    ('reg:b', 'role:new_b', ('reg:b', 'role:old_b'), None)]
        kw['enforce_new_defaults'] = False
        fs.write_main({'p': 'role:main_old'}, 'json')
        fs.write('policy.d', 'o.yaml', {'old:a': 'rule:q', 'q': 'role:dir_old'}, 'json')

        def change():
            fs.write('policy.d', 'o.yaml', {'old:a': 'role:dir_new', 'q': 'role:main_q'}, 'json')
    elif scn == 'two-dirs-later-edit':
        # two existing directories; only a file of the LATER one is edited
        fs.write_main({'p': 'role:main', 'q': 'role:main_q'}, 'json')
        fs.write('policy.d', 'o.yaml', {'p': 'role:dir'}, 'json')
        fs.write('second.d', 'z.yaml', {'q': 'role:dir_old'}, 'json')

        def change():
            fs.write('second.d', 'z.yaml', {'q': 'role:dir_new'}, 'json')
    elif scn == 'two-dirs-both-edit':
        fs.write_main({'p': 'role:main', 'q': 'role:main_q'}, 'json')
        fs.write('policy.d', 'o.yaml', {'p': 'role:dir_old'}, 'json')
        fs.write('second.d', 'z.yaml', {'q': 'role:dir_old'}, 'json')

        def change():
            fs.write('policy.d', 'o.yaml', {'p': 'role:dir_new'}, 'json')
            fs.write('second.d', 'z.yaml', {'q': 'role:dir_new'}, 'json')
    elif scn == 'permissive-default-drop-override':
        # the operator's override of a REGISTERED default is dropped from the policy file, whose default rule allows
        fs.write_main({'default': '@', 'reg:a': 'role:main_old', 'p': 'role:main'}, 'json')

        def change():
            fs.write_main({'default': '@', 'p': 'role:main'}, 'json')
    elif scn == 'permissive-default-rule':
        fs.write_main({'default': '@', 'p': 'role:main_old'}, 'json')

        def change():
            fs.write_main({'default': '@', 'p': 'role:main_new'}, 'json')
    else:
        defaults = [('reg:a', 'role:new_a', ('old:a', 'role:old_a'), None),
                    ('reg:b', 'role:new_b', ('reg:b', 'role:old_b'), None)]
        kw['enforce_new_defaults'] = False
        fs.write_main({'old:a': 'role:ovr_old', 'p': 'role:main_old'}, 'json')

        def change():
            fs.write_main({'old:a': 'role:ovr_old', 'p': 'role:main_new'}, 'json')
    fs.sync()
    e = make_enforcer(root, defaults, **kw)
    e.load_rules()
    probes = [(n, r) for n in ('p', 'q', 'reg:a', 'reg:b')
              for r in ('main_old', 'main_new', 'dir', 'dir_old', 'dir_new', 'main', 'dflt_a', 'dflt_b', 'new_a',
                        'old_a', 'ovr_old', 'new_b', 'old_b', 'nobody')]

    def apply_change():
        change()
        fs.sync()
    e.fresh_like = lambda: make_enforcer(root, defaults, **kw)
    return fs, e, apply_change, probes


def probe(e, probes):
    out = []
    for n, r in probes:
        try:
            out.append(bool(e.enforce(n, {}, {'roles': [r]})))
        except Exception as ex:   # noqa
            out.append('EXC ' + type(ex).__name__)
    return tuple(out)


class Sched:
    def __init__(self, k, pkg, sites):
        self.k, self.pkg, self.sites = k, pkg, sites
        self.count = 0
        self.paused = threading.Event()
        self.resume = threading.Event()
        self.last_site = 'before-any-write'
        self.pending = None
        self.where = None

    def tracer(self, frame, event, arg):
        if not frame.f_code.co_filename.startswith(self.pkg):
            return None

        def local(frame, event, arg):
            if event == 'line':
                if self.pending is not None:
                    self.last_site, self.pending = self.pending, None
                lab = self.sites.get((frame.f_code.co_name, frame.f_lineno))
                self.count += 1
                if self.count == self.k:
                    self.where = '%s:%s' % (frame.f_code.co_name, frame.f_lineno)
                    self.paused.set()
                    self.resume.wait()
                if lab and os.path.basename(frame.f_code.co_filename) == 'policy.py':
                    self.pending = lab
            return local
        return local


def one_switch(scn, root, k, pkg, sites):
    """reloader paused before its k-th traced line; -> (decisions of the other thread, phase, total lines)"""
    fs, e, change, probes = build(scn, root)
    change()
    s = Sched(k, pkg, sites)

    def a():
        sys.settrace(s.tracer)
        try:
            e.load_rules()
        finally:
            sys.settrace(None)
            s.paused.set()
    ta = threading.Thread(target=a)
    ta.start()
    s.paused.wait()
    res = probe(e, probes) if s.where else None
    phase = s.last_site
    s.resume.set()
    ta.join()
    after = probe(e, probes)
    return res, phase, s.count, after


def two_switch(scn, root, k, pkg, sites):
    """thread A has COMPLETED its own load step and is paused before it looks its rule up; thread B then enters its load step
    (with the files as A saw them, so there is nothing to do) and is paused before its k-th line; A decides; B goes on.
    -> (A's decisions, B's last write site, lines B ran)"""
    import linecache
    fs, e, change, probes = build(scn, root)
    change()
    st = {'done': False}
    paused_a, resume_a = threading.Event(), threading.Event()

    def tracer_a(frame, event, arg):
        if not frame.f_code.co_filename.startswith(pkg):
            return None

        def local(frame, event, arg):
            if event == 'line' and not st['done']:
                # (check objects are also CONSTRUCTED in _checks.py, during the load step: only evaluation counts)
                if (os.path.basename(frame.f_code.co_filename) == '_checks.py' and
                        frame.f_code.co_name in ('_check', '__call__')) or (
                        frame.f_code.co_name == 'enforce' and
                        '[rule]' in linecache.getline(frame.f_code.co_filename, frame.f_lineno)):
                    st['done'] = True
                    paused_a.set()
                    resume_a.wait()
            return local
        return local
    out = {}

    def a():
        sys.settrace(tracer_a)
        try:
            out['res'] = probe(e, probes)
        finally:
            sys.settrace(None)
            paused_a.set()
    ta = threading.Thread(target=a)
    ta.start()
    paused_a.wait()
    s = Sched(k, pkg, sites)

    def b():
        sys.settrace(s.tracer)
        try:
            e.load_rules()
        finally:
            sys.settrace(None)
            s.paused.set()
    tb = threading.Thread(target=b)
    tb.start()
    s.paused.wait()
    resume_a.set()
    ta.join()
    phase = s.last_site
    s.resume.set()
    tb.join()
    return out.get('res'), phase, s.count


REF_OLD = {'p': 'rule:h', 'h': 'role:o', 'q': 'role:main_q'}
REF_NEW = {'p': 'role:n', 'h': 'role:m', 'q': 'role:main_q'}


def decider_switch(root, k, pkg):
    """the DECIDING thread is paused before its k-th traced line (inside its enforce call, after its own load step
    has found nothing new), a complete reload of edited files happens, the decider resumes.
    -> (decision, phase, total lines); phase = whether rule evaluation had begun when it was paused"""
    _rm_root(root)
    os.makedirs(root)
    fs = FsSim(root)
    fs.mkdir('policy.d')
    fs.write_main(REF_OLD, 'json')
    fs.sync()
    e = make_enforcer(root, [('reg:a', 'role:dflt_a', None, None)])
    e.load_rules()
    import linecache
    st = {'count': 0, 'where': None, 'in_eval': False, 'phase': None}
    paused, resume = threading.Event(), threading.Event()

    def tracer(frame, event, arg):
        if not frame.f_code.co_filename.startswith(pkg):
            return None

        def local(frame, event, arg):
            if event == 'line':
                st['count'] += 1
                if st['count'] == k:
                    st['where'] = '%s:%s' % (frame.f_code.co_name, frame.f_lineno)
                    # has the enforced rule's own definition been fetched from the store yet?
                    st['phase'] = 'after-lookup' if st['in_eval'] else 'before-lookup'
                    paused.set()
                    resume.wait()
                # (the pause is BEFORE the line runs: a line is counted as done only from the next event on)
                if os.path.basename(frame.f_code.co_filename) == '_checks.py' or (
                        frame.f_code.co_name == 'enforce' and
                        '[rule]' in linecache.getline(frame.f_code.co_filename, frame.f_lineno)):
                    st['in_eval'] = True
            return local
        return local
    out = {}

    def b():
        sys.settrace(tracer)
        try:
            out['r'] = bool(e.enforce('p', {}, {'roles': ['m']}))
        except Exception as ex:   # noqa
            out['r'] = 'EXC ' + type(ex).__name__
        finally:
            sys.settrace(None)
            paused.set()
    tb = threading.Thread(target=b)
    tb.start()
    paused.wait()
    if st['where']:
        fs.write_main(REF_NEW, 'json')
        fs.sync()
        e.load_rules()
    resume.set()
    tb.join()
    return out['r'], st['phase'], st['count']


def settled(scn, root):
    fs, e, change, probes = build(scn, root)
    old = probe(e, probes)
    change()
    # the complete new policy is what a newly started enforcer decides on the changed files
    new = probe(e.fresh_like(), probes)
    return old, new


def _worker(args):
    idx, jobs, pkg = args
    import common
    common.setup_impl()
    common.WORK = os.path.join(common.VERIF, '_work', 'c20_%d_%d' % (os.getppid(), idx))
    root = fresh_root('c20_%d' % idx)
    sites = site_lines()
    out = []
    for scn, k in jobs:
        out.append((scn, k) + one_switch(scn, root, k, pkg, sites))
    shutil.rmtree(common.WORK, ignore_errors=True)
    return out


def run(run, binfo):
    import oslo_policy
    tier, rng = run.tier, run.rng
    pkg = os.path.dirname(oslo_policy.__file__)
    root = fresh_root('c20')
    sites = site_lines()
    jobs = []
    refs = {}
    for scn in SCENARIOS:
        old, new = settled(scn, root)
        refs[scn] = (old, new)
        _, _, total, _ = one_switch(scn, root, 10 ** 9, pkg, sites)
        run.count('lines_in_reload:' + scn, total)
        step = 1 if tier == 'thorough' else 3
        jobs += [(scn, k) for k in range(1, total + 1, step)]
    import multiprocessing as mp
    nproc = 14
    chunks = [(i, jobs[i::nproc], pkg) for i in range(nproc)]
    with mp.get_context('fork').Pool(nproc) as pool:
        parts = pool.map(_worker, chunks)
    mixed = {}
    for part in parts:
        for scn, k, res, phase, total, after in part:
            run.evaluations += 1
            old, new = refs[scn]
            if after != new:
                run.violation('unsettled:%s' % scn, 'after the reload completed the policy is not the new one',
                              {'kind': 'failing-input', 'suite': 'spec-c20', 'input': {'scenario': scn, 'k': k},
                               'expected': new, 'observed': after})
            if res is None:
                continue
            if res != old and res != new:
                mixed.setdefault((scn, phase), []).append(k)
                run.violation('mixed:%s:%s' % (scn, phase),
                              'scenario %s, reloader preempted at line-point %d (after write site %r): the concurrent '
                              'decisions are neither the old nor the new policy' % (scn, k, phase),
                              {'kind': 'failing-input', 'suite': 'spec-c20',
                               'input': {'scenario': scn, 'k': k, 'phase': phase},
                               'expected': {'old': old, 'new': new}, 'observed': res})
            run.nontrivial.add((scn, k))
    # ---- the deciding thread is the one that is preempted (after its own load step), a whole reload goes by
    _, _, total = decider_switch(root, 10 ** 9, pkg)
    run.count('lines_in_decision', total)
    for k in range(1, total + 1):
        r, phase, _ = decider_switch(root, k, pkg)
        run.evaluations += 1
        # roles ['m']: the old policy (p -> h -> role:o) denies, the new one (p = role:n) denies
        if r is not False:
            run.violation('mixed-decider:ref-edit:%s' % phase,
                          'the deciding thread was preempted at its line-point %d (%s) while the main file was edited '
                          '(p and the rule it refers to both changed) and reloaded: it decided %r, the old and the new '
                          'policy both deny' % (k, phase, r),
                          {'kind': 'failing-input', 'suite': 'spec-c20-decider',
                           'input': {'scenario': 'ref-edit', 'k': k, 'phase': phase}, 'expected': False, 'observed': r})
        run.nontrivial.add(('decider', k))
    # ---- two switches: A finished its reload and is about to decide, B enters its own (idle) load step, A decides
    for scn in TWO_SWITCH_SCENARIOS:
        old, new = settled(scn, root)
        _, _, total = two_switch(scn, root, 10 ** 9, pkg, sites)
        run.count('lines_in_idle_load:' + scn, total)
        for k in range(1, total + 1):
            res, phase, _ = two_switch(scn, root, k, pkg, sites)
            run.evaluations += 1
            if res != old and res != new:
                run.violation('mixed-two-switch:%s:%s' % (scn, phase),
                              'scenario %s: a thread that had completed its own reload was overtaken, before it looked its rule '
                              'up, by another thread\'s load step paused at line-point %d (after write site %r): its decisions '
                              'are neither the old nor the new policy' % (scn, k, phase),
                              {'kind': 'failing-input', 'suite': 'spec-c20-two-switch',
                               'input': {'scenario': scn, 'k': k, 'phase': phase},
                               'expected': {'old': old, 'new': new}, 'observed': res})
            run.nontrivial.add(('two-switch', scn, k))
    run.extra['mixed_phases'] = {('%s | %s' % k): len(v) for k, v in sorted(mixed.items())}
    run.sample({'scenario': SCENARIOS[0], 'k': 100})
    run.rule = ('reload scenarios (%s); the reloading thread is preempted at every%s source-line boundary inside oslo_policy '
                '(sys.settrace), the other thread then takes 56 decisions (4 names x 14 roles, each through its own implicit '
                'load_rules) and the reloader resumes; decisions compared with the settled old and new policies; a mixed decision '
                'is keyed by (scenario, last shared-state write site executed by the reloader); the two-switch family (a thread that completed its reload, paused before its lookup, overtaken by the idle load step of another thread at every line of that step); and the deciding thread preempted at every line of its own enforce call while a whole reload goes by (keyed by whether the definition of the enforced rule had already been fetched). non-trivial = preemption points'
                % (', '.join(SCENARIOS), '' if tier == 'thorough' else ' third'))
    _rm_root(root)


def replay(run, rep):
    import oslo_policy
    inp = rep['input']
    pkg = os.path.dirname(oslo_policy.__file__)
    root = fresh_root('c20replay')
    if rep.get('suite') == 'spec-c20-decider':
        r, phase, _ = decider_switch(root, inp['k'], pkg)
        _rm_root(root)
        print('phase', phase, 'decision', r)
        return r is False
    old, new = settled(inp['scenario'], root)
    if rep.get('suite') == 'spec-c20-two-switch':
        res, phase, _ = two_switch(inp['scenario'], root, inp['k'], pkg, site_lines())
        _rm_root(root)
        print('phase', phase, 'mixed' if res not in (old, new) else 'old-or-new')
        return res in (old, new)
    res, phase, _, _ = one_switch(inp['scenario'], root, inp['k'], pkg, site_lines())
    _rm_root(root)
    print('phase', phase, 'mixed' if (res is not None and res not in (old, new)) else 'old-or-new')
    return res is None or res in (old, new)
