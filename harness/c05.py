"""C05: attribute checks compare a literal or credential path with the target value."""
import ast
import itertools

from common import S, enc_jv, run_batch, unS, EXN_CODE
from common import corr_kind
from world import base_case, run_cases, describe, out_of_model, agree
from c04 import enc_parts

GEN = ['GChecks.v', 'GParser.v']

SCALARS = ['x', 'y', '', 'True', '1', 1, 0, -3, 2.5, True, False, None, 'J\u00fcrgen', 'caf\u00e9', '\u65e5\u672c', '\U0001f600']
KEYS = ['a', 'b', 'c']
LITERALS = ["'caf\u00e9'", '"J\u00fcrgen"', "'x'", '"x"', "'y'", "''", "'a b'", '"it\'s"', '1', '0', '-3', '2.5', '1e3', 'True', 'False',
            'None', '(1, 2)', '[1]', "{'a', 1}", '1_000', '0x10', "b'x'", '1j']


def rand_value(rng, depth):
    r = rng.random()
    if depth <= 0 or r < 0.35:
        return rng.choice(SCALARS)
    if r < 0.7:
        return {k: rand_value(rng, depth - 1) for k in rng.sample(KEYS, rng.randint(0, 3))}
    return [rand_value(rng, depth - 1) for _ in range(rng.randint(0, 3))]


def lit_outcome(kind):
    try:
        return [0, S(str(ast.literal_eval(kind)))]
    except RecursionError:
        return [1, 8]
    except Exception as e:   # noqa
        return [1, EXN_CODE.get(type(e).__name__, 1099)]


def gen_case(rng):
    target = {}
    if rng.random() < 0.45:
        kind = rng.choice(LITERALS)
    else:
        segs = [rng.choice(KEYS) for _ in range(rng.randint(1, 4))]
        if rng.random() < 0.12:
            # an empty path segment is a key like any other (the empty string), not something to skip
            segs.insert(rng.randrange(len(segs) + 1), '')
            if segs == ['']:
                segs = ['', 'a']
        kind = '.'.join(segs)
    creds = {k: rand_value(rng, 3) for k in rng.sample(KEYS, rng.randint(0, 3))}
    if rng.random() < 0.1:
        creds[''] = rand_value(rng, 2)
    # aim the right side at something reachable half of the time
    def walk(v, ks):
        if not ks:
            return [v]
        if isinstance(v, dict) and ks[0] in v:
            w = v[ks[0]]
            if isinstance(w, list):
                return [z for x in w for z in walk(x, ks[1:])]
            return walk(w, ks[1:])
        return []
    cands = []
    if '.' in kind or kind in KEYS or kind == '':
        cands = [str(z) for z in walk(creds, kind.split('.'))]
    else:
        try:
            cands = [str(ast.literal_eval(kind))]
        except Exception:   # noqa
            cands = []
    rhs = rng.choice(cands) if cands and rng.random() < 0.6 else str(rng.choice(SCALARS))
    r = rng.random()
    if r < 0.08:
        rhs = rng.choice([rhs.lower(), rhs.upper(), rhs.swapcase()])      # the comparison is exact, case included
    elif r < 0.14:
        rhs = rng.choice([' ' + rhs, rhs + ' ', rhs + '\n'])                # ... and white space
    if rng.random() < 0.5:
        parts = [('lit', rhs)]
    else:
        key = rng.choice(['t', 'u', 't', 'a-b', 'x:y', 'k/1', 'x@y', 'sp ace', 'é'])
        parts = [('hole', key)]
        if rng.random() < 0.85:
            # the target holds the value itself (str() is applied by the substitution)
            target[key] = rhs if rng.random() < 0.7 else rng.choice(SCALARS)
    return kind, parts, target, creds


def small_scope():
    """all paths of depth <= 3 over {a, b} against all credential trees of depth <= 2"""
    leaves = ['x', 1, None]

    def trees(d):
        if d == 0:
            return list(leaves)
        sub = trees(d - 1)
        out = list(leaves)
        for v in sub:
            out.append({'a': v})
            out.append([v])
        for v, w in itertools.product(sub[:6], repeat=2):
            out.append({'a': v, 'b': w})
            out.append([v, w])
        return out
    ts = trees(2)
    paths = [list(p) for n in (1, 2, 3) for p in itertools.product('ab', repeat=n)]
    for t in ts:
        for p in paths:
            for rhs in ('x', '1', 'None'):
                yield '.'.join(p), [('lit', rhs)], {}, {'a': t}


def literal_scope():
    """every literal left side of a small catalogue (canonical and non-canonical spellings) against every right side of
    a small catalogue, written out or filled from a target holding the value as a string or as the typed value"""
    lhs = ["'a'", '"a"', "''", "'A'", "' a'", '1', '01', '1.0', '1.50', '1e0', '+1', '-0', '0', '0x1', '1_0', 'True', 'False',
           'None', '(1,)', '[]', "{'a'}"]       # (no left side may contain a colon: the check splits at the first one)
    rhs = ['a', 'A', '', ' a', 'a ', '1', '01', '1.0', '1.5', '1.50', '+1', '-0', '0', '10', 'True', 'true', 'False', 'None',
           'none', '(1,)', '[]', "{'a': 1}"]
    typed = [1, 1.0, 1.5, 0, True, False, None, 'a', '', [], (1,)]
    for l in lhs:
        for r in rhs:
            yield l, [('lit', r)], {}, {}
            yield l, [('hole', 't')], {'t': r}, {}
        for v in typed:
            if not isinstance(v, tuple):
                yield l, [('hole', 't')], {'t': v}, {}
        yield l, [('hole', 't')], {}, {}


def run(run, binfo):
    tier, rng = run.tier, run.rng
    n = 4000 if tier == 'quick' else 80000
    gens = [gen_case(rng) for _ in range(n)]
    gens += list(literal_scope())
    # list members equal as Python values (1 == True == 1.0) are different as text
    for lst in ([1, True], [True, 1], [1, 1.0], [1.0, 1], [0, False], [False, 0, 0.0], [1, True, 1.0, '1'], ['x', 'x', 1]):
        for rhs in ('1', 'True', '1.0', '0', 'False', '0.0', 'x'):
            gens.append(('flags', [('lit', rhs)], {}, {'flags': lst}))
            gens.append(('a.flags', [('hole', 't')], {'t': rhs}, {'a': {'flags': lst}}))
    # credential attributes whose names look like secrets (the debug dump masks such values in ITS copy)
    for kind, creds in (('auth_token', {'auth_token': 'tv'}), ('user.password_expires_at', {'user': {'password_expires_at': 'tv'}}),
                        ('token.secrets.id', {'token': {'secrets': {'id': 'tv'}}}), ('x_password', {'x_password': 'tv'})):
        for rhs in ('tv', '***', 'other'):
            gens.append((kind, [('lit', rhs)], {}, creds))
            gens.append((kind, [('hole', 't')], {'t': rhs}, creds))
    # a left side that differs from a registered kind name only by letter case is a credential path like any other
    for kind in ('Role', 'ROLE', 'Rule', 'RULE', 'Http', 'rOLE'):
        for rhs in ('admin', 'x', 'never'):
            for creds in ({kind: rhs}, {kind: 'other', 'roles': [rhs]}, {'roles': [rhs]}, {kind: [rhs, 'zz']}, {}):
                gens.append((kind, [('lit', rhs)], {}, creds))
    # the enforcer copies a TRUTHY `system_scope` into `system` before the checks run; a falsy one leaves the credentials
    # as they are, so `system` is then reached (or missing) like any other attribute
    for falsy in (None, '', False, 0, [], {}):
        for extra in ({}, {'system': 'all'}, {'system': 'x'}, {'system': None}):
            creds = dict({'system_scope': falsy}, **extra)
            for rhs in ('all', 'None', '', 'False', '0', '[]', 'x', '{}'):
                gens.append(('system', [('lit', rhs)], {}, creds))
            gens.append(('system', [('hole', 't')], {'t': str(falsy)}, creds))
            gens.append(('system_scope', [('lit', str(falsy))], {}, creds))
    # the same credentials in the other representations a service may hand over: the request context object, and the
    # mapping its to_policy_values() returns (the case holds the constructor arguments; the documented value is
    # computed on the plain-dict equivalent)
    from world import convert_creds
    for kw in ({'roles': ['Admin', 'reader']}, {'roles': ['admin'], 'service_roles': ['Service', 'x']},
               {'roles': [], 'user_id': 'U1', 'project_id': 'P1'}, {'roles': ['MiXed'], 'is_admin_project': False},
               {'roles': ['a'], 'system_scope': 'all'}, {'roles': ['B'], 'domain_id': 'D', 'user_domain_id': 'Ud'}):
        pv = dict(convert_creds('policy_values', kw))
        for rep in ('context', 'policy_values'):
            for kind in ('roles', 'service_roles', 'user_id', 'project_id', 'is_admin_project', 'system_scope',
                         'domain_id', 'user_domain_id', 'service_user_id', 'nonexistent'):
                vals = pv.get(kind)
                seen = [str(v) for v in vals] if isinstance(vals, list) else [str(vals)]
                for rhs in sorted(set(seen + [x.lower() for x in seen] + [x.upper() for x in seen] + ['None'])):
                    gens.append((kind, [('lit', rhs)], {}, kw, rep))
                    gens.append((kind, [('hole', 't')], {'t': rhs}, kw, rep))
    ss = list(small_scope())
    if tier == 'quick':
        ss = ss[::5]
    gens += ss
    reqs = []
    for g in gens:
        kind, parts, tgt, creds = g[:4]
        if len(g) > 4:
            creds = dict(convert_creds('policy_values', creds))
        reqs.append([8, 1, lit_outcome(kind), [S(k) for k in kind.split('.')], enc_parts(parts),
                     enc_jv(tgt), enc_jv(creds)])
    spec = run_batch(reqs)
    cases, wants = [], []
    for g, sp in zip(gens, spec):
        kind, parts, tgt, creds = g[:4]
        text, wf, want = unS(sp[0]), bool(sp[1]), bool(sp[2])
        if not wf:
            run.count('ill_formed_template_skipped')
            continue
        cases.append(base_case(rules={'r': [[kind + ':' + text]]}, target=tgt, creds=creds, debug=(len(cases) % 3 == 0)))
        if len(g) > 4:
            cases[-1]['creds_as'] = g[4]
            run.count('representation_cases')
        wants.append(want)
    run.count('cases', len(cases))
    run.count('small_scope_cases', len(ss))
    bad_corr = []
    for c, want, (mres, mtr, ires, itr) in zip(cases, wants, run_cases(cases)):
        run.evaluations += 1
        if out_of_model(mres):
            run.count('out_of_model')
        elif not agree(mres, ires):
            bad_corr.append((c, mres, ires))
        if tuple(ires[:2]) != ('ret', want):
            run.violation('decision', 'generic check %r target %r creds %r -> %r, documented %r'
                          % (c['rules']['r'], c['target'], c['creds'], ires, want),
                          {'kind': 'failing-input', 'suite': 'spec-c05', 'input': describe(c),
                           'expected': want, 'observed': ires})
        if want:
            run.count('allowed')
            run.nontrivial.add(repr((c['rules']['r'], c['target'], c['creds'])))
    run.sample(describe(cases[0]))
    run.sample(describe(cases[len(cases) // 2]))
    run.extra['correspondence_disagreements'] = len(bad_corr)
    if bad_corr and not run.violations:
        c, m, i = next((x for x in bad_corr if corr_kind(x[1]) == 'failing-input'), bad_corr[0])
        run.violation('correspondence:S3', 'model and implementation disagree on a generic check',
                      {'kind': corr_kind(m), 'oracle': 'the Coq model, for which the property is proved', 'obligation': 'correspondence suite S3 (generic check)',
                       'input': describe(c), 'model': m, 'observed': i, 'count': len(bad_corr)})
    run.rule = ('%d generated (check, target, credentials): left side from %d literals (both quote styles, ints, floats, '
                'booleans, None, tuples, ...) or dotted paths of depth 1-4; right side literal or placeholder; nested random '
                'credentials (dicts, lists of dicts, lists of lists, every JSON scalar); plus small scope: all paths of depth '
                '<= 3 over {a,b} x credential trees of depth <= 2 (%d cases). extracted spec_generic (collect-all reading of '
                '"reach") vs Enforcer.enforce; non-trivial = distinct allowed cases' % (n, len(LITERALS), len(ss)))


def replay(run, rep):
    from world import run_impl
    c = rep['input']
    c['default'] = tuple(c['default'])
    c['rule'] = tuple(c['rule'])
    ires, _ = run_impl(c)
    print('observed', ires, 'expected', rep.get('expected'))
    return tuple(ires[:2]) == ('ret', rep.get('expected'))
