"""C15: printing a rule and parsing it back is the identity on meaning and on text."""
import json

from common import S, enc_jv, run_batch, tree_of, unS
from c01 import rand_oexp, gen_oexps, render, impl_parse, model_parse_answer, enforcer
from c02 import sentence_tokens

GEN = ['GChecks.v', 'GParser.v', 'GUnicode.v']

LEAVES = ['role:admin', 'role:%(x)s', 'rule:other', 'rule:a:b', 'user_id:%(user_id)s', "'Member':%(role.name)s",
          '"quoted":%(k)s', 'True:%(enabled)s', 'a.b.c:x', 'http://host/path', 'https://h/%(id)s', '@', '!',
          'k:', ':v', 'k:v:w', "k:'v'", 'x:(y', 'a:b)c', 'rôle:ádmin', "'a':'b'", '"a":"b"', "'q'", 'nocolon',
          # literal left sides that decide True for the probe target: printing must keep them literals
          "'admin':%(x)s", '"u":%(user_id)s', "'nope':%(x)s", 'None:%(absent)s', '1:%(one)s',
          # remote checks whose URL carries everything a URL may: user info, port, query, fragment
          'http://alice:s3cret@h/check', 'https://u:p@h:8443/%(id)s', 'http://user@h/p', 'http://h:80/p?x=1&y=%(id)s#f',
          'https://bob:hunter2@h/check', 'http://:@h/', 'http://***:***@h/check',
          # a left side that differs from a check kind only by letter case is an attribute path like any other
          'Role:admin', 'RULE:other', 'Http://host/p', 'rOLE:%(x)s', 'Rule:a:b']
ROLESETS = [[], ['admin'], ['other'], ['admin', 'other']]


def expr_text(rng, size):
    k = rng.randint(1, 5)
    leaves = rng.sample(LEAVES, k)
    o = rand_oexp(rng, size, k)
    toks = sentence_tokens(o, ['%d' % i for i in range(k)])
    out = [leaves[int(t[5:])] if t.startswith('role:') else t for t in toks]
    return ' '.join(out)


def list_rule(rng):
    def inner():
        if rng.random() < 0.3:
            return rng.choice(LEAVES)
        return [rng.choice(LEAVES) for _ in range(rng.randint(0, 3))]
    return [inner() for _ in range(rng.randint(0, 3))]


def decisions(value):
    from oslo_policy import policy
    e = enforcer()
    e.set_rules(policy.Rules.from_dict({'r': value, 'other': 'role:other', 'a:b': '!'}), use_conf=False)
    out = []
    for roles in ROLESETS:
        try:
            out.append(bool(e.enforce('r', {'x': 'admin', 'user_id': 'u', 'one': 1}, {'roles': roles, 'user_id': 'u', 'admin': 'nope', 'u': 'x'})))
        except Exception as ex:   # noqa
            out.append('EXC ' + type(ex).__name__)
    return out


def run(run, binfo):
    from oslo_policy import _parser, policy
    tier, rng = run.tier, run.rng
    values = []
    # every sentence of the grammar up to N nodes over three leaves, rendered plainly
    maxnodes = 5 if tier == 'quick' else 7
    names = ['r0', 'r1', 'r2']
    for n in range(1, maxnodes + 1):
        for o in gen_oexps(n, 2):
            values.append(' '.join(sentence_tokens(o, names)))
    nrand = 1500 if tier == 'quick' else 30000
    for _ in range(nrand):
        values.append(expr_text(rng, rng.randint(1, 14)))
    for _ in range(nrand // 3):
        values.append(list_rule(rng))
    model = run_batch([[2, [], enc_jv(v)] for v in values])
    bad_corr = []
    for v, ma in zip(values, model):
        run.evaluations += 1
        m = model_parse_answer(ma)
        i = impl_parse(v)
        if m != i:
            bad_corr.append((v, m, i))      # and go on: the statement is checked on what the implementation did
        if i[0] != 'ok':
            continue
        printed = i[2]
        # a list-form leaf the text language cannot express is outside the quantifier
        if not isinstance(v, str):
            flat = [x for e in v for x in ([e] if isinstance(e, str) else e)]
            if any((not x) or any(ch.isspace() for ch in x) or x[0] == '(' or x[-1] == ')' or
                   (len(x) >= 2 and x[0] == x[-1] and x[0] in '"\'') or x.lower() in ('and', 'or', 'not')
                   for x in flat):
                run.count('list_form_not_expressible_skipped')
                continue
        again = impl_parse(printed)
        if again[0] != 'ok' or again[2] != printed or again[1] != i[1]:
            run.violation('roundtrip', 'rule %r prints as %r which parses to %r' % (v, printed, again),
                          {'kind': 'failing-input', 'suite': 'spec-c15', 'input': {'rule': v},
                           'expected': [i[1], printed], 'observed': list(again)})
            continue
        d0, d1 = decisions(v), decisions(printed)
        if d0 != d1:
            run.violation('roundtrip-decisions', 'rule %r and its printed form %r decide differently: %r vs %r'
                          % (v, printed, d0, d1),
                          {'kind': 'failing-input', 'suite': 'spec-c15', 'input': {'rule': v},
                           'expected': d0, 'observed': d1})
        if len(set(map(str, d0))) > 1:
            run.nontrivial.add(printed)
    run.count('rules', len(values))
    # rule sets: dump to the string form and load that string
    nsets = 200 if tier == 'quick' else 5000
    for _ in range(nsets):
        rs = {}
        for j in range(rng.randint(0, 6)):
            nm = rng.choice(['n%d' % j, 'n%d' % j, 'identity:change_password', 'identity:validate_token', 'auth_token',
                             'rotate_secret2', 'os_compute_api:os-admin-password', 'private_key', 'n%d:PASSWORD' % j])
            rs[nm] = rng.choice(['', '@', expr_text(rng, rng.randint(1, 8)), list_rule(rng)])
        rules = policy.Rules.from_dict(rs)
        text = str(rules)
        run.evaluations += 1
        try:
            back = policy.Rules.load(text)
        except Exception as ex:   # noqa
            run.violation('ruleset-roundtrip', 'the dump of the rule set %r does not load: %s' % (rs, type(ex).__name__),
                          {'kind': 'failing-input', 'suite': 'spec-c15', 'input': {'rules': rs},
                           'expected': 'loads', 'observed': type(ex).__name__})
            continue
        p0 = {k: str(c) for k, c in rules.items()}
        p1 = {k: str(c) for k, c in back.items()}
        # leaves outside the text language excluded as above
        if p0 != p1:
            skip = False
            for k, v in rs.items():
                if not isinstance(v, str):
                    skip = True
            if not skip:
                run.violation('ruleset-roundtrip', 'dumping and loading the rule set %r changed it: %r -> %r' % (rs, p0, p1),
                              {'kind': 'failing-input', 'suite': 'spec-c15', 'input': {'rules': rs},
                               'expected': p0, 'observed': p1})
    run.count('rule_sets', nsets)
    # a rule set that changes after it was dumped: the next dump is that of the CURRENT contents
    nhist = 150 if tier == 'quick' else 3000
    for _ in range(nhist):
        def some(k):
            return {'n%d' % j: rng.choice(['', '@', '!', expr_text(rng, rng.randint(1, 6))])
                    for j in rng.sample(range(6), k)}
        first, second = some(rng.randint(0, 4)), some(rng.randint(1, 4))
        how = rng.choice(['update', 'set_rules', 'setitem', 'pop', 'setdefault', 'clear+update', 'delitem'])
        r = policy.Rules.from_dict(first, 'n0')
        str(r)
        want = dict(first)
        parsed = policy.Rules.from_dict(second)
        try:
            if how == 'update':
                r.update(parsed)
                want.update(second)
            elif how == 'set_rules':
                e = enforcer()
                e.set_rules(r, use_conf=False)
                str(e.rules)
                e.set_rules(parsed, overwrite=False, use_conf=False)
                r = e.rules
                want.update(second)
            elif how == 'setitem':
                for k, c in parsed.items():
                    r[k] = c
                want.update(second)
            elif how == 'pop':
                for k in list(second):
                    dict.pop(r, k, None)
                    want.pop(k, None)
            elif how == 'delitem':
                for k in list(second):
                    if k in dict.keys(r):
                        del r[k]
                    want.pop(k, None)
            elif how == 'setdefault':
                for k, c in parsed.items():
                    dict.setdefault(r, k, c)
                    want.setdefault(k, second[k])
            else:
                r.clear()
                r.update(parsed)
                want = dict(second)
            got = str(r)
            ref = str(policy.Rules.from_dict(want, 'n0'))
        except Exception as ex:   # noqa
            got, ref = 'EXC ' + type(ex).__name__, 'a dump'
        run.evaluations += 1
        if got != ref:
            run.violation('ruleset-dump-stale', 'after %s the dump of the rule set is %r, a fresh rule set with the same '
                          'contents dumps as %r' % (how, got, ref),
                          {'kind': 'failing-input', 'suite': 'spec-c15',
                           'input': {'first': first, 'then': second, 'how': how}, 'expected': ref, 'observed': got})
    run.count('rule_set_histories', nhist)
    # RuleDefault equality: equal (name, printed check)  =>  equal decisions
    npairs = 400 if tier == 'quick' else 10000
    for _ in range(npairs):
        a = expr_text(rng, rng.randint(1, 6))
        b = a if rng.random() < 0.3 else expr_text(rng, rng.randint(1, 6))
        if rng.random() < 0.3:
            b = '( ' + a.replace(' and ', ' AND ').replace(' or ', '   OR ') + ' )' if rng.random() < 0.5 else '  ' + a
        if rng.random() < 0.2:
            b = rng.choice([a.upper(), a.swapcase(), a.title()])       # equality is by printed form, letter case included
        da, db = policy.RuleDefault('n', a), policy.RuleDefault('n', b)
        run.evaluations += 1
        if (da == db) != (str(da.check) == str(db.check)):
            run.violation('ruledefault-eq', 'RuleDefault equality of %r and %r is %r but printed forms are %r / %r'
                          % (a, b, da == db, str(da.check), str(db.check)),
                          {'kind': 'failing-input', 'suite': 'spec-c15', 'input': {'a': a, 'b': b},
                           'expected': str(da.check) == str(db.check), 'observed': da == db})
        if da == db and decisions(a) != decisions(b):
            run.violation('equal-but-different', '%r and %r print identically (%r) but decide differently'
                          % (a, b, str(da.check)),
                          {'kind': 'failing-input', 'suite': 'spec-c15', 'input': {'a': a, 'b': b},
                           'expected': decisions(a), 'observed': decisions(b)})
    run.count('default_pairs', npairs)
    run.sample({'rule': values[len(values) // 2]})
    run.extra['correspondence_disagreements'] = len(bad_corr)
    if bad_corr and not run.violations:
        v, m, i = bad_corr[0]
        run.violation('correspondence:S7', 'model and implementation parse/print %r differently' % (v,),
                      {'kind': 'broken-obligation', 'obligation': 'correspondence suite S7 (parse and print)',
                       'input': v, 'model': m, 'observed': i, 'count': len(bad_corr)})
    run.rule = ('every sentence of the grammar up to %d nodes, %d random expressions over %d leaf texts of every built-in kind '
                '(role, rule, generic with quoted literals and placeholders, http(s), @, !, malformed ones) and %d list-of-lists '
                'rules: parse, print, parse again -> same tree, same text, same decisions on 4 role sets; %d rule sets of <= 6 rules '
                'dumped with str(Rules) and loaded back; %d RuleDefault pairs (equal iff printed forms equal; equal => same '
                'decisions); model vs implementation on tree and printed text. non-trivial = distinct printed rules with a '
                'non-constant decision' % (maxnodes, nrand, len(LEAVES), nrand // 3, nsets, npairs))


def replay(run, rep):
    inp = rep.get('input', {})
    if 'rule' in inp:
        i = impl_parse(inp['rule'])
        again = impl_parse(i[2]) if i[0] == 'ok' else None
        print('parsed', i, 'again', again)
        return bool(again) and again[0] == 'ok' and again[1] == i[1] and again[2] == i[2]
    print('replay re-runs through the quick check; input', inp)
    return False
