"""C18: policy-file rewriting tools and advice preserve every decision."""
import contextlib
import io
import json
import os
import shutil
from unittest import mock

import yaml

from common import work_dir
from loadsim import fresh_root

GEN = ['GChecks.v', 'GPolicy.v', 'GParser.v']

ROLES = ['admin', 'member', 'reader', 'old', 'new', 'x']
ROLESETS = [[r for i, r in enumerate(ROLES) if (m >> i) & 1] for m in range(0, 64, 3)]
ROLESETS += [['cloud admin'], ['cloud admin', 'member'], ['team-\U00020bb7\u91ce'], ['\u00e9quipe', 'x'], ['team-\U00020bb7\u91ce', 'reader']]


def mk_defaults(rng):
    """-> list of (name, check_str, deprecated (old_name, old_check) or None)"""
    shape = rng.choice(['plain', 'renamed', 'split', 'changed', 'mixed'])
    long_cs = ' or '.join('role:some_rather_long_role_name_%d' % i for i in range(6)) + ' or role:member'
    out = [('admin_required', 'role:admin', None), ('svc:plain', rng.choice(['role:member', 'rule:admin_required', '@']), None),
           ('svc:long', rng.choice([long_cs, 'role:reader']), None)]
    if shape in ('renamed', 'mixed'):
        out.append(('svc:new_show', rng.choice(['role:reader', 'role:new']), ('svc:show', rng.choice(['role:old', 'role:reader']))))
    if shape in ('split', 'mixed'):
        for n in ('svc:create', 'svc:delete', 'svc:update')[:rng.randint(2, 3)]:
            out.append((n, rng.choice(['role:admin', 'role:member']), ('svc:write', 'role:old')))
    if shape in ('changed', 'mixed'):
        out.append(('svc:list', 'role:reader', ('svc:list', 'role:old')))
    return out


def build_defaults(defs):
    from oslo_policy import policy
    out = []
    for name, cs, dep in defs:
        d = None
        if dep:
            d = policy.DeprecatedRule(dep[0], dep[1], deprecated_reason='r', deprecated_since='s')
        out.append(policy.RuleDefault(name, cs, description='Describes %s.' % name, deprecated_rule=d))
    return out


VALUES = ['role:admin', 'role:member or role:reader', 'rule:admin_required', 'not role:x', '@', '!', '',
          'role:member and (role:reader or role:x)', [['role:admin'], ['role:member', 'role:reader']], [], [['role:x']],
          ['role:reader'],
          # characters outside ASCII / Latin-1 / the BMP must come through the tools unchanged
          'role:team-\U00020bb7\u91ce or role:x', 'role:\u00e9quipe', [['role:team-\U00020bb7\u91ce']],
          # list form can say what the text form cannot: a role name with a blank in it
          [['role:cloud admin']], [['role:cloud admin', 'role:member'], ['role:x']]]


def mk_file(rng, defs, allow_alias=True):
    """a valid, non-self-conflicting operator policy file"""
    f = {}
    olds = {d[2][0] for d in defs if d[2] and d[2][0] != d[0]}
    for name, cs, dep in defs:
        r = rng.random()
        if r < 0.3:
            f[name] = rng.choice(VALUES + [cs])          # an override (possibly textually the default)
        elif r < 0.4:
            f[name] = ' ' + cs if isinstance(cs, str) and cs else cs    # a textual variant of the default
        elif r < 0.48 and isinstance(cs, str) and ':' in cs:
            # the default with another letter case after the colon: the same rule for role:, another one elsewhere
            k, m = cs.split(':', 1)
            f[name] = k + ':' + rng.choice([m.upper(), m.capitalize(), m.swapcase()])
    for o in sorted(olds):
        succ = [d[0] for d in defs if d[2] and d[2][0] == o]
        if any(s in f for s in succ):
            continue                                    # both a deprecated name and a successor: excluded
        r = rng.random()
        if r < 0.12:
            # the operator pinned the deprecated name to (a spelling of) its old default
            oc = [d[2][1] for d in defs if d[2] and d[2][0] == o][0]
            f[o] = rng.choice([oc, '(' + oc + ')', '  ' + oc, [[oc]]])
        elif r < 0.45:
            f[o] = rng.choice(VALUES)
        elif r < (0.8 if len(succ) > 1 else 0.6) and allow_alias:
            # the old name kept as an alias of one (of possibly several) successors, in any spelling of that reference
            al = 'rule:' + rng.choice(succ)
            f[o] = rng.choice([al, al, [[al]], '(' + al + ')', ' ' + al, [al]])
    if rng.random() < 0.4:
        f['svc:unknown'] = rng.choice(VALUES)
    return f


def enforcer_for(root, defs, main=None, dirfiles=None):
    from oslo_config import cfg
    from oslo_policy import policy, opts
    shutil.rmtree(root, ignore_errors=True)
    os.makedirs(os.path.join(root, 'policy.d'))
    if main is not None:
        with open(os.path.join(root, 'policy.yaml'), 'w') as f:
            f.write(main if isinstance(main, str) else json.dumps(main))
    for fn, m in (dirfiles or {}).items():
        with open(os.path.join(root, 'policy.d', fn), 'w') as f:
            f.write(json.dumps(m))
    conf = cfg.ConfigOpts()
    opts._register(conf)
    conf(['--config-dir', root], project='verif')
    e = policy.Enforcer(conf)
    e.suppress_deprecation_warnings = True
    e.register_defaults(build_defaults(defs))
    return e


def decisions(e, names):
    out = {}
    for n in names:
        row = []
        for roles in ROLESETS:
            try:
                row.append(bool(e.enforce(n, {}, {'roles': roles, 'project_id': 'p'})))
            except RecursionError:
                row.append('EXC RecursionError')
            except Exception as ex:   # noqa
                row.append('EXC ' + type(ex).__name__)
        out[n] = row
    return out


def value_shape(v):
    if isinstance(v, list):
        return 'list-of-lists'
    if isinstance(v, str) and '"' in v:
        return 'double-quote'
    return 'string'


def check_tool(run, tool, defs, before, after, names, inp, shape_key):
    d0 = decisions(before, names)
    d1 = decisions(after, names)
    run.evaluations += 1
    for n in names:
        if d0[n] != d1[n]:
            run.violation('%s:%s' % (tool, shape_key), '%s changed the decisions of %s: %r -> %r'
                          % (tool, n, d0[n][:8], d1[n][:8]),
                          {'kind': 'failing-input', 'suite': 'spec-c18', 'input': dict(inp, tool=tool, name=n),
                           'expected': d0[n], 'observed': d1[n]})
            return False
    if any(len(set(map(str, r))) > 1 for r in d0.values()):
        run.nontrivial.add((tool, json.dumps(inp, sort_keys=True, default=str)))
    return True


def wire_defs(defs):
    from loadsim import enc_defaults
    return enc_defaults([(n, cs, dep, None) for n, cs, dep in defs])


def wire_file(f):
    from common import S, enc_jv
    return [[S(k), enc_jv(v)] for k, v in f.items()]


def from_jv(x):
    from c16 import from_wire_jv
    return from_wire_jv(x)


def spread(objs, seed):
    """the registered defaults as the service's entry points deliver them: one namespace, or several (one of them empty)"""
    how = (seed // 2) % 3
    if how == 0:
        return {'ns': objs}
    if how == 1:
        return {'ns_a': objs[::2], 'ns_b': objs[1::2]}
    return {'ns_b': objs[:1], 'ns_a': objs[1:2], 'ns_c': objs[2:], 'ns_empty': []}


def one_round(seed, root_a, root_b, wd):
    """-> (violations, correspondence disagreements, evaluations, nontrivial keys, counts)"""
    import random
    import warnings
    warnings.simplefilter('ignore')
    from oslo_config import cfg
    from oslo_policy import generator, policy
    from common import run_batch, unS
    rng = random.Random(seed)

    class R:
        def __init__(self):
            self.violations, self.evaluations, self.nontrivial, self.corr = [], 0, set(), []

        def violation(self, key, desc, payload):
            self.violations.append((key, desc, payload))

        def count(self, *a):
            pass
    run = R()
    defs = mk_defaults(rng)
    forced_file = None
    if seed % 8 == 0:
        # a deprecated name split into successors with DIFFERENT defaults, kept by the operator as an alias of one of them
        defs = [('admin_required', 'role:admin', None), ('svc:create', 'role:admin', ('svc:write', 'role:old')),
                ('svc:delete', 'role:member', ('svc:write', 'role:old')),
                ('svc:update', 'role:reader', ('svc:write', 'role:old'))]
        al = 'rule:' + ['svc:create', 'svc:delete', 'svc:update'][(seed // 8) % 3]
        # ... in any spelling of that reference
        forced_file = {'svc:write': [al, [[al]], '(' + al + ')', [al]][(seed // 24) % 4]}
    objs = build_defaults(defs)
    names_new = [d[0] for d in defs]
    # ---------------- upgrade
    f = mk_file(rng, defs)
    if forced_file is not None:
        f = forced_file
    inp = {'defaults': defs, 'file': f}
    src = os.path.join(wd, 'up_in.yaml')
    dst = os.path.join(wd, 'up_out.yaml')
    open(src, 'w').write(json.dumps(f))
    fmt = rng.choice(['yaml', 'json'])
    conf = cfg.ConfigOpts()
    shape = 'alias-to-new' if any('rule:svc:' in str(v) for v in f.values()) else \
        ('split' if any(k == 'svc:write' for k in f) else 'plain')
    try:
        with mock.patch.object(generator, 'get_policies_dict', return_value=spread(objs, seed)), \
                contextlib.redirect_stderr(io.StringIO()):
            generator.upgrade_policy(['--policy', src, '--namespace', 'ns', '--output-file', dst,
                                      '--format', fmt], conf=conf)
        out = policy.parse_file_contents(open(dst).read())
        crashed = None
    except Exception as ex:   # noqa
        crashed = type(ex).__name__
    if crashed:
        run.violation('upgrade-crash:%s' % shape, 'oslopolicy-policy-upgrade failed with %s on %r' % (crashed, f),
                      {'kind': 'failing-input', 'suite': 'spec-c18', 'input': dict(inp, tool='upgrade'),
                       'expected': 'completes', 'observed': crashed})
    else:
        before = enforcer_for(root_a, defs, main=f)
        after = enforcer_for(root_b, defs, main=out)
        surviving = names_new + [k for k in out if k not in names_new]
        check_tool(run, 'upgrade', defs, before, after, surviving, inp, shape)
        m = run_batch([[17, 0, wire_defs(defs), wire_file(f)]])[0]
        mo = {unS(p[0]): from_jv(p[1]) for p in m}
        if mo != out:
            run.corr.append((dict(inp, tool='upgrade'), mo, out))
    # ---------------- convert json -> yaml
    f = mk_file(rng, defs)
    if forced_file is not None:
        f = forced_file
    inp = {'defaults': defs, 'file': f}
    src = os.path.join(wd, 'cv_in.json')
    dst = os.path.join(wd, 'cv_out.yaml')
    open(src, 'w').write(json.dumps(f))
    shapes = sorted({value_shape(v) for v in f.values()}) or ['string']
    shape = 'list-of-lists' if 'list-of-lists' in shapes else shapes[0]
    conf = cfg.ConfigOpts()
    try:
        with mock.patch.object(generator, 'get_policies_dict', return_value=spread(objs, seed)):
            generator.convert_policy_json_to_yaml(['--namespace', 'ns', '--policy-file', src,
                                                   '--output-file', dst], conf=conf)
        text = open(dst).read()
        crashed = None
    except Exception as ex:   # noqa
        crashed = type(ex).__name__
    if crashed:
        run.violation('convert-crash:%s' % shape, 'oslopolicy-convert-json-to-yaml failed with %s on %r' % (crashed, f),
                      {'kind': 'failing-input', 'suite': 'spec-c18', 'input': dict(inp, tool='convert'),
                       'expected': 'completes', 'observed': crashed})
    else:
        before = enforcer_for(root_a, defs, main=f)
        try:
            after = enforcer_for(root_b, defs, main=text)
            after.load_rules()
            ok_after = True
        except Exception as ex:   # noqa
            ok_after = False
            run.violation('convert-unloadable:%s' % shape, 'the converted file cannot be loaded (%s): %r'
                          % (type(ex).__name__, text[:300]),
                          {'kind': 'failing-input', 'suite': 'spec-c18', 'input': dict(inp, tool='convert'),
                           'expected': 'a loadable policy file', 'observed': text[:500]})
        if ok_after:
            check_tool(run, 'convert', defs, before, after, names_new + [k for k in f if k not in names_new], inp,
                       shape)
            kept = yaml.safe_load(text) or {}
            m = run_batch([[17, 1, wire_defs(defs), wire_file(f)]])[0]
            mo = {unS(p[0]): from_jv(p[1]) for p in m}
            if mo != kept:
                run.corr.append((dict(inp, tool='convert'), mo, kept))
    # ---------------- generator (merged policy) and list-redundant
    f = mk_file(rng, [d for d in defs], allow_alias=False)
    f = {k: v for k, v in f.items() if k in names_new or k == 'svc:unknown'}   # no override under a deprecated name
    keys = list(f)
    rng.shuffle(keys)
    main = {k: f[k] for k in keys[:len(keys) // 2]}
    dirf = {k: f[k] for k in keys[len(keys) // 2:]}
    inp = {'defaults': defs, 'main': main, 'dir': dirf}
    shapes = sorted({value_shape(v) for v in f.values()}) or ['string']
    shape = 'list-of-lists' if 'list-of-lists' in shapes else shapes[0]
    before = enforcer_for(root_a, defs, main=main, dirfiles={'ovr.json': dirf} if dirf else None)
    dst = os.path.join(wd, 'gen_out.yaml')
    try:
        with mock.patch.object(generator, '_get_enforcer', return_value=before):
            generator._generate_policy('ns', dst)
        text = open(dst).read()
        after = enforcer_for(root_b, defs, main=text)
        after.load_rules()
        crashed = None
    except Exception as ex:   # noqa
        crashed = type(ex).__name__
    if crashed:
        run.violation('generate-crash:%s' % shape, 'oslopolicy-policy-generator output unusable (%s)' % crashed,
                      {'kind': 'failing-input', 'suite': 'spec-c18', 'input': dict(inp, tool='generate'),
                       'expected': 'completes', 'observed': crashed})
    else:
        check_tool(run, 'generate', defs, before, after, names_new + [k for k in f if k not in names_new], inp, shape)
        fr = dict(main)
        fr.update(dirf)
        got = yaml.safe_load(text) or {}
        m = run_batch([[17, 2, wire_defs(defs), wire_file(fr)]])[0]
        mo = {unS(p[0]): from_jv(p[1]) for p in m}
        if mo != got:
            run.corr.append((dict(inp, tool='generate'), mo, got))
    # list-redundant: every reported rule can be deleted from the operator's files
    before = enforcer_for(root_a, defs, main=main, dirfiles={'ovr.json': dirf} if dirf else None)
    buf = io.StringIO()
    with mock.patch.object(generator, '_get_enforcer', return_value=before), contextlib.redirect_stdout(buf):
        generator._list_redundant('ns')
    red = []
    for line in buf.getvalue().splitlines():
        if line.startswith('"'):
            red.append(line.split('"')[1])
    fr = dict(main)
    fr.update(dirf)
    m = run_batch([[17, 3, wire_defs(defs), wire_file(fr)]])[0]
    if sorted(unS(x) for x in m) != sorted(red):
        run.corr.append((dict(inp, tool='list-redundant'), sorted(unS(x) for x in m), sorted(red)))
    main2 = {k: v for k, v in main.items() if k not in red}
    dir2 = {k: v for k, v in dirf.items() if k not in red}
    after = enforcer_for(root_b, defs, main=main2, dirfiles={'ovr.json': dir2} if dirf else None)
    before = enforcer_for(root_a, defs, main=main, dirfiles={'ovr.json': dirf} if dirf else None)
    check_tool(run, 'list-redundant', defs, before, after, names_new + ['svc:unknown'], dict(inp, reported=red), 'any')
    return run.violations, run.corr, run.evaluations, run.nontrivial, len(red)


def _worker(args):
    idx, seeds = args
    import common
    common.setup_impl()
    common.WORK = os.path.join(common.VERIF, '_work', 'c18_%d_%d' % (os.getppid(), idx))
    root_a = fresh_root('c18a_%d' % idx)
    root_b = fresh_root('c18b_%d' % idx)
    wd = work_dir()
    out = [one_round(sd, root_a, root_b, wd) for sd in seeds]
    shutil.rmtree(common.WORK, ignore_errors=True)
    return out


def run(run, binfo):
    tier, rng = run.tier, run.rng
    n = 160 if tier == 'quick' else 4000
    seeds = [rng.randrange(10 ** 9) for _ in range(n)]
    import multiprocessing as mp
    nproc = 14
    chunks = [(i, seeds[i::nproc]) for i in range(nproc)]
    with mp.get_context('fork').Pool(nproc) as pool:
        parts = pool.map(_worker, chunks)
    bad_corr = []
    nred = 0
    for part in parts:
        for viols, corr, evals, nontriv, red in part:
            run.evaluations += evals
            run.nontrivial |= nontriv
            nred += red
            for v in viols:
                run.violation(*v)
            bad_corr += corr
    run.count('rounds', n)
    run.count('redundant_reported', nred)
    run.sample({'defaults': mk_defaults(rng)})
    run.extra['correspondence_disagreements'] = len(bad_corr)
    if bad_corr and not run.violations:
        c, m, o = bad_corr[0]
        run.violation('correspondence:S8', 'model and implementation disagree on a tool\'s output',
                      {'kind': 'broken-obligation', 'obligation': 'correspondence suite S8 (rewriting tools)',
                       'input': c, 'model': m, 'observed': o, 'count': len(bad_corr)})
    run.rule = ('%d rounds, each: a default set (plain / renamed one-to-one / one deprecated name split into several / changed '
                'default under the same name / mixed) and valid non-self-conflicting operator files (string and list-of-lists '
                'values, registered / deprecated / unknown names, aliases old -> rule:new, textual variants of the default); '
                'upgrade and convert through their console entry points (stevedore replaced), generator and list-redundant on an '
                'enforcer with a main file and a directory override; decisions of an Enforcer on the original policy vs on the '
                'tool output for every surviving name x %d role subsets; tool output vs the model (resulting mapping / kept rules / '
                'reported names). non-trivial = cases with a non-constant decision' % (n, len(ROLESETS)))


def replay(run, rep):
    print('C18 replays re-run the quick check; input was', json.dumps(rep.get('input'), default=str)[:500])
    return False
