"""C11: deprecated-policy merging follows the documented override table."""
import itertools
import os
import shutil
import zlib

from common import S, run_batch, unS
from loadsim import FsSim, make_enforcer, enc_defaults, observe, model_history, fresh_root
from c06 import render_expr, ROLESETS

GEN = ['GPolicy.v', 'GChecks.v', 'GParser.v']

PAIRS = [('!', ''), ('role:new', ''), ('', 'role:old'),       # the empty check string is a check like any other: always allow
         ('role:new', 'role:old'), ('role:r0 or role:r1', 'role:r2'), ('role:r0 and not role:r1', 'role:r1'),
         ('@', '!'), ('rule:helper', 'role:r2'), ('not role:r0', 'role:r0 and role:r1')]
ROLES = ['r0', 'r1', 'r2', 'new', 'old', 'ovr', 'ovr_old']


def statement(renamed, same_str, enforce_new, new_ovr, old_ovr, new_cs, old_cs, ovr_old_value):
    """the statement of C11, read directly; returns the check *string* that must govern, or an
    ('or', new, old) marker"""
    if new_ovr:
        return 'role:ovr'
    if renamed and old_ovr in ('arbitrary', 'prefixref', 'deny', 'allow-empty'):
        return ovr_old_value
    if (not enforce_new) and new_cs != old_cs:
        return ('or', new_cs, old_cs)
    return new_cs


def do_job(root, row, new_cs, old_cs, tier):
    """one configuration -> (violations, correspondence disagreement or None, non-trivial key or None)"""
    from oslo_policy import policy
    from c01 import enforcer as plain_enforcer
    viols = []
    renamed, same_str, enforce_new, new_ovr, old_ovr, where, shared = row
    if same_str:
        old_cs = new_cs
    new_name = 'svc:new'
    old_name = 'svc:old' if renamed else new_name
    defaults = [(new_name, new_cs, (old_name, old_cs), None), ('helper', 'role:r1', None, None)]
    if shared == 1:
        defaults.append(('svc:new2', new_cs, (old_name, old_cs), None))
    elif shared == 2:
        defaults.insert(0, (old_name, 'role:r2 or role:new', (old_name, old_cs), None))
    elif shared == 3:
        # ... the same, registered AFTER the renamed policy
        defaults.append((old_name, 'role:r2 or role:new', (old_name, old_cs), None))
    if old_ovr == 'prefixref':
        defaults.append((new_name + ':forced', 'role:r2', None, None))
    files = {}
    ovr_old_value = 'role:ovr_old'
    if new_ovr:
        files[new_name] = 'role:ovr'
    if old_ovr == 'arbitrary':
        files[old_name] = ovr_old_value
    elif old_ovr == 'alias':
        files[old_name] = 'rule:' + new_name
    elif old_ovr == 'allow-empty':
        ovr_old_value = ''                # the empty check string (always allow) is an override like any other
        files[old_name] = ovr_old_value
    elif old_ovr == 'alias-list':
        # the same alias in the list spelling of the rule language
        files[old_name] = [['rule:' + new_name]]
    elif old_ovr == 'alias-paren':
        files[old_name] = '( rule:%s )' % new_name
    elif old_ovr == 'deny':
        ovr_old_value = '!'               # an explicit deny is an override like any other
        files[old_name] = '!'
    elif old_ovr == 'prefixref':
        # a reference to a DIFFERENT rule whose name merely begins with the new name: a real override
        ovr_old_value = 'rule:' + new_name + ':forced'
        files[old_name] = ovr_old_value
    shutil.rmtree(root, ignore_errors=True)
    os.makedirs(root)
    fs = FsSim(root)
    fs.mkdir('policy.d')
    if where == 'main':
        fs.write_main(files, 'yaml')
    elif where == 'dir':
        fs.write_main({'unrelated': '@'}, 'json')
        fs.write('policy.d', 'ovr.yaml', files, 'yaml')
    elif where == 'dironly':
        fs.write('policy.d', 'ovr.yaml', files, 'yaml')       # no policy file at all
    else:
        # the same names overridden in two layered files with different values: the later
        # layer (the directory) must govern, also in the record of file rules
        stale = {k: ('role:stale' if not 'rule:' in str(v) else 'role:stale_alias') for k, v in files.items()}
        if old_ovr == 'arbitrary' and renamed:
            stale[old_name] = 'rule:' + new_name      # an alias superseded by a real override
        fs.write_main(stale, 'json')
        fs.write('policy.d', 'ovr.yaml', files, 'yaml')
    fs.sync()
    # how the option got its value must not matter
    enw_via = ['override', 'config_file', 'lib_set_defaults', 'override'][zlib.crc32(repr(row).encode()) % 4]
    e = make_enforcer(root, defaults, enforce_new_defaults=enforce_new, enw_via=enw_via)
    e.load_rules()
    obs = observe(e)
    corr = None
    mod = model_history([enforce_new, enc_defaults(defaults), 1], [[fs.wire(), 0]])[0]
    if mod != obs:
        corr = (repr(row) + repr((new_cs, old_cs)), mod, obs)
    names = [new_name] + (['svc:new2'] if shared == 1 else []) + ([old_name] if shared in (2, 3) else [])
    spec = run_batch([[11, [enforce_new, enc_defaults(defaults), 1], fs.wire(), [S(n) for n in names]]])[0]
    for n, sp in zip(names, spec):
        want_s = unS(sp[0]) if sp else None
        got_s = dict(obs['rules']).get(n)
        if want_s != got_s:
            viols.append(('table-spec', 'row %r strings %r: %s is %r, extracted spec says %r'
                          % (row, (new_cs, old_cs), n, got_s, want_s),
                          {'kind': 'failing-input', 'suite': 'spec-c11',
                           'input': {'row': list(row), 'new': new_cs, 'old': old_cs}, 'expected': want_s,
                           'observed': got_s}))
    # the statement read directly, on decisions over all role subsets
    gov = statement(renamed, same_str, enforce_new, new_ovr and True, old_ovr, new_cs, old_cs, ovr_old_value)
    ref_rules = {'helper': 'role:r1', new_name + ':forced': 'role:r2'}
    if isinstance(gov, tuple):
        ref_rules['x'] = '(%s) or (%s)' % (gov[1] or '@', gov[2] or '@')
    else:
        ref_rules['x'] = gov
    pe = plain_enforcer()
    pe.set_rules(policy.Rules.from_dict(ref_rules), use_conf=False)
    decs = []
    for m in range(2 ** len(ROLES)):
        if tier == 'quick' and m % 5:
            continue
        roles = [r for i, r in enumerate(ROLES) if (m >> i) & 1]
        try:
            got = bool(e.enforce(new_name, {}, {'roles': roles}))
        except Exception as ex:   # noqa
            got = 'EXC ' + type(ex).__name__
        want = bool(pe.enforce('x', {}, {'roles': roles}))
        decs.append(got)
        if got != want:
            viols.append(('table-decision', 'row %r strings %r roles %r: decision %r, documented %r (governed by %r)'
                          % (row, (new_cs, old_cs), roles, got, want, gov),
                          {'kind': 'failing-input', 'suite': 'spec-c11',
                           'input': {'row': list(row), 'new': new_cs, 'old': old_cs, 'roles': roles},
                           'expected': want, 'observed': got}))
            break
    key = (repr(row) + new_cs + '|' + old_cs) if len(set(decs)) > 1 else None
    # the table is applied afresh on every load: take the old-name override out of the directory file again
    if where in ('dir', 'dironly') and renamed and old_ovr != 'absent':
        files2 = {k: v for k, v in files.items() if k != old_name}
        fs.write('policy.d', 'ovr.yaml', files2, 'yaml')
        fs.sync()
        e.load_rules()
        obs2 = observe(e)
        spec2 = run_batch([[11, [enforce_new, enc_defaults(defaults), 1], fs.wire(), [S(n) for n in names]]])[0]
        for n, sp in zip(names, spec2):
            want_s = unS(sp[0]) if sp else None
            got_s = dict(obs2['rules']).get(n)
            if want_s != got_s:
                viols.append(('table-spec:after-removal', 'row %r strings %r, after the old-name override was removed from '
                              'the directory file: %s is %r, extracted spec says %r' % (row, (new_cs, old_cs), n, got_s, want_s),
                              {'kind': 'failing-input', 'suite': 'spec-c11',
                               'input': {'row': list(row), 'new': new_cs, 'old': old_cs}, 'expected': want_s,
                               'observed': got_s}))
    # ... and for an override in the policy file itself: the file is emptied (every spelling of "no rules") or deleted
    if where == 'main' and renamed and old_ovr != 'absent':
        how = (len(new_cs) + len(old_cs) + len(old_ovr) + int(enforce_new) + shared) % 4
        if how == 3:
            fs.delete_main()
        else:
            fs.write_main({}, 'yaml' if how == 0 else 'json')       # yaml: zero bytes; json: "{}"
        fs.sync()
        if how == 2:
            with open(os.path.join(root, 'policy.yaml'), 'w') as f:
                f.write('# nothing but a comment\n')
            os.utime(os.path.join(root, 'policy.yaml'), (fs.main[0] / 4.0, fs.main[0] / 4.0))
        e.load_rules()
        obs3 = observe(e)
        spec3 = run_batch([[11, [enforce_new, enc_defaults(defaults), 1], fs.wire(), [S(n) for n in names]]])[0]
        for n, sp in zip(names, spec3):
            want_s = unS(sp[0]) if sp else None
            got_s = dict(obs3['rules']).get(n)
            if want_s != got_s:
                viols.append(('table-spec:after-emptying', 'row %r strings %r, after the policy file was %s: %s is %r, '
                              'extracted spec says %r' % (row, (new_cs, old_cs), ['emptied', 'reduced to {}',
                                                                                  'reduced to a comment', 'deleted'][how],
                                                          n, got_s, want_s),
                              {'kind': 'failing-input', 'suite': 'spec-c11',
                               'input': {'row': list(row), 'new': new_cs, 'old': old_cs, 'emptied': how},
                               'expected': want_s, 'observed': got_s}))
    e._verif_restore()
    return viols, corr, key


def _worker(args):
    idx, jobs, tier = args
    import common
    common.setup_impl()
    common.WORK = os.path.join(common.VERIF, '_work', 'c11_%d_%d' % (os.getppid(), idx))
    root = fresh_root('c11_%d' % idx)
    out = [do_job(root, row, n, o, tier) for row, n, o in jobs]
    shutil.rmtree(common.WORK, ignore_errors=True)
    return out


def all_rows():
    rows = []
    for renamed, same_str, enforce_new, new_ovr, old_ovr, where, shared in itertools.product(
            [True, False], [True, False], [True, False], [False, True], ['absent', 'arbitrary', 'alias', 'prefixref', 'deny', 'alias-list', 'alias-paren', 'allow-empty'],
            ['main', 'dir', 'both', 'dironly'], [0, 1, 2, 3]):
        if not renamed and old_ovr != 'absent':
            continue        # same-name deprecation: an "old name" override IS a new-name override
        if shared in (2, 3) and not (renamed and old_ovr == 'absent'):
            continue        # 2: the old name is itself a registered policy with a same-name deprecation, registered first
        rows.append((renamed, same_str, enforce_new, new_ovr, old_ovr, where, shared))
    return rows


def run(run, binfo):
    tier, rng = run.tier, run.rng
    pairs = list(PAIRS)
    if tier == 'thorough':
        leaves = ['role:r0', 'role:r1', 'role:r2', '@', '!']
        for _ in range(60):
            pairs.append((render_expr(rng, leaves, rng.randint(1, 5)), render_expr(rng, leaves, rng.randint(1, 5))))
    rows = all_rows()
    jobs = [(row, n, o) for row in rows for n, o in pairs]
    import multiprocessing as mp
    nproc = 14
    chunks = [(i, jobs[i::nproc], tier) for i in range(nproc)]
    with mp.get_context('fork').Pool(nproc) as pool:
        parts = pool.map(_worker, chunks)
    bad_corr = []
    for part in parts:
        for viols, corr, key in part:
            run.evaluations += 1
            for v in viols:
                run.violation(*v)
            if corr:
                bad_corr.append(corr)
            if key:
                run.nontrivial.add(key)
    run.count('rows', len(jobs))
    run.sample({'row': list(rows[5]), 'pair': PAIRS[1]})
    run.extra['correspondence_disagreements'] = len(bad_corr)
    if bad_corr and not run.violations:
        c, m, o = bad_corr[0]
        run.violation('correspondence:S5', 'model and implementation disagree on a deprecated-default load',
                      {'kind': 'broken-obligation', 'obligation': 'correspondence suite S5 (deprecated defaults)',
                       'input': c, 'model': m, 'observed': o, 'count': len(bad_corr)})
    run.rule = ('the whole configuration product (renamed/same-name x same/different check strings x enforce_new_defaults x '
                'new-name override x old-name override absent/arbitrary/alias/reference to a rule whose name extends the new '
                'name x override in main file, policy directory, both layered or a directory with no policy file (there also after the old-name override is removed again) x predecessor shared with a second policy / '
                'itself a registered same-name-deprecated policy: %d configurations) x %d check-string pairs; effective '
                'check vs the extracted documented table (spec_rule), decisions over role subsets vs the statement read '
                'directly, model vs implementation. non-trivial = rows whose decision is not constant' % (len(rows), len(pairs)))
    run.exhaustive = True


def replay(run, rep):
    inp = rep.get('input') or {}
    if 'row' in inp:
        root = fresh_root('c11replay')
        viols, corr, _ = do_job(root, tuple(inp['row']), inp['new'], inp['old'], 'thorough')
        shutil.rmtree(root, ignore_errors=True)
        print('violations on this input:', [v[1] for v in viols])
        return not viols

    print('replay for C11 re-runs the quick check; input was', rep.get('input'))
    return False
