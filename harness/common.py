"""Shared harness code: wire encoding, driver batches, build status, evidence, violations."""
import hashlib
import json
import os
import random
import re
import shutil
import subprocess
import sys
import time

VERIF = os.path.dirname(os.path.dirname(os.path.abspath(__file__)))
REPO = os.environ.get('VERIF_REPO', '/repo')
COQ = os.path.join(VERIF, 'coq')
DRIVER = os.path.join(VERIF, 'ocaml', 'driver')
WORK = os.path.join(VERIF, '_work', str(os.getpid()))

TRUSTED_BASE = [
    'Coq 8.16.1 kernel (coqc, full .vo build); vm_compute used for finite table facts; no native_compute',
    'axioms: none (Print Assumptions under every property theorem must say "Closed under the global context")',
    'translator gen/*.py (Python ast -> coq/Gen/*.v): reducer table, keywords, except-clause classes, printer formats, decision trees, option defaults, Unicode tables from the running interpreter',
    'extraction: ExtrOcamlBasic only (bool, option, unit, list, prod, sumbool, sumor mapped; andb/orb inlined); no Extract Constant; OCaml 4.13.1; ocaml/driver.ml (S-expression reader/printer)',
    'correspondence harness harness/*.py: generators, canonicalisation (exception -> class, truthiness -> bool), stubs',
    'modelled, not verified: all of oslo.policy (theorems are about the Coq model tied to the code by the translator and the differential check)',
]


def work_dir():
    os.makedirs(WORK, exist_ok=True)
    return WORK


def cleanup():
    shutil.rmtree(WORK, ignore_errors=True)


# ------------------------------------------------------------------ wire encoding
def S(text):
    """a Python str as a wire list of code points"""
    return [ord(c) for c in text]


def unS(lst):
    return ''.join(chr(c) for c in lst)


def enc(x):
    if isinstance(x, bool):
        return '1' if x else '0'
    if isinstance(x, int):
        return str(x)
    if isinstance(x, (list, tuple)):
        return '(' + ' '.join(enc(y) for y in x) + ')'
    raise TypeError('cannot encode %r' % (x,))


def dec(line):
    """parse one S-expression line into nested lists of ints"""
    toks = re.findall(r'\(|\)|-?\d+', line)
    pos = [0]

    def item():
        t = toks[pos[0]]
        pos[0] += 1
        if t == '(':
            out = []
            while toks[pos[0]] != ')':
                out.append(item())
            pos[0] += 1
            return out
        return int(t)
    return item()


class Opaque:
    """stands for an opaque Python object inside a target"""
    def __init__(self, tag):
        self.tag = tag


def enc_jv(v):
    """JSON-like Python value -> wire jv"""
    if v is None:
        return [0]
    if isinstance(v, bool):
        return [1, 1 if v else 0]
    if isinstance(v, int):
        return [2, v]
    if isinstance(v, float):
        return [3, S(repr(v))]
    if isinstance(v, str):
        return [4, S(v)]
    if isinstance(v, (list, tuple)):
        return [5, [enc_jv(x) for x in v]]
    if isinstance(v, dict):
        return [6, [[S(k), enc_jv(x)] for k, x in v.items()]]
    if isinstance(v, Opaque):
        return [7, v.tag]
    raise TypeError('not a JSON-like value: %r' % (v,))


def run_batch(reqs, chunk=20000):
    """send requests (already python nested lists) to the driver; returns decoded answers"""
    if not os.path.exists(DRIVER):
        raise RuntimeError('model driver not built')
    out = []
    wd = work_dir()
    for i in range(0, len(reqs), chunk):
        part = reqs[i:i + chunk]
        fin = os.path.join(wd, 'req_%d.txt' % i)
        with open(fin, 'w') as f:
            for r in part:
                f.write(enc(r))
                f.write('\n')
        with open(fin) as f:
            p = subprocess.run([DRIVER], stdin=f, stdout=subprocess.PIPE, check=True)
        lines = p.stdout.decode().splitlines()
        if len(lines) != len(part):
            raise RuntimeError('driver returned %d answers for %d requests' % (len(lines), len(part)))
        out.extend(dec(l) for l in lines)
        os.remove(fin)
    return out


EXN_CODE = {'KeyError': 1, 'TypeError': 2, 'ValueError': 3, 'SyntaxError': 4, 'AttributeError': 5,
            'IndexError': 6, 'RuntimeError': 7, 'RecursionError': 8, 'MemoryError': 9,
            'PolicyNotAuthorized': 10, 'InvalidScope': 11, 'InvalidContextObject': 12,
            'PolicyNotRegistered': 13, 'InvalidDefinitionError': 14}
EXN_NAME = {v: k for k, v in EXN_CODE.items()}


def exn_name(code):
    if code in EXN_NAME:
        return EXN_NAME[code]
    if 100 <= code < 1000:
        return 'Custom%d' % (code - 100)
    return 'Other%d' % (code - 1000)


# ------------------------------------------------------------------ implementation side
def quiet():
    import logging
    import warnings
    logging.disable(logging.CRITICAL)
    warnings.simplefilter('ignore')


def setup_impl():
    """import the implementation from REPO's working tree"""
    if sys.path[0] != REPO:
        sys.path.insert(0, REPO)
    quiet()
    import oslo_policy
    got = os.path.dirname(os.path.dirname(os.path.abspath(oslo_policy.__file__)))
    if os.path.realpath(got) != os.path.realpath(REPO):
        raise RuntimeError('oslo_policy imported from %s, not %s' % (got, REPO))
    from oslo_policy import _checks
    _checks.get_extensions()   # prime the stevedore lookup once


CLS_CODE = {'RuleCheck': 0, 'RoleCheck': 1, 'GenericCheck': 2, 'HttpCheck': 3, 'HttpsCheck': 4}


def tree_of(check, custom=None):
    """implementation check object -> the structure Model.Wire.sx_of_check produces"""
    from oslo_policy import _checks
    t = type(check)
    if t is _checks.TrueCheck:
        return [0]
    if t is _checks.FalseCheck:
        return [1]
    if t is _checks.NotCheck:
        return [3, tree_of(check.rule, custom)]
    if t is _checks.AndCheck:
        return [4, [tree_of(r, custom) for r in check.rules]]
    if t is _checks.OrCheck:
        return [5, [tree_of(r, custom) for r in check.rules]]
    if isinstance(check, _checks.Check):
        name = t.__name__
        def txt(x):     # kind / match are text in the unchanged code; anything else is shown, not crashed on
            return x if isinstance(x, str) else '<%s %r>' % (type(x).__name__, x)
        if name in CLS_CODE:
            return [2, CLS_CODE[name], S(txt(check.kind)), S(txt(check.match))]
        if custom and name in custom:
            return [2, 10 + custom[name], S(txt(check.kind)), S(txt(check.match))]
    return ['?', repr(check)]


# ------------------------------------------------------------------ build / obligations
def build(prop):
    """regenerate Gen, rebuild; returns dict(status)"""
    t0 = time.time()
    p = subprocess.run([os.path.join(VERIF, 'build.sh')], stdout=subprocess.PIPE,
                       stderr=subprocess.STDOUT)
    failed = []
    fpath = os.path.join(COQ, '.failed')
    if os.path.exists(fpath):
        failed = [l.strip() for l in open(fpath) if l.strip()]
    status = {}
    spath = os.path.join(COQ, 'Gen', 'STATUS.json')
    if os.path.exists(spath):
        status = json.load(open(spath))
    refusals = {k: v['refusal'] for k, v in status.items() if not v.get('ok')}
    log = ''
    lpath = os.path.join(COQ, '.build.log')
    if os.path.exists(lpath):
        log = open(lpath, errors='replace').read()
    return {'rc': p.returncode, 'failed': failed, 'refusals': refusals, 'log': log,
            'wall_s': time.time() - t0, 'driver': os.path.exists(DRIVER)}


def property_obligations(prop):
    """compile Properties/<prop>.v on its own; returns (obligations, discharged, details)"""
    v = os.path.join(COQ, 'Properties', prop + '.v')
    if not os.path.exists(v):
        return 0, 0, {'error': 'no property file'}
    text = open(v).read()
    names = re.findall(r'^\s*(?:Theorem|Lemma|Corollary|Example)\s+([A-Za-z0-9_\']+)', text, re.M)
    p = subprocess.run(['timeout', '600', 'coqc', '-Q', COQ, 'OP', '-w',
                        '-notation-overridden,-deprecated-hint-without-locality', v],
                       stdout=subprocess.PIPE, stderr=subprocess.STDOUT, cwd=COQ)
    out = p.stdout.decode(errors='replace')
    details = {'theorems': names, 'coqc_rc': p.returncode}
    if p.returncode != 0:
        details['coqc_output'] = out[-3000:]
        return len(names), 0, details
    closed = out.count('Closed under the global context')
    axioms = re.findall(r'Axioms:\s*(.*?)(?=\n\S|\Z)', out, re.S)
    details['assumptions_closed'] = closed
    details['axioms'] = [a.strip() for a in axioms]
    ok = (not axioms) and closed >= 1
    prints = len(re.findall(r'^\s*Print Assumptions', text, re.M))
    details['print_assumptions'] = prints
    if prints < len([n for n in names if not n.startswith('ex_')]) and prints == 0:
        ok = False
    return len(names), (len(names) if ok else 0), details


def grep_gate():
    """no Admitted/admit/Axiom/Parameter/... anywhere in the development"""
    bad = []
    pat = re.compile(r'\b(Admitted|admit|Axiom|Axioms|Parameter|Parameters|Conjecture|'
                     r'Admit Obligations|Unset Guard Checking|Unset Positivity Checking|'
                     r'Unset Universe Checking|bypass_check|type-in-type|impredicative-set)\b')
    for root, _, files in os.walk(COQ):
        for f in files:
            if f.endswith('.v'):
                path = os.path.join(root, f)
                txt = open(path, errors='replace').read()
                # strip comments (non-nested approximation is enough for a gate)
                txt2 = re.sub(r'\(\*.*?\*\)', '', txt, flags=re.S)
                for m in pat.finditer(txt2):
                    bad.append('%s: %s' % (os.path.relpath(path, COQ), m.group(0)))
    return bad


def corr_kind(m):
    """A model/implementation disagreement whose compared observable is the decision itself (returned truth value
    or exception class) is a concrete failing input: the model's value is the one the theorems prove to be the
    documented one.  Disagreements on internal state remain broken obligations."""
    if isinstance(m, (tuple, list)) and len(m) and m[0] in ('ret', 'exc'):
        return 'failing-input'
    return 'broken-obligation'


# ------------------------------------------------------------------ results
def repo_state():
    try:
        head = subprocess.run(['git', '-C', REPO, 'rev-parse', 'HEAD'], stdout=subprocess.PIPE
                              ).stdout.decode().strip()
        diff = subprocess.run(['git', '-C', REPO, 'diff', 'HEAD'], stdout=subprocess.PIPE).stdout
        return {'head': head, 'diff_sha1': hashlib.sha1(diff).hexdigest() if diff else None}
    except Exception:
        return {}


def load_known():
    p = os.path.join(VERIF, 'known_findings.json')
    if not os.path.exists(p):
        return {'findings': [], 'fixed': []}
    return json.load(open(p))


class Run:
    """one check run: collects counts, samples, violations; writes evidence and replays"""

    def __init__(self, prop, tier, seed):
        self.prop, self.tier, self.seed = prop, tier, seed
        self.rng = random.Random(seed)
        self.t0 = time.time()
        self.evaluations = 0
        self.nontrivial = set()
        self.samples = []
        self.hist = {}
        self.violations = []      # (key, description, replay payload)
        self.known_seen = []
        self.notes = []
        self.rule = ''
        self.exhaustive = False
        self.extra = {}
        self.known = [k for k in load_known().get('findings', []) if k['property'] == prop]

    def count(self, name, n=1):
        self.hist[name] = self.hist.get(name, 0) + n

    def sample(self, x, limit=6):
        if len(self.samples) < limit:
            self.samples.append(x)

    def violation(self, key, description, payload):
        """key identifies the failing input class; known findings are matched on it"""
        for k in self.known:
            if k['key'] == key or (k.get('key_prefix') and key.startswith(k['key_prefix'])):
                if key not in [x[0] for x in self.known_seen]:
                    self.known_seen.append((key, k['description']))
                return False
        if len(self.violations) < int(os.environ.get('VERIF_MAX_VIOLATIONS', '5')) and key not in [v[0] for v in self.violations]:
            self.violations.append((key, description, payload))
        else:
            self.count('violations_not_recorded')
        return True

    def finish(self, obligations, discharged, details, build_info, level='proof'):
        wall = time.time() - self.t0
        os.makedirs(os.path.join(VERIF, 'evidence'), exist_ok=True)
        for key, desc in self.known_seen:
            print('KNOWN-FINDING: property=%s %s' % (self.prop, desc))
        rc = 0
        rdir = os.path.join(VERIF, 'replays', self.prop)
        if os.path.isdir(rdir):
            for fn in os.listdir(rdir):
                if fn.startswith('%s_%d_' % (self.tier, self.seed)):
                    os.remove(os.path.join(rdir, fn))
        # a broken obligation is reported on its own (no-failing-input-found) only when the search found no
        # concrete failing input; otherwise it is recorded inside the replay of the failing input
        concrete = [v for v in self.violations if v[2].get('kind') != 'broken-obligation']
        broken = [v for v in self.violations if v[2].get('kind') == 'broken-obligation']
        if concrete and broken:
            for v in concrete:
                v[2]['also_broken_obligations'] = [{'key': b[0], 'description': b[1]} for b in broken]
            self.violations = concrete
        for i, (key, desc, payload) in enumerate(self.violations):
            os.makedirs(rdir, exist_ok=True)
            path = os.path.join(rdir, '%s_%d_%d.json' % (self.tier, self.seed, i))
            rep = {'property': self.prop, 'key': key, 'description': desc, 'seed': self.seed,
                   'tier': self.tier, 'repo_state': repo_state()}
            rep.update(payload)
            with open(path, 'w') as f:
                json.dump(rep, f, indent=1, default=repr)
            tail = ' no-failing-input-found' if payload.get('kind') == 'broken-obligation' else ''
            print('VIOLATION property=%s replay=%s%s' % (self.prop, path, tail))
            rc = 1
        cov = {
            'obligations': obligations, 'discharged': discharged,
            'checker_cmd': 'coqc -Q coq OP coq/Properties/%s.v (after ./build.sh: coq_makefile + make, full .vo)' % self.prop,
            'trusted_base': TRUSTED_BASE,
            'evaluations': self.evaluations, 'distinct_nontrivial': len(self.nontrivial),
            'rule': self.rule, 'samples': self.samples[:8], 'exhaustive': self.exhaustive,
            'input_histogram': self.hist, 'theorem_details': details,
            'known_findings_seen': [k for k, _ in self.known_seen],
            'translator_refusals': build_info.get('refusals', {}),
            'build_failed_files': build_info.get('failed', []),
            'notes': self.notes,
        }
        cov.update(self.extra)
        ev = {'property_id': self.prop, 'tier': self.tier, 'seed': self.seed, 'level': level,
              'coverage': cov, 'wall_s': round(wall, 2), 'violations': len(self.violations),
              'assumptions': TRUSTED_BASE}
        with open(os.path.join(VERIF, 'evidence', self.prop + '.json'), 'w') as f:
            json.dump(ev, f, indent=1, default=repr)
        return rc
