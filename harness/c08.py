"""C08: scope types gate a policy independently of its check string (a finite table)."""
import itertools

from common import corr_kind
from world import base_case, run_cases, describe, out_of_model, agree, convert_creds

GEN = ['GPolicy.v', 'GChecks.v', 'GParser.v']

SCOPES = ['system', 'domain', 'project']


def type_lists():
    out = [None, []]
    for n in (1, 2, 3):
        out += [list(p) for p in itertools.permutations(SCOPES, n)]
    return out


def expected(c, creds_dict):
    """the statement, read directly"""
    types = c['registered'].get('pol') if c['rule'][0] == 'name' else c['rule'][2]
    sys_ = creds_dict.get('system') or creds_dict.get('system_scope')
    token = 'system' if sys_ else ('domain' if creds_dict.get('domain_id') else 'project')
    allow = c['_allow']
    if types and c['enforce_scope'] and token not in types:
        return ('exc', 'InvalidScope') if c['do_raise'] else ('ret', False)
    if allow:
        return ('ret', True)
    return ('exc', 'PolicyNotAuthorized') if c['do_raise'] else ('ret', False)


def run(run, binfo):
    tier, rng = run.tier, run.rng
    cases = []
    for types in type_lists():
        for has_sys, has_dom, has_proj in itertools.product([False, True], repeat=3):
            for spelling in ('system', 'system_scope'):
                for es in (False, True):
                    for dr in (False, True):
                        for allow in (False, True):
                            for overridden in (False, True):
                                for by in ('name', 'obj'):
                                    for rep in ('dict', 'context', 'policy_values', 'dict+file'):
                                        from_file = rep == 'dict+file'
                                        if from_file:
                                            if not overridden or by != 'name':
                                                continue   # the override sits in a real policy file, loaded
                                            rep = 'dict'
                                        if rep == 'context' and spelling == 'system':
                                            continue   # a context only has system_scope
                                        if rep == 'policy_values' and spelling == 'system':
                                            if not has_sys:
                                                continue
                                            rep = 'policy_values+system'   # the service adds the legacy key itself
                                        creds = {'roles': ['member']}
                                        if has_sys and rep != 'policy_values+system':
                                            creds[spelling] = 'all'
                                        if has_dom:
                                            creds['domain_id'] = 'd1'
                                        if has_proj:
                                            creds['project_id'] = 'p1'
                                        # default check string decides the opposite of the override
                                        eff = 'role:member' if allow else 'role:nobody'
                                        if (by != 'name' and len(cases) % 2) or (by == 'name' and len(cases) % 4 == 1):
                                            # a constant check, as the parser hands it out (also as the effective check of
                                            # a registered name: the scope gate comes first whatever the check is)
                                            eff = '@' if allow else '!'
                                        reg_check = ('role:nobody' if allow else 'role:member') if overridden else eff
                                        if by == 'name':
                                            rule = ('name', 'pol')
                                            registered = {'pol': types}
                                        else:
                                            rule = ('obj', eff, types)
                                            registered = {}
                                        c = base_case(rules={'pol': eff, 'other': '@'}, rule=rule, creds=creds,
                                                      registered=registered, enforce_scope=es, do_raise=dr)
                                        c['_allow'] = allow
                                        c['_reg_check'] = reg_check
                                        if registered:
                                            c['registered_check'] = {'pol': reg_check}
                                        if from_file:
                                            c['from_file'] = True
                                        if len(cases) % 3 == 0:
                                            # the option is read when the decision is taken, not when the enforcer is built
                                            c['enforce_scope_at_init'] = not es
                                        if rep != 'dict':
                                            c['creds_as'] = rep
                                        cases.append(c)
    if tier == 'thorough':
        # foreign scope-type strings and duplicates-free longer lists
        for extra in (['global'], ['System'], ['project', 'global'], ['', 'domain']):
            for has_sys, has_dom in itertools.product([False, True], repeat=2):
                for es in (False, True):
                    for dr in (False, True):
                        for allow in (False, True):
                            creds = {'roles': ['member']}
                            if has_sys:
                                creds['system_scope'] = 'all'
                            if has_dom:
                                creds['domain_id'] = 'd'
                            c = base_case(rules={'pol': 'role:member' if allow else '!'}, rule=('name', 'pol'),
                                          creds=creds, registered={'pol': extra}, enforce_scope=es, do_raise=dr)
                            c['_allow'] = allow
                            cases.append(c)
    run.count('rows', len(cases))
    # the model is given the plain-dict equivalent of whatever representation the implementation gets
    model_cases = []
    for c in cases:
        m = dict(c)
        if c.get('creds_as') in ('context', 'policy_values', 'policy_values+system'):
            pv = convert_creds('policy_values', c['creds'])
            m['creds'] = {k: pv[k] for k in pv}
            if c['creds_as'] == 'policy_values+system':
                m['creds']['system'] = 'all'
            m.pop('creds_as')
        m.pop('from_file', None)
        m.pop('enforce_scope_at_init', None)
        model_cases.append(m)
    from common import run_batch
    from world import enc_case, dec_answer, run_impl_many
    answers = run_batch([enc_case(m) for m in model_cases])
    impl = run_impl_many(cases)
    bad_corr = []
    for c, m, a, (ires, itr) in zip(cases, model_cases, answers, impl):
        run.evaluations += 1
        mres, _ = dec_answer(a)
        if not agree(mres, ires):
            bad_corr.append((c, mres, ires))
        want = expected(c, m['creds'])
        if tuple(ires[:2]) != want:
            run.violation('scope-table', 'row %r: observed %r, documented %r' % (describe(c), ires, want),
                          {'kind': 'failing-input', 'suite': 'spec-c08', 'input': describe(c),
                           'expected': want, 'observed': ires})
        run.nontrivial.add((repr(c['rule']), repr(sorted(c['creds'].items())), c['enforce_scope'], c['do_raise'],
                            c['_allow'], c.get('creds_as'), repr(c['registered'])))
    run.sample(describe(cases[100]))
    run.sample(describe(cases[len(cases) // 2]))
    run.extra['correspondence_disagreements'] = len(bad_corr)
    if bad_corr and not run.violations:
        c, m, i = next((x for x in bad_corr if corr_kind(x[1]) == 'failing-input'), bad_corr[0])
        run.violation('correspondence:S4', 'model and implementation disagree on a scope row',
                      {'kind': corr_kind(m), 'oracle': 'the Coq model, for which the property is proved', 'obligation': 'correspondence suite S4 (scope table)',
                       'input': describe(c), 'model': m, 'observed': i, 'count': len(bad_corr)})
    run.rule = ('the complete table of the quantifier: every ordered non-empty subset of {system, domain, project} and none as '
                'scope types x 8 combinations of system scope / domain id / project id x both spellings (system, system_scope) '
                'x enforce_scope x do_raise x allow/deny x rule overriding the registered default or not x by name or check '
                'object x credentials as dict / RequestContext / policy values (also with the legacy system key set on the mapping) x override given by set_rules or in a loaded policy file (%d rows; thorough adds foreign scope strings). '
                'Each row against the statement read directly and against the model. every row distinct' % len(cases))
    run.exhaustive = True


def replay(run, rep):
    from world import run_impl
    c = rep['input']
    c['default'] = tuple(c['default'])
    c['rule'] = tuple(c['rule'])
    ires, _ = run_impl(c)
    print('observed', ires, 'expected', rep.get('expected'))
    return list(ires[:2]) == list(rep.get('expected'))
