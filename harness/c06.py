"""C06: rule:NAME is a transparent alias for NAME's current definition."""
import re

from common import corr_kind
from world import base_case, run_cases, describe, out_of_model, agree, run_impl_many
from c01 import rand_oexp
from c02 import sentence_tokens

GEN = ['GChecks.v', 'GPolicy.v', 'GParser.v']

ROLES = ['r0', 'r1', 'r2']
ROLESETS = [[r for i, r in enumerate(ROLES) if (m >> i) & 1] for m in range(8)]
UNDEF = ['u1', 'u2']


def render_expr(rng, leaves, size):
    o = rand_oexp(rng, size, len(leaves))
    toks = sentence_tokens(o, ['%d' % i for i in range(len(leaves))])
    out = []
    for t in toks:
        if t.startswith('role:'):
            out.append(leaves[int(t[5:])])
        else:
            out.append(t)
    return ' '.join(out)


def gen_ruleset(rng, nnames, customs=True):
    names = ['default'] + ['n%d' % i for i in range(1, nnames)]
    rules = {}
    for i, n in enumerate(names):
        leaves = ['role:' + r for r in ROLES]
        leaves += ['rule:' + m for m in names[:i]] * 2       # references only downwards: acyclic
        if i > 0:
            leaves += ['rule:' + u for u in UNDEF]
        if customs:
            leaves += ['c4a:m', 'c3a:m', 'c4b:m', 'c3k:m', 'c3o:m']
        if i > 0 and rng.random() < 0.25:
            # alias chain link
            rules[n] = 'rule:' + names[i - 1]
        else:
            k = rng.randint(2, 5)
            rules[n] = render_expr(rng, rng.sample(leaves, min(k, len(leaves))), rng.randint(1, 7))
    return names, rules


def inline(text, name, definition):
    """replace the token rule:<name> by the parenthesised text of its definition"""
    return re.sub(r'(?<![^\s(])rule:%s(?![^\s)])' % re.escape(name), '( ' + definition + ' )', text)


def run(run, binfo):
    tier, rng = run.tier, run.rng
    nsets = 150 if tier == 'quick' else 3000
    cases, meta = [], []
    curated = [
        # a reference as a late operand of an or-chain, followed by `and`, defined by an or-expression; the operand of
        # the `and` is a role none of the other operands mention
        {'p': 'role:r0 or role:r0 or rule:b and role:r0', 'b': 'role:r1 or role:r2'},
        {'p': 'role:r0 or not role:r1 or rule:b and role:r0', 'b': 'role:r1 or role:r2'},
        {'p': 'role:r2 or role:r2 or role:r2 or rule:b and role:r2', 'b': 'role:r0 or role:r1'},
        {'p': 'role:r0 or rule:b or rule:c and role:r0', 'b': 'role:r0 or role:r0', 'c': 'role:r1 or role:r2'},
        {'p': 'role:r0 or role:r0 or rule:b and rule:c', 'b': 'role:r1 or role:r2', 'c': 'role:r0 or role:r0'},
        {'p': '(role:r0 or role:r0 or rule:b and role:r0) and @', 'b': 'role:r1 or role:r2'},
        {'p': 'role:r0 or role:r0 or rule:d and role:r0', 'd': 'rule:b', 'b': 'role:r1 or role:r2'},
        {'p': 'role:r0 and role:r0 and rule:b or role:r0', 'b': 'role:r1 and role:r2'},
        {'p': 'rule:b and rule:b or rule:b', 'b': 'role:r0 or role:r1 and role:r2'},
        {'p': 'role:r0 and rule:b and rule:c or role:r2 and rule:b', 'b': 'role:r1 and role:r2', 'c': 'not rule:b and role:r0'},
        # a reference in the middle of an or-chain, a leaf later on that is followed by `and`
        {'p': 'role:r0 or rule:b or role:r1 and role:r2', 'b': 'role:r2'},
        {'p': 'rule:b or role:r1 and role:r0 or rule:c', 'b': 'role:r2', 'c': 'role:r0 and role:r2'},
        {'p': 'role:r1 and rule:b and role:r0 or rule:b', 'b': 'role:r2 or role:r0'},
        # names with a percent sign are names (a reference is never filled in from the target)
        {'p': 'rule:cpu>=100%', 'cpu>=100%': 'role:r0', 'q': 'not rule:res_%(k)s', 'res_%(k)s': 'role:r1', 'res_x': 'role:r2'},
        {'p': 'rule:undefined_%(k)s or rule:100%', 'default': 'role:r1'},
        # diamonds several levels deep whose arms are all evaluated (no short circuit): plenty of evaluation, little depth
        dict([('l%d' % i, 'rule:l%d and rule:l%d' % (i + 1, i + 1)) for i in range(6)] + [('l6', 'role:r0'), ('p', 'rule:l0')]),
        dict([('l%d' % i, 'not rule:l%d or not rule:l%d' % (i + 1, i + 1)) for i in range(6)] + [('l6', 'role:r0'), ('p', 'rule:l0')]),
        dict([('l%d' % i, 'rule:l%d and rule:l%d and rule:l%d' % (i + 1, i + 1, i + 1)) for i in range(4)] +
             [('l4', 'role:r1'), ('p', 'rule:l0 and c3k:m and c3o:m')]),
    ]
    for s_i in range(nsets):
        if s_i < len(curated):
            rules = dict(curated[s_i])
            names = list(rules)
        else:
            names, rules = gen_ruleset(rng, rng.randint(2, 6))
        default = rng.choice([('none',), ('name', 'default'), ('name', 'nodefault'), ('check', 'role:r1'),
                              ('check', '@'), ('check', 'not role:r0'), ('check', 'role:r0 or role:r2')])
        custom = {'c4a': rng.random() < 0.5, 'c3a': rng.random() < 0.5, 'c4b': rng.random() < 0.5,
                  'c3k': rng.random() < 0.7, 'c3o': rng.random() < 0.7}
        # metamorphic partner: inline one reference in one rule
        refs = [(n, m) for n in names for m in names if ('rule:' + m) in rules[n].split() or rules[n] == 'rule:' + m]
        partner = None
        if refs and s_i < len(curated):
            r2 = dict(rules)
            for n, m in refs:
                r2[n] = inline(r2[n], m, rules[m])
            partner = r2
        elif refs:
            n, m = rng.choice(refs)
            r2 = dict(rules)
            r2[n] = inline(rules[n], m, rules[m])
            if r2[n] != rules[n]:
                partner = r2
        queried = names + UNDEF[:1]
        for q in queried:
            for roles in (ROLESETS if (tier == 'thorough' or s_i < len(curated)) else rng.sample(ROLESETS, 4)):
                base = base_case(rules=rules, default=default, rule=('name', q), creds={'roles': roles},
                                 custom=custom)
                others = [n for n in rules if n != q]
                if others and rng.random() < 0.5:
                    # "NAME's CURRENT definition": the names q refers to were defined differently when q was last
                    # evaluated, and have been redefined in place since (q's own check objects are the same ones)
                    base['prehistory'] = {n: rng.choice(['@', '!', 'role:r2', 'not role:r0', 'rule:' + UNDEF[0]])
                                          for n in rng.sample(others, rng.randint(1, len(others)))}
                elif len(cases) % 3 == 0:
                    base['carrier'] = ['rules_none', 'dict', 'rules_other'][(len(cases) // 3) % 3]
                    base['carrier_default'] = names[-1]
                cases.append(base)
                meta.append(('orig', s_i, q, tuple(roles)))
                if partner:
                    cases.append(base_case(rules=partner, default=default, rule=('name', q),
                                           creds={'roles': roles}, custom=custom))
                    meta.append(('inlined', s_i, q, tuple(roles)))
        # an undefined reference behaves like enforcing an unknown policy
        for roles in rng.sample(ROLESETS, 2):
            r3 = dict(rules)
            r3['probe'] = 'rule:' + UNDEF[1]
            cases.append(base_case(rules=r3, default=default, rule=('name', 'probe'), creds={'roles': roles},
                                   custom=custom))
            # how the rule set reaches the enforcer must not matter: a dict, or a Rules object carrying the same / another /
            # no default rule of its own
            cases[-1]['carrier'] = ['rules_none', 'rules_same', 'dict', 'rules_other', 'rules_shared'][len(cases) % 5]
            cases[-1]['carrier_default'] = names[0]
            meta.append(('probe', s_i, UNDEF[1], tuple(roles)))
            cases.append(base_case(rules=r3, default=default, rule=('name', UNDEF[1]), creds={'roles': roles},
                                   custom=custom))
            meta.append(('unknown', s_i, UNDEF[1], tuple(roles)))
    run.count('cases', len(cases))
    results = run_cases(cases)
    bad_corr = []
    by_key = {}
    for c, mt, (mres, mtr, ires, itr) in zip(cases, meta, results):
        run.evaluations += 1
        if out_of_model(mres):
            run.count('out_of_model')
        else:
            if not agree(mres, ires):
                bad_corr.append((c, mres, ires, 'result'))
            elif mtr != itr:
                bad_corr.append((c, mtr, itr, 'trace'))
        # nested checks are told the name of the policy being enforced, not the alias
        for ev in itr:
            if ev[0] == 'custom':
                want = c['rule'][1] if ev[1] >= 40 else 'NOARG'
                if ev[2] != want:
                    run.violation('current-rule', 'custom check %d was told current_rule=%r while %r is enforced'
                                  % (ev[1], ev[2], c['rule'][1]),
                                  {'kind': 'failing-input', 'suite': 'spec-c06-current-rule', 'input': describe(c),
                                   'expected': want, 'observed': ev[2]})
        by_key[mt] = ires
        if itr:
            run.count('cases_with_recorded_leaf_calls')
    # metamorphic relations
    for (kind, s_i, q, roles), ires in by_key.items():
        if kind == 'inlined':
            o = by_key.get(('orig', s_i, q, roles))
            if o is not None and tuple(o[:2]) != tuple(ires[:2]):
                c = [cc for cc, mt in zip(cases, meta) if mt == (kind, s_i, q, roles)][0]
                run.violation('inline', 'inlining a reference changed the decision of %r for roles %r: %r -> %r'
                              % (q, roles, o, ires),
                              {'kind': 'failing-input', 'suite': 'spec-c06-inline', 'input': describe(c),
                               'expected': o, 'observed': ires})
            elif o is not None:
                run.nontrivial.add((s_i, q))
        if kind == 'probe':
            o = by_key.get(('unknown', s_i, q, roles))
            if o is not None and tuple(o[:2]) != tuple(ires[:2]):
                c = [cc for cc, mt in zip(cases, meta) if mt == (kind, s_i, q, roles)][0]
                run.violation('undefined-ref', 'rule:%s decides %r but enforcing the unknown policy %s gives %r'
                              % (q, ires, q, o),
                              {'kind': 'failing-input', 'suite': 'spec-c06-undefined', 'input': describe(c),
                               'expected': o, 'observed': ires})
    run.sample(describe(cases[0]))
    run.sample(describe(cases[len(cases) // 2]))
    run.extra['correspondence_disagreements'] = len(bad_corr)
    if bad_corr and not run.violations:
        c, m, i, what = next((x for x in bad_corr if corr_kind(x[1]) == 'failing-input'), bad_corr[0])
        run.violation('correspondence:S3', 'model and implementation disagree on %s' % what,
                      {'kind': corr_kind(m), 'oracle': 'the Coq model, for which the property is proved', 'obligation': 'correspondence suite S3 (evaluation with references, %s)' % what,
                       'input': describe(c), 'model': m, 'observed': i, 'count': len(bad_corr)})
    run.rule = ('%d acyclic rule sets over 2-6 names (references only downwards; undefined references; alias chains; '
                'diamonds), bodies = random expressions over role checks, references and recording custom checks with 3- and '
                '4-argument __call__; 4 default-rule configurations; every name and an undefined name enforced under role '
                'subsets. Checked: model vs implementation (decision and the sequence of recorded leaf calls with their '
                'current_rule), decision unchanged by inlining one reference, rule:UNDEFINED == enforce(UNDEFINED), recorded '
                'current_rule == enforced name. non-trivial = distinct (rule set, name) with an inlined partner' % nsets)


def replay(run, rep):
    from world import run_impl
    c = rep['input']
    c['default'] = tuple(c['default'])
    c['rule'] = tuple(c['rule'])
    ires, itr = run_impl(c)
    print('observed', ires, itr, 'expected', rep.get('expected'))
    exp = rep.get('expected')
    if rep.get('suite') == 'spec-c06-current-rule':
        return all(ev[2] == (c['rule'][1] if ev[1] >= 40 else 'NOARG') for ev in itr if ev[0] == 'custom')
    return list(ires[:2]) == list(exp[:2])
