"""C13: validation flags every undefined or cyclic rule reference, and only those."""
import itertools
import re
import sys

from common import S, enc_jv, run_batch, unS
from world import base_case, run_impl_many, describe, EXTRA
from c06 import render_expr

GEN = ['GPolicy.v', 'GChecks.v', 'GParser.v']


def refs_of(text):
    return re.findall(r'(?<![^\s(])rule:([^\s()]*)', text)


def graph_spec(rules):
    """independent analysis: names with an undefined reference; names that can reach a cycle"""
    edges = {n: [m for m in refs_of(t)] for n, t in rules.items()}
    undefined = [n for n in rules if any(m not in rules for m in edges[n])]
    # nodes on a cycle: n reaches n through >= 1 edge (defined nodes only)
    def reach(n):
        seen, todo = set(), [m for m in edges.get(n, []) if m in rules]
        while todo:
            x = todo.pop()
            if x in seen:
                continue
            seen.add(x)
            todo += [m for m in edges[x] if m in rules]
        return seen
    reachable = {n: reach(n) for n in rules}
    on_cycle = {n for n in rules if n in reachable[n]}
    cyclic = [n for n in rules if any(m in on_cycle for m in reachable[n])]
    return undefined, cyclic


def impl_check(rules, skip_undefined=False, pre=None):
    from oslo_config import cfg
    from oslo_policy import policy
    from world import fresh_conf
    e = policy.Enforcer(fresh_conf(), policy_file='policy.yaml', use_conf=False)
    e.skip_undefined_check = skip_undefined
    if pre is not None:
        # the same enforcer validated an earlier state of the store, then some rules were redefined IN PLACE
        first = dict(rules)
        first.update(pre)
        e.set_rules(policy.Rules.from_dict(first), use_conf=False)
        e.check_rules()
        e.set_rules(policy.Rules.from_dict({n: rules[n] for n in pre}), overwrite=False, use_conf=False)
    else:
        e.set_rules(policy.Rules.from_dict(rules), use_conf=False)
    ok = e.check_rules()
    names = []
    try:
        e.check_rules(raise_on_violation=True)
    except policy.InvalidDefinitionError as ex:
        m = re.search(r'Policies (\[.*\]) are not well defined', str(ex))
        names = eval(m.group(1)) if m else ['?']
    return ok, names


SHAPES = ['role:x', '@', 'rule:{0}', 'not rule:{0}', 'rule:{0} and rule:{1}', 'role:x or rule:{0}',
          'not (role:x and not rule:{0})', '(rule:{0} or rule:{1}) and role:x', 'rule:{0} and not rule:{0}',
          'not not rule:{1}', 'rule:zz', 'role:x and not rule:zz',
          # a role check whose value is the name of a rule referenced next to it; a reference to the empty name
          'role:{0} or rule:{0}', 'role:{1} and rule:{0}', 'role:x and rule:', 'not rule:',
          # a constant that decides the expression does not hide the reference next to it
          '@ or rule:{0}', '! and rule:{0}', 'not (@ or rule:{0})', 'rule:zz and !', 'rule:{0} or @']


def run(run, binfo):
    tier, rng = run.tier, run.rng
    sets = []
    names = ['a', 'b', 'default'] if tier == 'quick' else ['a', 'b', 'default', 'd']
    # exhaustive: every assignment of a shape (instantiated with every pair of names) to each name
    bodies = []
    for sh in SHAPES:
        for x, y in itertools.product(names, repeat=2):
            b = sh.format(x, y)
            if b not in bodies:
                bodies.append(b)
    if tier == 'quick':
        pool = bodies[::2]
        for combo in itertools.product(pool, repeat=len(names)):
            sets.append(dict(zip(names, combo)))
        sets = sets[::7]
    else:
        pool = bodies[::3]
        for combo in itertools.product(pool, repeat=len(names)):
            sets.append(dict(zip(names, combo)))
        sets = sets[::11]
    nexh = len(sets)
    # random graphs over up to 6 names with generated expressions
    nrand = 1500 if tier == 'quick' else 30000
    for _ in range(nrand):
        k = rng.randint(1, 6)
        nm = ['n%d' % i for i in range(k)]
        if rng.random() < 0.3:
            nm[rng.randrange(k)] = 'default'        # a rule named like the enforcer's default rule
        rules = {}
        for n in nm:
            leaves = ['role:x', 'role:y'] + ['rule:' + rng.choice(nm) for _ in range(2)]
            if rng.random() < 0.2:
                leaves.append('rule:undefined')
            if rng.random() < 0.15:
                leaves.append('rule:')
            if rng.random() < 0.3:
                leaves.append('role:' + rng.choice(nm))
            rules[n] = render_expr(rng, leaves, rng.randint(1, 6))
            if rng.random() < 0.2:
                # tokens separated by tabs / line breaks (as a multi-line YAML value would have them)
                rules[n] = rules[n].replace(' ', rng.choice(['\t', '\n', '  \n  ', '\r\n']))
        sets.append(rules)
    # a whole body that is ONE word with parentheses glued to it (the tokenizer strips them; the reference is still there)
    for wrap in ('(%s)', '((%s))', '( %s)', '(((%s)))'):
        for nm in (['a', 'b'], ['default', 'n1']):
            x, y = nm
            sets.append({x: wrap % 'rule:zz'})
            sets.append({x: wrap % ('rule:' + x)})
            sets.append({x: wrap % ('rule:' + y), y: wrap % ('rule:' + x)})
            sets.append({x: wrap % ('rule:' + y), y: 'role:x'})
            sets.append({x: 'role:x or rule:' + y, y: wrap % 'rule:zz'})
            sets.append({x: 'not ' + wrap % ('rule:' + y), y: wrap % '@'})
    run.count('exhaustive_rule_sets', nexh)
    run.count('random_rule_sets', nrand)
    answers = run_batch([[9, EXTRA, [[S(k), enc_jv(v)] for k, v in rs.items()], 0] for rs in sets])
    bad_corr = []
    clean_cases = []
    for rs, ans in zip(sets, answers):
        run.evaluations += 1
        m_und = [unS(x) for x in ans[0]]
        m_cyc = [unS(x) for x in ans[1]]
        m_ok = bool(ans[2])
        ok, names_ = impl_check(rs)
        s_und, s_cyc = graph_spec(rs)
        if (ok, names_) != (m_ok, m_und + m_cyc):
            bad_corr.append((rs, (m_ok, m_und + m_cyc), (ok, names_)))
        if (ok, names_) != (not (s_und or s_cyc), s_und + s_cyc):
            run.violation('validation', 'check_rules on %r reports %r, graph analysis says undefined=%r cyclic=%r'
                          % (rs, (ok, names_), s_und, s_cyc),
                          {'kind': 'failing-input', 'suite': 'spec-c13', 'input': {'rules': rs},
                           'expected': [not (s_und or s_cyc), s_und + s_cyc], 'observed': [ok, names_]})
        if s_cyc or (s_und and run.evaluations % 3 == 0):
            # with the undefined-reference test switched off (skip_undefined_check) cycles are still reported, all of them
            ok2, names2 = impl_check(rs, skip_undefined=True)
            if (ok2, names2) != (not s_cyc, s_cyc):
                run.violation('validation:skip-undefined', 'check_rules with skip_undefined_check on %r reports %r, graph '
                              'analysis says cyclic=%r' % (rs, (ok2, names2), s_cyc),
                              {'kind': 'failing-input', 'suite': 'spec-c13', 'input': {'rules': rs, 'skip_undefined_check': True},
                               'expected': [not s_cyc, s_cyc], 'observed': [ok2, names2]})
        if (s_und or s_cyc) and run.evaluations % 2 == 0:
            # validation judges the store as it is NOW: the same names were harmless constants when it was last validated
            # (only SOME of the referring rules: the others are walked, and walk into them, both times)
            withrefs = sorted(n for n in rs if refs_of(rs[n]))
            pre = {n: 'role:x' for i, n in enumerate(withrefs) if (i + run.evaluations // 2) % 2 == 0}
            if len(pre) == len(withrefs) and len(withrefs) > 1:
                pre.pop(withrefs[0])
            if pre:
                ok3, names3 = impl_check(rs, pre=pre)
                if (ok3, names3) != (not (s_und or s_cyc), s_und + s_cyc):
                    run.violation('validation:after-redefinition', 'check_rules on %r (rules %r redefined in place after an '
                                  'earlier validation) reports %r, graph analysis says undefined=%r cyclic=%r'
                                  % (rs, sorted(pre), (ok3, names3), s_und, s_cyc),
                                  {'kind': 'failing-input', 'suite': 'spec-c13',
                                   'input': {'rules': rs, 'redefined_in_place': sorted(pre)},
                                   'expected': [not (s_und or s_cyc), s_und + s_cyc], 'observed': [ok3, names3]})
        if s_und or s_cyc:
            run.nontrivial.add(repr(sorted(rs.items())))
        if ok:
            run.count('clean')
            for n in rs:
                clean_cases.append(base_case(rules=rs, rule=('name', n), creds={'roles': ['x']}))
    # clean graphs: every rule evaluates (recursion watchdog: the interpreter's own limit)
    old = sys.getrecursionlimit()
    sys.setrecursionlimit(400)
    try:
        for c, (ires, itr) in zip(clean_cases, run_impl_many(clean_cases, procs=1)):
            run.evaluations += 1
            if ires[0] != 'ret':
                run.violation('clean-does-not-terminate', 'validation reported nothing, yet enforcing %r gives %r'
                              % (c['rule'][1], ires),
                              {'kind': 'failing-input', 'suite': 'spec-c13-terminates', 'input': describe(c),
                               'expected': 'a decision', 'observed': ires})
    finally:
        sys.setrecursionlimit(old)
    run.count('clean_rules_evaluated', len(clean_cases))
    nval = validator_cases(run, bad_corr)
    run.count('validator_cases', nval)
    run.sample({'rules': sets[3]})
    run.sample({'rules': sets[-1]})
    run.extra['correspondence_disagreements'] = len(bad_corr)
    if bad_corr and not run.violations:
        rs, m, i = bad_corr[0]
        run.violation('correspondence:S6', 'model and implementation disagree on check_rules',
                      {'kind': 'broken-obligation', 'obligation': 'correspondence suite S6 (check_rules)',
                       'input': {'rules': rs}, 'model': m, 'observed': i, 'count': len(bad_corr)})
    run.rule = ('%d rule sets over %r with bodies from %d shapes instantiated with every pair of names (a fixed stride of the '
                'full product) + %d random graphs over <= 6 names with generated expressions (references under and/or/not, '
                'self-loops, long cycles, diamonds, undefined names): Enforcer.check_rules (result and reported names) vs the '
                'model and vs an independent graph analysis; every rule of every clean set is enforced under a recursion limit '
                'of 400. non-trivial = distinct rule sets with a problem' % (nexh, names, len(SHAPES), nrand))


def validator_cases(run, bad_corr):
    """oslopolicy-validator: return code vs the model and vs the statement"""
    import logging
    import os
    import shutil
    from unittest import mock
    from oslo_config import cfg
    from oslo_policy import generator, policy, opts
    from loadsim import FsSim, enc_defaults, fresh_root
    root = fresh_root('c13val')
    logging.getLogger('oslo_policy').addHandler(logging.NullHandler())
    regsets = [[('a', 'role:x', None, None), ('b', '!', None, None), ('c', 'rule:a', None, None)]]
    values = ['role:x', '!', '@', 'rule:a', 'rule:nope', 'not rule:nope', 'rule:b and rule:c', '(role:admin))',
              'role:admin or', 'and', None, '', "'q'", 'not', 'rule:self',
              # values YAML reads as something other than a string: not rules, whatever their truth value
              False, True, 0, 0.0, 5, {}, {'k': 'v'}, [1], [[None]]]
    n = 0
    import itertools
    files = [None, {}]
    for va, vb in itertools.product(values[:15], values[:9]):
        files.append({'a': va, 'b': vb})
    for v in values:
        files.append({'b': v})
        files.append({'unknown': v, 'a': 'role:x'})
        files.append({'a': 'rule:b', 'b': 'rule:a' if v == '!' else v})
    # an unregistered name stays unknown when another rule refers to it
    files += [{'a': 'rule:helper', 'helper': 'role:x'}, {'a': 'role:x', 'b': 'not rule:helper', 'helper': '@'},
              {'helper': 'rule:helper2', 'helper2': 'role:x', 'a': 'rule:helper'}]
    files.append({'self': 'rule:self', 'a': '@'})
    # the deployment also has a policy directory: what its files define is validated like the policy file
    # (a pair = (policy file, directory file))
    for i, dv in enumerate([{'unknown': 'role:x'}, {'b': 'role:y'}, {'c': 'rule:nope'}, {'helper': '@', 'a': 'rule:helper'},
                            {'c': 'not rule:c'}, {'a': 'role:y', 'zz_other': 'role:x'}, {'b': 'rule:c', 'c': 'rule:b'}, {}]):
        files.append(({'a': 'role:x'}, dv, 'yaml' if i % 2 else 'json'))
        files.append(({}, dv, 'json' if i % 2 else 'yaml'))
    for regs in regsets:
        for f in files:
            shutil.rmtree(root, ignore_errors=True)
            os.makedirs(root)
            dirfile = None
            if isinstance(f, tuple):
                f, dirfile, dfmt = f
            fs = FsSim(root, dirs=['policy.d'] if dirfile is not None else [])
            if f is not None:
                fs.write_main(f, 'yaml')
            if dirfile is not None:
                fs.write('policy.d', 'extra.' + dfmt, dirfile, dfmt)
            fs.sync()
            conf = cfg.CONF
            conf.reset()
            opts._register(conf)
            conf(['--config-dir', root], project='verif')
            conf.set_override('policy_file', os.path.join(root, 'policy.yaml'), group='oslo_policy')
            conf.set_override('policy_dirs', [os.path.join(root, 'policy.d')] if dirfile is not None else [],
                              group='oslo_policy')
            e = policy.Enforcer(conf)
            from loadsim import mk_default
            for d in regs:
                e.register_default(mk_default(d))
            import io
            import contextlib
            try:
                with mock.patch.object(generator, '_get_enforcer', return_value=e), \
                        contextlib.redirect_stdout(io.StringIO()):
                    rc = generator._validate_policy('ns')
            except Exception as ex:   # noqa
                rc = 'EXC ' + type(ex).__name__
            finally:
                logging.disable(logging.CRITICAL)
                conf.clear_override('policy_file', group='oslo_policy')
                conf.clear_override('policy_dirs', group='oslo_policy')
            n += 1
            run.evaluations += 1
            from common import run_batch
            m = run_batch([[18, [1, enc_defaults(regs), 1], fs.wire()]])[0]
            if m != rc:
                bad_corr.append(({'validator_file': f, 'directory_file': dirfile}, m, rc))
            # the statement, read directly
            regnames = {d[0] for d in regs}
            if f is None:
                want = 1
            else:
                rules = dict((d[0], d[1]) for d in regs)
                rules.update({k: v for k, v in f.items()})
                if dirfile is not None:
                    rules.update(dirfile)
                    f = dict(f, **dirfile)
                und, cyc = graph_spec({k: (v if isinstance(v, str) else '!') for k, v in rules.items()})
                bad = bool(und or cyc) or any(k not in regnames for k in f)
                for k, v in f.items():
                    parsed = str(policy._parser.parse_rule(v)) if isinstance(v, (str, list)) else '!'
                    if parsed == '!' and v not in ('!', None):
                        bad = True
                want = 1 if bad else 0
            if rc != want:
                run.violation('validator', 'oslopolicy-validator returns %r for file %r%s, documented %r'
                              % (rc, f, '' if dirfile is None else ' (of which the policy directory file defines %r)' % dirfile, want),
                              {'kind': 'failing-input', 'suite': 'spec-c13-validator', 'input': {'file': f, 'directory_file': dirfile},
                               'expected': want, 'observed': rc})
    shutil.rmtree(root, ignore_errors=True)
    return n


def replay(run, rep):
    inp = rep['input']
    if 'rule' in inp:
        from world import run_impl
        inp['default'] = tuple(inp['default'])
        inp['rule'] = tuple(inp['rule'])
        sys.setrecursionlimit(400)
        ires, _ = run_impl(inp)
        print('observed', ires)
        return ires[0] == 'ret'
    ok, names_ = impl_check(inp['rules'])
    print('observed', [ok, names_], 'expected', rep.get('expected'))
    return [ok, names_] == rep.get('expected')
