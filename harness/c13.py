"""C13: validation flags every undefined or cyclic rule reference, and only those."""
import itertools
import re
import sys

from common import S, enc_jv, run_batch, unS
from world import base_case, run_impl_many, describe, EXTRA
from c06 import render_expr

GEN = ['GPolicy.v', 'GChecks.v', 'GParser.v']


def refs_of(text):
    return re.findall(r'(?<![^\s(])rule:([^\s()]+)', text)


def graph_spec(rules):
    """independent analysis: names with an undefined reference; names that can reach a cycle"""
    edges = {n: [m for m in refs_of(t)] for n, t in rules.items()}
    undefined = [n for n in rules if any(m not in rules for m in edges[n])]
    # nodes on a cycle: n reaches n through >= 1 edge (defined nodes only)
    def reach(n):
        seen, todo = set(), [m for m in edges.get(n, []) if m in rules]
        while todo:
            x = todo.pop()
            if x in seen:
                continue
            seen.add(x)
            todo += [m for m in edges[x] if m in rules]
        return seen
    reachable = {n: reach(n) for n in rules}
    on_cycle = {n for n in rules if n in reachable[n]}
    cyclic = [n for n in rules if any(m in on_cycle for m in reachable[n])]
    return undefined, cyclic


def impl_check(rules):
    from oslo_config import cfg
    from oslo_policy import policy
    from world import fresh_conf
    e = policy.Enforcer(fresh_conf(), policy_file='policy.yaml', use_conf=False)
    e.set_rules(policy.Rules.from_dict(rules), use_conf=False)
    ok = e.check_rules()
    names = []
    try:
        e.check_rules(raise_on_violation=True)
    except policy.InvalidDefinitionError as ex:
        m = re.search(r'Policies (\[.*\]) are not well defined', str(ex))
        names = eval(m.group(1)) if m else ['?']
    return ok, names


SHAPES = ['role:x', '@', 'rule:{0}', 'not rule:{0}', 'rule:{0} and rule:{1}', 'role:x or rule:{0}',
          'not (role:x and not rule:{0})', '(rule:{0} or rule:{1}) and role:x', 'rule:{0} and not rule:{0}',
          'not not rule:{1}', 'rule:zz', 'role:x and not rule:zz']


def run(run, binfo):
    tier, rng = run.tier, run.rng
    sets = []
    names = ['a', 'b', 'c'] if tier == 'quick' else ['a', 'b', 'c', 'd']
    # exhaustive: every assignment of a shape (instantiated with every pair of names) to each name
    bodies = []
    for sh in SHAPES:
        for x, y in itertools.product(names, repeat=2):
            b = sh.format(x, y)
            if b not in bodies:
                bodies.append(b)
    if tier == 'quick':
        pool = bodies[::2]
        for combo in itertools.product(pool, repeat=len(names)):
            sets.append(dict(zip(names, combo)))
        sets = sets[::7]
    else:
        pool = bodies[::3]
        for combo in itertools.product(pool, repeat=len(names)):
            sets.append(dict(zip(names, combo)))
        sets = sets[::11]
    nexh = len(sets)
    # random graphs over up to 6 names with generated expressions
    nrand = 1500 if tier == 'quick' else 30000
    for _ in range(nrand):
        k = rng.randint(1, 6)
        nm = ['n%d' % i for i in range(k)]
        rules = {}
        for n in nm:
            leaves = ['role:x', 'role:y'] + ['rule:' + rng.choice(nm) for _ in range(2)]
            if rng.random() < 0.2:
                leaves.append('rule:undefined')
            rules[n] = render_expr(rng, leaves, rng.randint(1, 6))
        sets.append(rules)
    run.count('exhaustive_rule_sets', nexh)
    run.count('random_rule_sets', nrand)
    answers = run_batch([[9, EXTRA, [[S(k), enc_jv(v)] for k, v in rs.items()], 0] for rs in sets])
    bad_corr = []
    clean_cases = []
    for rs, ans in zip(sets, answers):
        run.evaluations += 1
        m_und = [unS(x) for x in ans[0]]
        m_cyc = [unS(x) for x in ans[1]]
        m_ok = bool(ans[2])
        ok, names_ = impl_check(rs)
        s_und, s_cyc = graph_spec(rs)
        if (ok, names_) != (m_ok, m_und + m_cyc):
            bad_corr.append((rs, (m_ok, m_und + m_cyc), (ok, names_)))
        if (ok, names_) != (not (s_und or s_cyc), s_und + s_cyc):
            run.violation('validation', 'check_rules on %r reports %r, graph analysis says undefined=%r cyclic=%r'
                          % (rs, (ok, names_), s_und, s_cyc),
                          {'kind': 'failing-input', 'suite': 'spec-c13', 'input': {'rules': rs},
                           'expected': [not (s_und or s_cyc), s_und + s_cyc], 'observed': [ok, names_]})
        if s_und or s_cyc:
            run.nontrivial.add(repr(sorted(rs.items())))
        if ok:
            run.count('clean')
            for n in rs:
                clean_cases.append(base_case(rules=rs, rule=('name', n), creds={'roles': ['x']}))
    # clean graphs: every rule evaluates (recursion watchdog: the interpreter's own limit)
    old = sys.getrecursionlimit()
    sys.setrecursionlimit(400)
    try:
        for c, (ires, itr) in zip(clean_cases, run_impl_many(clean_cases, procs=1)):
            run.evaluations += 1
            if ires[0] != 'ret':
                run.violation('clean-does-not-terminate', 'validation reported nothing, yet enforcing %r gives %r'
                              % (c['rule'][1], ires),
                              {'kind': 'failing-input', 'suite': 'spec-c13-terminates', 'input': describe(c),
                               'expected': 'a decision', 'observed': ires})
    finally:
        sys.setrecursionlimit(old)
    run.count('clean_rules_evaluated', len(clean_cases))
    run.sample({'rules': sets[3]})
    run.sample({'rules': sets[-1]})
    run.extra['correspondence_disagreements'] = len(bad_corr)
    if bad_corr and not run.violations:
        rs, m, i = bad_corr[0]
        run.violation('correspondence:S6', 'model and implementation disagree on check_rules',
                      {'kind': 'broken-obligation', 'obligation': 'correspondence suite S6 (check_rules)',
                       'input': {'rules': rs}, 'model': m, 'observed': i, 'count': len(bad_corr)})
    run.rule = ('%d rule sets over %r with bodies from %d shapes instantiated with every pair of names (a fixed stride of the '
                'full product) + %d random graphs over <= 6 names with generated expressions (references under and/or/not, '
                'self-loops, long cycles, diamonds, undefined names): Enforcer.check_rules (result and reported names) vs the '
                'model and vs an independent graph analysis; every rule of every clean set is enforced under a recursion limit '
                'of 400. non-trivial = distinct rule sets with a problem' % (nexh, names, len(SHAPES), nrand))


def replay(run, rep):
    inp = rep['input']
    if 'rule' in inp:
        from world import run_impl
        inp['default'] = tuple(inp['default'])
        inp['rule'] = tuple(inp['rule'])
        sys.setrecursionlimit(400)
        ires, _ = run_impl(inp)
        print('observed', ires)
        return ires[0] == 'ret'
    ok, names_ = impl_check(inp['rules'])
    print('observed', [ok, names_], 'expected', rep.get('expected'))
    return [ok, names_] == rep.get('expected')
