"""Loader simulation: a synthetic file system (real files, synthetic strictly increasing mtimes),
the real Enforcer on top of it, and the wire encoding of the same snapshots for the model."""
import json
import os
import shutil

import yaml

from common import S, enc_jv, run_batch, unS, work_dir

MAIN = 'policy.yaml'
SCALE = 4.0     # synthetic clock ticks per second (exact in binary floating point)
DIRS = ['missing0.d', 'policy.d', 'missing.d', 'second.d']


class FsSim:
    def __init__(self, root, dirs=DIRS, main=MAIN):
        self.root = root
        self.dirs = list(dirs)
        self.mainname = main
        self.clock = 4000                     # in quarter seconds: several changes fall into one whole second
        self.main = None                      # (mtime, mapping, fmt)
        self.dstate = {d: None for d in dirs}   # None (missing) | {'mtime': t, 'entries': {name: ('file', t, mapping, fmt) | ('sub', t)}}
        self.symlink_main = False             # True: the policy file is a symbolic link, edited by re-pointing it
        os.makedirs(root, exist_ok=True)

    def tick(self):
        self.clock += 1
        return self.clock

    # ---- operations (each advances the clock)
    def write_main(self, mapping, fmt='json'):
        self.main = (self.tick(), dict(mapping), fmt)
        if mapping:
            self.last_main = (dict(mapping), fmt)

    def restore_main(self):
        """the policy file (back) with exactly the last non-empty text it had, at a newer time"""
        m, fmt = getattr(self, 'last_main', ({'alpha': 'role:v1', 'beta': 'role:v1'}, 'json'))
        self.main = (self.tick(), dict(m), fmt)

    def touch_main(self):
        if self.main:
            self.main = (self.tick(), self.main[1], self.main[2])

    def delete_main(self):
        if self.main:
            self.tick()
            self.main = None

    def mkdir(self, d):
        if self.dstate[d] is None:
            self.dstate[d] = {'mtime': self.tick(), 'entries': {}}

    def write(self, d, name, mapping, fmt='json'):
        self.mkdir(d)
        t = self.tick()
        st = self.dstate[d]
        if name not in st['entries']:
            st['mtime'] = t            # creating an entry stamps the directory
        st['entries'][name] = ('file', t, dict(mapping), fmt)

    def touch(self, d, name):
        st = self.dstate[d]
        if st and name in st['entries'] and st['entries'][name][0] == 'file':
            e = st['entries'][name]
            st['entries'][name] = ('file', self.tick(), e[2], e[3])

    def delete(self, d, name):
        st = self.dstate[d]
        if st and name in st['entries']:
            del st['entries'][name]
            st['mtime'] = self.tick()   # removing an entry stamps the directory

    def subdir(self, d, name):
        self.mkdir(d)
        st = self.dstate[d]
        if name not in st['entries']:
            t = self.tick()
            st['mtime'] = t
            st['entries'][name] = ('sub', t)

    # ---- to disk
    # a YAML file that defines nothing, in every spelling (zero bytes, only comments -- what a generated sample looks like --
    # a bare document marker, blank lines); which one is written depends on the file's synthetic time stamp
    EMPTY_YAML = ['', '# every default stands: nothing is overridden here\n', '---\n', '\n\n', '# c\n---\n# d\n', '--- {}\n']

    @classmethod
    def _dump(cls, mapping, fmt, salt=0):
        if fmt == 'yaml':
            if not mapping:
                return cls.EMPTY_YAML[salt % len(cls.EMPTY_YAML)]
            return ('# a comment line\n' if salt % 3 == 1 else '') + yaml.safe_dump(mapping, default_flow_style=False)
        return json.dumps(mapping)

    def sync(self):
        p = os.path.join(self.root, self.mainname)
        if self.main is None:
            if os.path.lexists(p):
                os.remove(p)
        elif self.symlink_main:
            real = '%s.rev%d' % (p, self.main[0])
            with open(real, 'w') as f:
                f.write(self._dump(self.main[1], self.main[2], self.main[0]))
            os.utime(real, (self.main[0] / SCALE, self.main[0] / SCALE))
            tmp = p + '.lnk'
            if os.path.lexists(tmp):
                os.remove(tmp)
            os.symlink(os.path.basename(real), tmp)
            os.replace(tmp, p)               # the atomic swap deployments use
        else:
            if os.path.islink(p):
                os.remove(p)
            with open(p, 'w') as f:
                f.write(self._dump(self.main[1], self.main[2], self.main[0]))
            os.utime(p, (self.main[0] / SCALE, self.main[0] / SCALE))
        for d, st in self.dstate.items():
            dp = os.path.join(self.root, d)
            if st is None:
                if os.path.isdir(dp):
                    shutil.rmtree(dp)
                continue
            os.makedirs(dp, exist_ok=True)
            for fn in os.listdir(dp):
                if fn not in st['entries']:
                    q = os.path.join(dp, fn)
                    shutil.rmtree(q) if os.path.isdir(q) else os.remove(q)
            for name, e in st['entries'].items():
                q = os.path.join(dp, name)
                if e[0] == 'sub':
                    os.makedirs(q, exist_ok=True)
                    # something inside a sub-directory must never be read
                    with open(os.path.join(q, 'inner.yaml'), 'w') as f:
                        f.write(json.dumps({'inner': '@'}))
                    os.utime(q, (e[1] / SCALE, e[1] / SCALE))
                else:
                    with open(q, 'w') as f:
                        f.write(self._dump(e[2], e[3], e[1]))
                    os.utime(q, (e[1] / SCALE, e[1] / SCALE))
            os.utime(dp, (st['mtime'] / SCALE, st['mtime'] / SCALE))

    # ---- wire
    def wire(self):
        def content(m):
            return [[S(k), enc_jv(v)] for k, v in m.items()]
        main = [] if self.main is None else [[self.main[0], content(self.main[1])]]
        dirs = []
        for d in self.dirs:
            st = self.dstate[d]
            if st is None:
                dirs.append([])
                continue
            ents = []
            # os.listdir order is arbitrary; the model must not depend on it: give insertion order
            for name, e in st['entries'].items():
                if e[0] == 'sub':
                    ents.append([S(name), [1, e[1]]])
                else:
                    ents.append([S(name), [0, [e[1], content(e[2])]]])
            dirs.append([[st['mtime'], ents]])
        return [main, dirs]


def make_enforcer(root, defaults, enforce_new_defaults=True, overwrite=True, dirs=DIRS, main=MAIN,
                  dirs_via='override', enw_via='override'):
    """enw_via: how enforce_new_defaults gets its value -- 'override' (set_override), 'config_file' (a line in the
    service's configuration file), 'lib_set_defaults' (the library helper opts.set_defaults, in ONE call together with
    the policy file name, as services do).  The last one rewrites module-level option objects: call e._verif_restore()
    when done with the enforcer."""
    from oslo_config import cfg
    from oslo_policy import policy, opts
    conf = cfg.ConfigOpts()
    opts._register(conf)
    lines = []
    if dirs_via == 'config_file':
        # the way a deployment does it: one `policy_dirs = ...` line per directory in a configuration file
        lines += ['policy_dirs = %s\n' % d for d in dirs]
    if enw_via == 'config_file':
        lines.append('enforce_new_defaults = %s\n' % bool(enforce_new_defaults))
    if lines:
        os.makedirs(os.path.join(root, 'etc'), exist_ok=True)
        cf = os.path.join(root, 'etc', 'verif.conf')
        with open(cf, 'w') as f:
            f.write('[oslo_policy]\n' + ''.join(lines))
        conf(['--config-file', cf, '--config-dir', root], project='verif')
    else:
        conf(['--config-dir', root], project='verif')
    if dirs_via != 'config_file':
        conf.set_override('policy_dirs', list(dirs), group='oslo_policy')
    restore = lambda: None     # noqa
    if enw_via == 'lib_set_defaults':
        saved = {o.dest: (o.default, o._set_location) for o in opts._options}

        def restore():
            for o in opts._options:
                o.default, o._set_location = saved[o.dest]
        opts.set_defaults(conf, main, enforce_new_defaults=bool(enforce_new_defaults))
    else:
        conf.set_override('policy_file', main, group='oslo_policy')
        if enw_via == 'override':
            conf.set_override('enforce_new_defaults', enforce_new_defaults, group='oslo_policy')
    e = policy.Enforcer(conf, overwrite=overwrite)
    e._verif_restore = restore
    e.suppress_deprecation_warnings = True
    for d in defaults:
        e.register_default(mk_default(d))
    return e


def mk_default(d):
    """d = (name, check_str, dep or None, scope)"""
    from oslo_policy import policy
    dep = None
    if d[2] and len(d) > 4 and d[4] == 'legacy':
        # the older declaration style: reason and release given on the RuleDefault
        import warnings
        with warnings.catch_warnings():
            warnings.simplefilter('ignore')
            dep = policy.DeprecatedRule(d[2][0], d[2][1])
            return policy.RuleDefault(d[0], d[1], deprecated_rule=dep, scope_types=d[3] or None,
                                      deprecated_reason='legacy reason', deprecated_since='L')
    if d[2]:
        dep = policy.DeprecatedRule(d[2][0], d[2][1], deprecated_reason='r', deprecated_since='s')
    return policy.RuleDefault(d[0], d[1], deprecated_rule=dep, scope_types=d[3] or None)


def enc_defaults(defaults):
    return [[S(d[0]), S(d[1]), [[S(d[2][0]), S(d[2][1])]] if d[2] else [], [S(t) for t in (d[3] or [])]]
            for d in defaults]


def observe(e):
    """the implementation's state in the vocabulary of Model.Wire.sx_of_est"""
    rules = sorted((k, '' if False else str(v)) for k, v in e.rules.items())
    fr = sorted((k, str(v.check)) for k, v in e.file_rules.items())
    mc = None
    if e.policy_path and e.policy_path in e._file_cache and e._file_cache[e.policy_path]:
        mc = int(round(e._file_cache[e.policy_path].get('mtime', 0) * SCALE))
    return {'rules': rules, 'file_rules': fr, 'path_known': bool(e.policy_path), 'mcache': mc}


def dec_state(ans):
    rules = sorted((unS(p[0]), unS(p[1])) for p in ans[0])
    fr = sorted((unS(x[0]), unS(x[1])) for x in ans[1])
    mc = ans[3][0] if ans[3] else None
    return {'rules': rules, 'file_rules': fr, 'path_known': bool(ans[2]), 'mcache': mc}


def model_history(conf_wire, steps_wire):
    ans = run_batch([[10, conf_wire, steps_wire]])[0]
    return [dec_state(a) for a in ans]


def fresh_root(tag):
    root = os.path.join(work_dir(), 'fs_%s' % tag)
    shutil.rmtree(root, ignore_errors=True)
    os.makedirs(root)
    return root
