"""C10: a long-lived enforcer always decides as a freshly started one would."""
import itertools
import os
import shutil

from loadsim import FsSim, make_enforcer, enc_defaults, observe, model_history, fresh_root

GEN = ['GPolicy.v', 'GChecks.v', 'GParser.v']

OPS = ['write_main', 'empty_main', 'touch_main', 'delete_main', 'restore_main',
       'write_d1', 'empty_d1', 'touch_d1', 'delete_d1', 'write_d2', 'delete_d2',
       'write_d1b', 'subdir_d1', 'dot_d1']
DEFAULT_SETS = {
    'plain': [('alpha', 'role:dflt_alpha', None, None), ('gamma', 'role:dflt_gamma', None, None)],
    'deprecated': [('alpha', 'role:new_alpha', ('old_alpha', 'role:old_alpha'), None),
                   ('gamma', 'role:new_gamma', ('gamma', 'role:old_gamma'), None)],
    # registered defaults that REFER to names the files define, redefine and drop (the check objects of a registered
    # default live as long as the enforcer; those parsed from files are rebuilt by every reload)
    'referring': [('alpha', 'role:dflt_alpha', None, None), ('gamma', 'rule:beta or role:dflt_gamma', None, None),
                  ('epsilon', 'rule:alpha', None, None), ('zeta', 'not rule:delta', None, None),
                  ('eta', 'rule:old_alpha and rule:beta', None, None)],
}
DEFAULT_SETS['deprecated-old'] = DEFAULT_SETS['deprecated']      # the same, with enforce_new_defaults off
PROBE_ROLES = ['dflt_alpha', 'dflt_gamma', 'new_alpha', 'old_alpha', 'new_gamma', 'old_gamma'] + \
              ['v%d' % i for i in range(1, 60)]


def apply_op(fs, op, k):
    """k: a counter making every written content distinguishable"""
    tag = 'role:v%d' % k
    if op == 'write_main':
        m = {'alpha': tag, 'beta': tag}
        if k % 3 == 0:
            m['old_alpha'] = tag
        fs.write_main(m, 'yaml' if k % 2 else 'json')
    elif op == 'empty_main':
        fs.write_main({}, 'yaml')
    elif op == 'touch_main':
        fs.touch_main()
    elif op == 'delete_main':
        fs.delete_main()
    elif op == 'restore_main':
        fs.restore_main()
    elif op == 'write_d1':
        fs.write('policy.d', 'a.yaml', {'alpha': tag} if k % 2 else {'beta': tag, 'gamma': tag}, 'json')
    elif op == 'empty_d1':
        fs.write('policy.d', 'a.yaml', {}, 'yaml')
    elif op == 'touch_d1':
        fs.touch('policy.d', 'a.yaml')
    elif op == 'delete_d1':
        fs.delete('policy.d', 'a.yaml')
    elif op == 'write_d1b':
        fs.write('policy.d', 'b.yaml', {'alpha': tag, 'delta': tag}, 'yaml')
    elif op == 'write_d2':
        fs.write('second.d', 'z.json', {'beta': tag, 'old_alpha': tag}, 'json')
    elif op == 'delete_d2':
        fs.delete('second.d', 'z.json')
    elif op == 'subdir_d1':
        fs.subdir('policy.d', 'sub')
    elif op == 'dot_d1':
        fs.write('policy.d', '.hidden.yaml', {'alpha': tag}, 'yaml')
    else:
        raise ValueError(op)


def decisions(e, names):
    out = {}
    # the first decisions after a change are asked with a check object (a reference to the name), not a name
    from oslo_policy import _checks
    row = []
    for n in names:
        for r in PROBE_ROLES[:3] + ['v%d' % i for i in range(1, 60, 12)]:
            try:
                row.append(bool(e.enforce(_checks.RuleCheck('rule', n), {}, {'roles': [r]})))
            except Exception as ex:   # noqa
                row.append('EXC ' + type(ex).__name__)
    out['(by check object)'] = row
    for n in names:
        row = []
        for r in PROBE_ROLES[:12] + ['v%d' % i for i in range(1, 60, 4)]:
            try:
                row.append(bool(e.enforce(n, {}, {'roles': [r]})))
            except Exception as ex:   # noqa
                row.append('EXC ' + type(ex).__name__)
        out[n] = row
    return out


def run_history(root, ops, start_with_main, dset):
    """-> (violation payload or None, correspondence disagreement or None, evaluations)"""
    shutil.rmtree(root, ignore_errors=True)
    os.makedirs(root)
    fs = FsSim(root)
    # the policy directories exist from the start (removing a whole directory is outside the
    # quantifier: hypothesis dirs_persist)
    fs.mkdir('policy.d')
    fs.mkdir('second.d')
    k = 1
    if start_with_main:
        fs.write_main({'alpha': 'role:v1', 'beta': 'role:v1'}, 'json')
    fs.sync()
    defaults = DEFAULT_SETS[dset]
    enw = dset != 'deprecated-old'
    e = make_enforcer(root, defaults, enforce_new_defaults=enw)
    steps_wire = []
    observed = []
    names = ['alpha', 'beta', 'gamma', 'delta', 'old_alpha'] + (['epsilon', 'zeta', 'eta'] if dset == 'referring' else [])
    viol = None
    evals = 0
    for i, op in enumerate([None] + list(ops)):
        if op is not None:
            k += 1
            apply_op(fs, op, k)
            fs.sync()
        try:
            dec_long = decisions(e, names)       # enforce => the implicit load_rules
        except Exception as ex:   # noqa
            dec_long = 'EXC ' + type(ex).__name__
        obs = observe(e)
        steps_wire.append([fs.wire(), 0])
        observed.append(obs)
        fresh = make_enforcer(root, defaults, enforce_new_defaults=enw)
        dec_fresh = decisions(fresh, names)
        obs_fresh = observe(fresh)
        evals += 1
        if dec_long != dec_fresh or obs['rules'] != obs_fresh['rules']:
            viol = ('stale:%s' % (op or 'start'),
                    'after %r (start_with_main=%r, defaults=%s) the long-lived enforcer differs from a fresh one: '
                    'rules %r vs %r' % (list(ops[:i]), start_with_main, dset, obs['rules'], obs_fresh['rules']),
                    {'kind': 'failing-input', 'suite': 'spec-c10',
                     'input': {'ops': list(ops[:i]), 'start_with_main': start_with_main, 'defaults': dset},
                     'expected': obs_fresh['rules'],
                     'observed': obs['rules'] if isinstance(dec_long, dict) else dec_long})
            break
    corr = None
    mod = model_history([1 if enw else 0, enc_defaults(defaults), 1], steps_wire)
    for i, (m, o) in enumerate(zip(mod, observed)):
        if m != o:
            corr = ({'ops': list(ops[:i]), 'start_with_main': start_with_main, 'defaults': dset}, m, o)
            break
    return viol, corr, evals


def _worker(args):
    idx, chunk = args
    import common
    common.setup_impl()
    common.WORK = os.path.join(common.VERIF, '_work', 'c10_%d_%d' % (os.getppid(), idx))
    root = fresh_root('c10_%d' % idx)
    out = []
    for ops, start, dset in chunk:
        out.append(run_history(root, ops, start, dset))
    shutil.rmtree(common.WORK, ignore_errors=True)
    return out


def run(run, binfo):
    tier, rng = run.tier, run.rng
    root = fresh_root('c10')
    bad_corr = []
    maxlen = 2 if tier == 'quick' else 3
    hist = []
    for n in range(0, maxlen + 1):
        for ops in itertools.product(OPS, repeat=n):
            for start in (True, False):
                hist.append((ops, start, ['deprecated', 'plain', 'referring', 'deprecated-old', 'plain', 'referring'][len(hist) % 6]))
    if tier == 'quick':
        # all histories of length <= 2, a stride of those of length 3
        extra = [(ops, s, 'plain') for ops in itertools.product(OPS, repeat=3) for s in (True, False)]
        hist += extra[::17]
    nexh = len(hist)
    nrand = 60 if tier == 'quick' else 1500
    for _ in range(nrand):
        n = rng.randint(4, 40)
        hist.append((tuple(rng.choice(OPS) for _ in range(n)), rng.random() < 0.5,
                     rng.choice(['plain', 'deprecated', 'referring', 'deprecated-old'])))
    import multiprocessing as mp
    nproc = 14
    chunks = [(i, hist[i::nproc]) for i in range(nproc)]
    with mp.get_context('fork').Pool(nproc) as pool:
        parts = pool.map(_worker, chunks)
    for (i, chunk), part in zip(chunks, parts):
        for (ops, start, dset), (viol, corr, evals) in zip(chunk, part):
            run.evaluations += evals
            run.nontrivial.add((ops, start, dset))
            if viol:
                run.violation(*viol)
            if corr:
                bad_corr.append(corr)
    run.count('exhaustive_histories', nexh)
    run.count('random_histories', nrand)
    run.sample({'ops': list(hist[50][0]), 'start_with_main': hist[50][1], 'defaults': hist[50][2]})
    run.sample({'ops': list(hist[-1][0]), 'start_with_main': hist[-1][1], 'defaults': hist[-1][2]})
    run.extra['correspondence_disagreements'] = len(bad_corr)
    if bad_corr and not run.violations:
        c, m, o = bad_corr[0]
        run.violation('correspondence:S5', 'model and implementation disagree after a history',
                      {'kind': 'broken-obligation', 'obligation': 'correspondence suite S5 (histories)',
                       'input': c, 'model': m, 'observed': o, 'count': len(bad_corr)})
    run.rule = ('all histories of length <= %d over the %d operations %r (plus a stride of length-3 ones in quick), starting with '
                'and without a main file, plain / deprecated (enforce_new_defaults on and off) / file-name-referring registered defaults, and %d random histories of 4-40 operations; '
                'real files with synthetic strictly increasing mtimes; after every operation the long-lived enforcer enforces '
                '(implicit load) and is compared -- Enforcer.rules and decisions for 5 names x 27 roles -- with a newly '
                'constructed enforcer on the same files, and with the model (rules, file_rules, cache). non-trivial = distinct histories'
                % (maxlen, len(OPS), OPS, nrand))
    shutil.rmtree(root, ignore_errors=True)


def replay(run, rep):
    root = fresh_root('c10replay')
    inp = rep['input']
    viol, corr, _ = run_history(root, tuple(inp['ops']), inp['start_with_main'], inp['defaults'])
    shutil.rmtree(root, ignore_errors=True)
    print('violation' if viol else 'no violation', viol[1] if viol else '')
    return viol is None
