"""C07: enforce either returns the decision or raises the requested exception."""
from common import corr_kind
from world import base_case, run_cases, describe, out_of_model, agree, NOT_MAPPING
from c06 import gen_ruleset, ROLESETS, render_expr

GEN = ['GPolicy.v', 'GChecks.v', 'GParser.v']


def variants(rng, base):
    """the same (rules, target, creds, rule) in every mode"""
    out = []
    for dr in (False, True):
        for exc in (None, 7):
            for debug in (False, True):
                c = dict(base)
                c.update(do_raise=dr, exc=exc, debug=debug, snapshot=True)
                if exc is not None:
                    c['exc_args'] = ('a1', 2)
                    c['exc_kwargs'] = {'kw': 'v'}
                out.append(c)
    return out


def run(run, binfo):
    tier, rng = run.tier, run.rng
    nsets = 60 if tier == 'quick' else 1500
    cases, groups = [], []
    for s_i in range(nsets):
        names, rules = gen_ruleset(rng, rng.randint(2, 5))
        # add generic leaves
        rules['g'] = render_expr(rng, ['user_id:%(user_id)s', "'x':%(k)s", 'a.b:x', 'role:r0', 'is_admin:True'],
                                 rng.randint(1, 5))
        default = rng.choice([('none',), ('name', 'default'), ('check', 'role:r1')])
        # custom checks answer with any truthy / falsy value, not only True / False
        pool = [True, False, True, False, None, 0, '', 1, 'yes', 0.0, 2.5]
        custom = {'c4a': rng.choice(pool), 'c3a': rng.choice(pool), 'c4b': rng.choice(pool)}
        registered = {n: rng.choice([None, None, ['system'], ['project'], ['domain', 'project']])
                      for n in names if rng.random() < 0.6}
        es = rng.random() < 0.5
        target = rng.choice([{}, {'user_id': 'u', 'k': 'x'}, {'user_id': 'v', 'k': 5, 'nested': {'a': [1, 2]}}])
        for q in rng.sample(names + ['g', 'unknown'], 3):
            roles = rng.choice(ROLESETS)
            creds = {'roles': roles, 'user_id': 'u', 'is_admin': rng.random() < 0.5, 'a': {'b': 'x'}}
            sc = rng.random()
            if sc < 0.25:
                creds['system_scope'] = 'all'
            elif sc < 0.45:
                creds['domain_id'] = 'd1'
            by = rng.random()
            if by < 0.7:
                rule = ('name', q)
            else:
                rule = ('obj', rules.get(q, 'role:r0'), None)
            base = base_case(rules=rules, default=default, rule=rule, creds=creds, target=target,
                             custom=custom, registered=registered, enforce_scope=es,
                             authorize=(rule[0] == 'name' and rng.random() < 0.4))
            if rng.random() < 0.3:
                # the same request with the credentials as a RequestContext / its policy-values mapping
                base['creds'] = {k: v for k, v in creds.items() if k != 'a'}
                base['creds_as'] = rng.choice(['context', 'policy_values'])
            g = variants(rng, base)
            groups.append((len(cases), len(g)))
            cases += g
        if s_i < 11:
            # a policy that IS one custom check, answering with each truthy / falsy value in turn: by name, through a
            # reference, and handed over as a check object
            val = [None, 0, '', 0.0, False, True, 1, 'yes', 2.5, [], [0]][s_i]
            for rl, rule in [({'m': 'c3a:m'}, ('name', 'm')), ({'m': 'c4a:m', 'via': 'rule:m'}, ('name', 'via')),
                             ({'m': 'c4b:m'}, ('obj', 'c4b:m', None)), ({'m': 'c3a:m', 'via': 'rule:m'}, ('obj', 'rule:m', None))]:
                base = base_case(rules=rl, default=('none',), rule=rule, creds={'roles': []}, target={},
                                 custom={'c4a': val, 'c3a': val, 'c4b': val})
                g = variants(rng, base)
                groups.append((len(cases), len(g)))
                cases += g
        # an empty rule table, and a target whose keys the debug dump would mask
        for rl, tg, rule in [({}, {}, ('name', 'anything')),
                             ({'m': "'tv':%(auth_token)s and 'pw':%(password)s"},
                              {'auth_token': 'tv', 'password': 'pw', 'secret': {'k': 'v'}}, ('name', 'm')),
                             ({'m': "'tv':%(auth_token)s"}, {'auth_token': 'tv'}, ('obj', "'tv':%(auth_token)s", None))]:
            base = base_case(rules=rl, default=('none',), rule=rule, creds={'roles': [], 'token': 'x'}, target=tg)
            g = variants(rng, base)
            groups.append((len(cases), len(g)))
            cases += g
        # authorize refuses what is not registered BEFORE anything else: with an empty rule table, with credentials
        # of the wrong type, and for check objects (which have no registration)
        for rl, reg, rule, cr in [({}, {}, ('name', 'anything'), {'roles': []}),
                                  ({}, {'other': None}, ('name', 'anything'), {'roles': []}),
                                  ({'m': '@'}, {}, ('obj', '@', None), {'roles': []}),
                                  ({'m': '@'}, {'m': None}, ('name', 'nope'), NOT_MAPPING)]:
            base = base_case(rules=rl, default=('none',), rule=rule, creds=cr, target={}, registered=reg, authorize=True)
            if cr == NOT_MAPPING:
                cases.append(base)
                groups.append((len(cases) - 1, 0))
                continue
            g = variants(rng, base)
            groups.append((len(cases), len(g)))
            cases += g
        # credential type gate
        cases.append(base_case(rules=rules, rule=('name', names[0]), creds=NOT_MAPPING))
        groups.append((len(cases) - 1, 1))
    run.count('cases', len(cases))
    results = run_cases(cases)
    bad_corr = []
    for c, (mres, mtr, ires, itr) in zip(cases, results):
        run.evaluations += 1
        if out_of_model(mres):
            run.count('out_of_model')
        elif not agree(mres, ires):
            bad_corr.append((c, mres, ires))
        elif mtr != itr:
            bad_corr.append((c, mtr, itr))
    for start, n in groups:
        if n == 0:
            ires = results[start][2]
            if ires[:2] != ('exc', 'PolicyNotRegistered'):
                run.violation('authorize-unregistered', 'authorize on an unregistered name (credentials of the wrong type) '
                              'gave %r' % (ires,),
                              {'kind': 'failing-input', 'suite': 'spec-c07', 'input': describe(cases[start]),
                               'expected': 'PolicyNotRegistered', 'observed': ires})
            continue
        if n == 1:
            ires = results[start][2]
            if ires[:2] != ('exc', 'InvalidContextObject'):
                run.violation('type-gate', 'credentials that are not a mapping gave %r' % (ires,),
                              {'kind': 'failing-input', 'suite': 'spec-c07', 'input': describe(cases[start]),
                               'expected': 'InvalidContextObject', 'observed': ires})
            continue
        grp = [(cases[i], results[i][2], results[i][3]) for i in range(start, start + n)]
        base = grp[0][0]

        def viol(key, msg, c, exp, obs):
            run.violation(key, msg, {'kind': 'failing-input', 'suite': 'spec-c07', 'input': describe(c),
                                     'expected': exp, 'observed': obs})
        unregistered = base['authorize'] and (base['rule'][0] != 'name' or base['rule'][1] not in base['registered'])
        offs = [(c, r, t) for c, r, t in grp if not c['do_raise']]
        ons = [(c, r, t) for c, r, t in grp if c['do_raise']]
        if unregistered:
            for c, r, t in grp:
                if r[:2] != ('exc', 'PolicyNotRegistered') or t:
                    viol('authorize-unregistered', 'authorize on an unregistered name gave %r, trace %r' % (r, t),
                         c, 'PolicyNotRegistered, nothing evaluated', [r, t])
            run.nontrivial.add(('unreg', start))
            continue
        off0 = offs[0][1]
        for c, r, t in offs:
            if r[:2] != off0[:2]:
                viol('modes-differ', 'do_raise off results differ across exc/debug variants: %r vs %r' % (off0, r),
                     c, off0, r)
        for c, r, t in grp:
            if r[-1] == ('unchanged', False):
                viol('inputs-mutated', 'enforce altered the target or credentials it was given', c, 'unchanged', r)
        if off0[0] == 'exc':
            # the evaluation itself raises: same exception in both modes
            for c, r, t in ons:
                if r[:2] != off0[:2]:
                    viol('eval-error-differs', 'evaluation error %r became %r under do_raise' % (off0, r), c, off0, r)
            continue
        falsy = (off0[1] is False)
        for c, r, t in ons:
            if falsy:
                if r[0] != 'exc':
                    viol('falsy-not-raised', 'do_raise off returned falsy but do_raise on returned %r' % (r,), c,
                         'an exception', r)
                elif c['exc'] is not None:
                    if r[1] == 'InvalidScope':
                        pass
                    elif r[1] != 'Custom7' or r[2] != repr(('a1', 2)) or r[3] != repr([('kw', 'v')]):
                        viol('exc-shape', 'custom exception not built from the caller\'s arguments: %r' % (r,), c,
                             "Custom7(('a1', 2), kw='v')", r)
                else:
                    nm = c['rule'][1] if c['rule'][0] == 'name' else None
                    if r[1] not in ('PolicyNotAuthorized', 'InvalidScope'):
                        viol('exc-shape', 'denial raised %r' % (r,), c, 'PolicyNotAuthorized', r)
                    elif r[1] == 'PolicyNotAuthorized' and nm is not None and nm not in r[2]:
                        viol('exc-shape', 'PolicyNotAuthorized does not name the policy: %r' % (r,), c, nm, r)
            else:
                if r[:2] != ('ret', True):
                    viol('allowed-raised', 'allowed request gave %r under do_raise' % (r,), c, ('ret', True), r)
        run.nontrivial.add((start, falsy))
    nex = exotic_inputs(run)
    run.count('exotic_target_runs', nex)
    run.sample(describe(cases[0]))
    run.sample(describe(cases[len(cases) // 2]))
    run.extra['correspondence_disagreements'] = len(bad_corr)
    if bad_corr and not run.violations:
        c, m, i = next((x for x in bad_corr if corr_kind(x[1]) == 'failing-input'), bad_corr[0])
        run.violation('correspondence:S4', 'model and implementation disagree on enforce/authorize',
                      {'kind': corr_kind(m), 'oracle': 'the Coq model, for which the property is proved', 'obligation': 'correspondence suite S4 (enforce modes)',
                       'input': describe(c), 'model': m, 'observed': i, 'count': len(bad_corr)})
    run.rule = ('%d generated rule sets (role, generic, reference, recording custom leaves) x 3 enforced rules each x do_raise '
                'on/off x no/custom exception class with positional and keyword arguments x debug logging on/off x rule by name '
                'or check object x authorize on registered/unregistered names, plus the credential type gate; each group of 8 '
                'variants is checked against the statement directly (off falsy <=> on raises; exception class and arguments; '
                'allowed never raises; inputs unchanged; unregistered evaluates nothing) and model vs implementation; custom checks answer with arbitrary truthy/falsy values; six targets no model value encodes (cycles, 3000 levels, hostile mapping, failing repr) with debug on vs off. '
                'non-trivial = distinct groups' % nsets)


def exotic_targets():
    import collections.abc
    t1 = {'k': 'x'}
    t1['self'] = t1
    lst = [1]
    lst.append(lst)
    t2 = {'k': 'x', 'lst': lst}
    t3 = {'k': 'x'}
    cur = t3
    for _ in range(3000):
        cur['n'] = {}
        cur = cur['n']

    class M(collections.abc.Mapping):
        def __getitem__(self, key):
            if key == 'k':
                return 'x'
            raise KeyError(key)

        def __iter__(self):
            return iter(['k', 'advertised-but-unreadable'])

        def __len__(self):
            return 2

    class Odd:
        def __repr__(self):
            raise RuntimeError('no repr')

    class NoCopy:
        def __deepcopy__(self, memo):
            raise RuntimeError('no copy')

        def __copy__(self):
            raise RuntimeError('no copy')

        def __reduce_ex__(self, proto):
            raise RuntimeError('no pickle')
    return [('self-referential dict', t1), ('cyclic list inside', t2), ('3000 levels deep', t3),
            ('mapping with an unreadable key', M()), ('value whose repr fails', {'k': 'x', 'o': Odd()}),
            ('non-string keys', {'k': 'x', 1: 2, None: 3, (1, 2): 4}),
            ('value that cannot be copied (a lock)', {'k': 'x', 'session': __import__('threading').Lock()}),
            ('value that cannot be copied (a generator)', {'k': 'x', 'rows': (i for i in range(3))}),
            ('value whose copy fails', {'k': 'x', 'o': NoCopy()})]


def exotic_inputs(run):
    """targets no model value can encode (cycles, depth, hostile mappings): the debug dump must not change what
    enforce does -- the same call with debug logging on and off gives the same outcome (implementation only)"""
    from world import run_impl
    n = 0
    for label, tg in exotic_targets():
        for body, allow in (("'x':%(k)s", True), ("'y':%(k)s", False), ("'x':%(absent)s", False)):
            for dr in (False, True):
                for exc in (None, 7):
                    outs = {}
                    for debug in (False, True):
                        c = base_case(rules={'m': body}, rule=('name', 'm'), creds={'roles': [], 'user_id': 'u'},
                                      target={}, do_raise=dr, exc=exc, debug=debug, warm=False)
                        if exc is not None:
                            c['exc_args'] = ('a1', 2)
                            c['exc_kwargs'] = {'kw': 'v'}
                        outs[debug] = run_impl(c, deep=tg)[0]
                        n += 1
                        run.evaluations += 1
                    want = ('ret', True) if allow else (
                        ('exc', 'PolicyNotAuthorized' if exc is None else 'Custom%s' % exc) if dr else ('ret', False))
                    ok = outs[False][:len(want)] == want and outs[True][:2] == outs[False][:2]
                    if not ok:
                        d = describe(c)
                        d['target'] = label
                        run.violation('modes-differ:exotic', 'target (%s), rule %r, do_raise %r: debug off %r, debug on %r, '
                                      'documented %r' % (label, body, dr, outs[False], outs[True], want),
                                      {'kind': 'failing-input', 'suite': 'spec-c07-exotic', 'input': d,
                                       'expected': list(want), 'observed': [outs[False], outs[True]]})
    return n


def replay(run, rep):
    if rep.get('suite') == 'spec-c07-exotic':
        r2 = type(run)(run.prop, run.tier, run.seed)
        exotic_inputs(r2)
        print('exotic targets: %d violations' % len(r2.violations))
        return not r2.violations
    from world import run_impl
    c = rep['input']
    c['default'] = tuple(c['default'])
    c['rule'] = tuple(c['rule'])
    if 'exc_args' in c:
        c['exc_args'] = tuple(c['exc_args'])
    ires, itr = run_impl(c)
    print('observed', ires, itr, 'expected', rep.get('expected'))
    return False if rep.get('kind') == 'failing-input' and list(ires) == list(rep.get('observed') or []) else True
