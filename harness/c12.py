"""C12: loading is idempotent and never mutates what the service registered."""
import itertools
import os
import shutil

from loadsim import FsSim, make_enforcer, enc_defaults, observe, model_history, fresh_root, mk_default

GEN = ['GPolicy.v', 'GChecks.v', 'GParser.v']

ACTIONS = ['load', 'forced', 'enforce', 'edit', 'editmain']
SHARED = [('alpha', 'role:new_alpha', ('old_alpha', 'role:old_alpha'), None),
          ('beta', 'role:new_beta or role:x', ('beta', 'role:old_beta'), None),
          ('gamma', 'role:gamma', None, ['project']),
          ('delta', 'role:delta', ('old_delta', 'role:delta'), None),
          ('eps', 'role:eps', ('old_eps', 'role:old_eps'), None, 'legacy'),
          # a registered default that REFERS to a name the files define and redefine (its check objects live as long as
          # the registration; those parsed from files are rebuilt by every reload)
          ('theta', 'rule:beta or role:theta', None, None)]
PROBE_ROLES = ['dflt', 'other', 'x', 'theta', 'new_beta', 'old_beta', 'mainbeta', 'dir2'] + \
              ['dir2e%d' % k for k in range(1, 8)] + ['edit%d_%d' % (i, k) for i in range(3) for k in range(1, 8)]


def snapshot(objs):
    out = []
    for o in objs:
        d = o.deprecated_rule
        out.append((o.name, o.check_str, str(o.check), id(o.check), o.scope_types and tuple(o.scope_types),
                    o.deprecated_reason, o.deprecated_since, id(d),
                    d and (d.name, d.check_str, str(d.check), id(d.check), d.deprecated_reason, d.deprecated_since),
                    o.deprecated_for_removal, o.description))
    return out


def run_scenario(root, nenf, actions, seed):
    """actions: list of (enforcer index, action). -> (violation or None, corr or None, evals)"""
    import random
    rng = random.Random(seed)
    shutil.rmtree(root, ignore_errors=True)
    os.makedirs(root)
    shared = [mk_default(d) for d in SHARED]
    before = snapshot(shared)
    enfs = []
    share = nenf >= 2 and seed % 3 == 0
    # a lone enforcer is, in a quarter of the scenarios, the merging one (configured like the third enforcer)
    lone_merging = nenf == 1 and seed % 4 == 3
    for i in ([2] if lone_merging else range(nenf)):
        if share and i == 1:
            # two enforcers on the SAME files (same paths), differing only in an option
            r, fs = os.path.join(root, 'e0'), enfs[0]['fs']
        else:
            r = os.path.join(root, 'e%d' % i)
            fs = FsSim(r)
            fs.symlink_main = (i == 0 and seed % 2 == 1)
            fs.mkdir('policy.d')
            fs.write('policy.d', 'keep.yaml', {'kept': 'role:kept', 'default': 'role:dflt'}, 'yaml')
            if i != 2:
                fs.mkdir('second.d')        # policy.d is then NOT the last existing directory
            if i != 1:
                fs.write_main({'alpha': 'role:file%d' % i} if i == 0 else
                              {'old_alpha': 'role:oldfile', 'zeta': '@', 'beta': 'role:mainbeta'}, 'yaml')
            if i == 2:
                fs.write('policy.d', 'x.yaml', {'beta': 'role:dir2'}, 'json')
            fs.sync()
        from oslo_config import cfg
        from oslo_policy import policy, opts
        from loadsim import DIRS, MAIN
        conf = cfg.ConfigOpts()
        opts._register(conf)
        conf(['--config-dir', r], project='verif')
        conf.set_override('policy_dirs', list(DIRS), group='oslo_policy')
        conf.set_override('policy_file', MAIN, group='oslo_policy')
        enw = (i % 2 == 0)
        conf.set_override('enforce_new_defaults', enw, group='oslo_policy')
        # the third enforcer merges instead of replacing (overwrite=False)
        ovw = not (i == 2 and not share)
        e = policy.Enforcer(conf, overwrite=ovw)
        e.suppress_deprecation_warnings = True
        e.register_defaults(shared)          # the SAME objects for every enforcer
        enfs.append({'e': e, 'fs': fs, 'enw': enw, 'ovw': ovw, 'steps': [], 'obs': [], 'k': 0})
    viol = None
    evals = 0
    for idx, act in actions:
        x = enfs[idx]
        force = 0
        if act in ('edit', 'editmain'):
            x['k'] += 1
            # first edit: an override under deprecated names appears; second: it is gone again; then others
            contents = [{'old_alpha': 'role:oldovr%d' % x['k'], 'old_delta': 'role:od'},
                        {},
                        {'alpha': 'role:newovr%d' % x['k']},
                        {'beta': 'role:edit%d_%d' % (idx, x['k'])}]
            if not x['ovw']:
                # the merging enforcer: the files are only rewritten with the SAME content (newer times), so that
                # "as loading once" stays the yardstick (merging keeps what later versions of a file drop, by design)
                if act == 'editmain':
                    x['fs'].touch_main()
                elif x['k'] % 2:
                    # ... or with another VALUE for the same names: merging replaces the value, as loading once does
                    x['fs'].write('policy.d', 'x.yaml', {'beta': 'role:dir2e%d' % min(x['k'], 7)}, 'json')
                else:
                    x['fs'].touch('policy.d', 'x.yaml')
            elif act == 'editmain':
                # the policy file itself is edited (or appears, or is emptied), the directory left alone
                if x['fs'].main is not None and x['k'] % 2 == 0:
                    x['fs'].write_main({}, 'yaml')           # zero bytes
                else:
                    x['fs'].write_main({'alpha': 'role:mainedit%d_%d' % (idx, x['k']), 'zeta': '@'}, 'yaml')
            elif (x['k'] - 1) % 4 == 1:
                x['fs'].delete('policy.d', 'x.yaml')        # the override is gone because its file is (another file stays)
            else:
                x['fs'].write('policy.d', 'x.yaml', contents[(x['k'] - 1) % 4], 'yaml')
            x['fs'].sync()
            x['e'].load_rules()
        elif act == 'load':
            x['e'].load_rules()
        elif act == 'forced':
            x['e'].load_rules(force_reload=True)
            force = 1
        elif evals % 2:
            # the implicit load belongs to every enforcement call, whichever way the rule is named
            from oslo_policy import _checks
            x['e'].enforce(_checks.RuleCheck('rule', 'alpha'), {}, {'roles': ['new_alpha']})
        else:
            x['e'].enforce('alpha', {}, {'roles': ['new_alpha']})
        evals += 1
        o = observe(x['e'])
        # loading again yields the same effective policy as loading once
        if x['obs'] and act not in ('edit', 'editmain') and x.get('seen_clock') == x['fs'].clock and o['rules'] != x['obs'][-1]['rules']:
            viol = ('not-idempotent', 'enforcer %d: %s changed the effective policy: %r -> %r'
                    % (idx, act, x['obs'][-1]['rules'], o['rules']),
                    {'kind': 'failing-input', 'suite': 'spec-c12',
                     'input': {'nenf': nenf, 'actions': [list(a) for a in actions], 'seed': seed},
                     'expected': x['obs'][-1]['rules'], 'observed': o['rules']})
            break
        # ... and as a brand-new enforcer (same options, same files, same shared objects) loading exactly once
        fe = policy.Enforcer(x['e'].conf, overwrite=x['ovw'])
        fe.suppress_deprecation_warnings = True
        fe.register_defaults(shared)
        fe.load_rules()
        fo = observe(fe)

        def unknown(enf):
            try:
                return [bool(enf.enforce(n, {}, {'roles': [r]})) for n in ('zz_unknown_name', 'theta') for r in PROBE_ROLES]
            except Exception as ex:   # noqa
                return 'EXC ' + type(ex).__name__
        if unknown(x['e']) != unknown(fe):
            viol = ('not-as-once', 'enforcer %d after %s: an unknown name and a registered default referring to a file rule, under %d '
                    'role sets, are decided %r, by a fresh enforcer loading the same files once %r'
                    % (idx, act, len(PROBE_ROLES), unknown(x['e']), unknown(fe)),
                    {'kind': 'failing-input', 'suite': 'spec-c12',
                     'input': {'nenf': nenf, 'actions': [list(a) for a in actions], 'seed': seed},
                     'expected': unknown(fe), 'observed': unknown(x['e'])})
            break
        if fo['rules'] != o['rules']:
            viol = ('not-as-once', 'enforcer %d after %s: effective policy %r differs from a fresh enforcer loading the same '
                    'files once: %r' % (idx, act, o['rules'], fo['rules']),
                    {'kind': 'failing-input', 'suite': 'spec-c12',
                     'input': {'nenf': nenf, 'actions': [list(a) for a in actions], 'seed': seed},
                     'expected': fo['rules'], 'observed': o['rules']})
            break
        x['steps'].append([x['fs'].wire(), force])
        x['obs'].append(o)
        x['seen_clock'] = x['fs'].clock      # the files as this enforcer last saw them (another enforcer may share them)
        after = snapshot(shared)
        if after != before:
            viol = ('registered-mutated', 'the RuleDefault objects the service passed in were altered by %s on enforcer %d'
                    % (act, idx),
                    {'kind': 'failing-input', 'suite': 'spec-c12',
                     'input': {'nenf': nenf, 'actions': [list(a) for a in actions], 'seed': seed},
                     'expected': before, 'observed': after})
            break
    corr = None
    # independence: each enforcer's states are a function of its OWN history (the model is pure)
    for i, x in enumerate(enfs):
        if not x['steps']:
            continue
        if not x['ovw']:
            continue        # (the model covers the default overwrite mode; this enforcer is judged by the statement alone)
        mod = model_history([x['enw'], enc_defaults(SHARED), 1], x['steps'])
        for j, (m, o) in enumerate(zip(mod, x['obs'])):
            if m != o:
                corr = ({'nenf': nenf, 'actions': [list(a) for a in actions], 'enforcer': i, 'step': j}, m, o)
                break
        if corr:
            break
    return viol, corr, evals


def _worker(args):
    idx, chunk = args
    import common
    common.setup_impl()
    common.WORK = os.path.join(common.VERIF, '_work', 'c12_%d_%d' % (os.getppid(), idx))
    root = fresh_root('c12_%d' % idx)
    out = [run_scenario(root, n, acts, seed) for n, acts, seed in chunk]
    shutil.rmtree(common.WORK, ignore_errors=True)
    return out


def run(run, binfo):
    tier, rng = run.tier, run.rng
    scen = []
    maxlen = 3 if tier == 'quick' else 4
    for nenf in (1, 2):
        moves = [(i, a) for i in range(nenf) for a in ACTIONS]
        for n in range(1, maxlen + 1):
            for seq in itertools.product(moves, repeat=n):
                scen.append((nenf, list(seq), len(scen)))
    if tier == 'quick':
        scen = [s for s in scen if s[0] == 1 or len(s[1]) <= 2] + [s for s in scen if s[0] == 2 and len(s[1]) == 3][::5]
    # two enforcers on the same files: every (first action of A, first action of B, who edits, what the other does next)
    k = 0
    for a1, a2, a3 in itertools.product(('load', 'enforce', 'forced'), repeat=3):
        for ed, nxt in ((0, 1), (1, 0)):
            for kind in ('edit', 'editmain'):
                scen.append((2, [(0, a1), (1, a2), (ed, kind), (nxt, a3), (ed, 'enforce')], 3 * (len(scen) + k)))
                k += 2      # keeps the seed a multiple of three: the shared-files variant
    nexh = len(scen)
    nrand = 40 if tier == 'quick' else 1500
    for _ in range(nrand):
        nenf = rng.randint(1, 3)
        scen.append((nenf, [(rng.randrange(nenf), rng.choice(ACTIONS)) for _ in range(rng.randint(4, 12))], len(scen)))
    import multiprocessing as mp
    nproc = 14
    chunks = [(i, scen[i::nproc]) for i in range(nproc)]
    with mp.get_context('fork').Pool(nproc) as pool:
        parts = pool.map(_worker, chunks)
    bad_corr = []
    for (i, chunk), part in zip(chunks, parts):
        for (nenf, acts, _), (viol, corr, evals) in zip(chunk, part):
            run.evaluations += evals
            run.nontrivial.add((nenf, tuple(acts)))
            if viol:
                run.violation(*viol)
            if corr:
                bad_corr.append(corr)
    run.count('exhaustive_interleavings', nexh)
    run.count('random_interleavings', nrand)
    run.sample({'nenf': scen[30][0], 'actions': [list(a) for a in scen[30][1]]})
    run.sample({'nenf': scen[-1][0], 'actions': [list(a) for a in scen[-1][1]]})
    run.extra['correspondence_disagreements'] = len(bad_corr)
    if bad_corr and not run.violations:
        c, m, o = bad_corr[0]
        run.violation('correspondence:S5', 'an enforcer\'s state is not the model\'s function of its own history',
                      {'kind': 'broken-obligation', 'obligation': 'correspondence suite S5 (independent enforcers)',
                       'input': c, 'model': m, 'observed': o, 'count': len(bad_corr)})
    run.rule = ('interleavings of {load, forced load, enforce, edit a directory file, edit / create / empty the policy file} up to length %d over 1-2 enforcers (exhaustive, strided for '
                'two enforcers in quick) and %d random interleavings of 4-12 actions over 1-3 enforcers, each enforcer with its own '
                'files (in a third of the scenarios two enforcers read the SAME files) and enforce_new_defaults value, all registering the SAME list of RuleDefault/DeprecatedRule objects (renamed, '
                'same-name and plain): effective policy after each non-edit action equals the previous one and after every action equals that of a fresh enforcer loading once, deep attribute '
                'snapshot (incl. object identities of the parsed checks) of the shared objects unchanged, and every enforcer\'s '
                'state equals the pure model run on its own history alone. non-trivial = distinct interleavings' % (maxlen, nrand))


def replay(run, rep):
    root = fresh_root('c12replay')
    inp = rep['input']
    viol, corr, _ = run_scenario(root, inp['nenf'], [tuple(a) for a in inp['actions']], inp.get('seed', 0))
    shutil.rmtree(root, ignore_errors=True)
    print('violation' if viol else 'no violation')
    return viol is None
