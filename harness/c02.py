"""C02: malformed rules and non-rule values never grant access."""
import itertools
import json

from common import enc_jv, run_batch
from c01 import ALPHA, WS, impl_parse, model_parse_answer, enforcer, gen_oexps, rand_oexp, render

GEN = ['GParser.v', 'GUnicode.v', 'GChecks.v']

CREDS = [{}, {'roles': []}, {'roles': ['admin']},
         {'roles': ['a', 'b', 'r0', 'r1', 'admin'], 'is_admin': True, 'user_id': 'u',
          'project_id': 'p', 'system_scope': 'all', 'domain_id': 'd'}]
TARGET = {'project_id': 'p', 'user_id': 'u', 'a': 'b', 'x': 'y'}


def grants(value, how):
    """load `value` as the definition of a rule by route `how`, then ask enforce.
    -> ('rejected', exc) | ('crash', exc) | ('decisions', [bool...])"""
    from oslo_policy import policy, _checks
    try:
        if how == 'from_dict':
            rules = policy.Rules.from_dict({'the_rule': value})
        elif how == 'json':
            rules = policy.Rules.load(json.dumps({'the_rule': value}))
        elif how == 'yaml':
            import yaml
            rules = policy.Rules.load(yaml.safe_dump({'the_rule': value, 'zzz': 'role:zz'},
                                                     default_flow_style=False))
        elif how == 'json+default':
            # a permissive default rule must not be what answers for a key the file does define
            rules = policy.Rules.load(json.dumps({'the_rule': value, 'default': '@'}), 'default')
        elif how == 'yaml+default':
            import yaml
            rules = policy.Rules.load(yaml.safe_dump({'default': '@', 'the_rule': value}), 'default')
        elif how == 'from_dict+default':
            rules = policy.Rules.from_dict({'the_rule': value, 'default': '@'}, 'default')
        else:
            raise ValueError(how)
    except Exception as e:   # noqa
        return ('rejected', type(e).__name__)
    got = dict.get(rules, 'the_rule')
    if got is None and how.endswith('+default'):
        pass        # the key was dropped: enforce below then answers from the default rule
    elif not isinstance(got, _checks.BaseCheck):
        return ('crash', 'loaded a %s, not a check' % type(got).__name__)
    e = enforcer()
    e.set_rules(rules, use_conf=False)
    out = []
    for c in CREDS:
        try:
            out.append(bool(e.enforce('the_rule', dict(TARGET), dict(c))))
        except Exception as ex:   # noqa
            return ('crash', type(ex).__name__)
    return ('decisions', out)


def corrupt(rng, toks):
    toks = list(toks)
    for _ in range(rng.randint(1, 3)):
        op = rng.randrange(5)
        pos = rng.randrange(len(toks) + 1)
        junk = rng.choice(['(', ')', 'and', 'or', 'not', 'AND', 'role:x', '"q"', "'q'", 'x', '@', '!',
                           'not)', '(or', '()', ')(', '""', "''", '("")', "''))", '"', "'"])
        if op == 0 and toks:
            del toks[min(pos, len(toks) - 1)]
        elif op == 1:
            toks.insert(pos, junk)
        elif op == 2 and toks:
            toks[min(pos, len(toks) - 1)] = junk
        elif op == 3:
            toks.insert(pos, rng.choice(['(', ')']))
        elif op == 4 and len(toks) > 1:
            i = rng.randrange(len(toks) - 1)
            toks[i], toks[i + 1] = toks[i + 1], toks[i]
    return toks


def rand_string(rng):
    pools = ['()', ' \t\n', 'andornotANDORNOT', 'abc:xyz', '"\'', '@!%', 'éßΣσςİı  　', '0123.,[]{}']
    n = rng.randint(1, 14)
    return ''.join(rng.choice(rng.choice(pools)) for _ in range(n))


def run(run, binfo):
    tier, rng = run.tier, run.rng
    texts = []
    maxlen = 5 if tier == 'quick' else 6
    for n in range(1, maxlen + 1):
        for tup in itertools.product(ALPHA, repeat=n):
            texts.append(' '.join(tup))
    # one-token rules
    singles = ['(', ')', 'and', 'or', 'not', 'AND', 'Or', 'nOt', '"abc"', "'abc'", '""', "''", 'abc',
               'a:', ':b', ':', '@', '!', '@@', '!!', 'role', 'rule', '%(x)s', '()', ')(', '((', '))',
               "'a:b'", '"a b"', 'not)', '(not', 'x' * 50, 'not ""', "not ''", '@ or ""', "@ and not ''", '(not "")',
               '"" or @', "'' and @", 'not not ""', '"" and ""', 'not "x"', "@ or 'x'", 'not ("")', '("") or @',
               # look-alikes of the constants and keywords are ordinary words (no colon: deny)
               '\uff20', '\ufe6b', '\uff01', 'not \uff01', '\uff20 or role:nobody', '\uff08@\uff09', '\uff21\uff2e\uff24',
               '{[]}:x', '{{}}:x', '{[1]}:%(a)s', '{None,[0]}:x', 'not {[]}:x', '@ or {{}}:x', '@\u200b', '\u200b@', '@\ufeff', '\uff52\uff4f\uff4c\uff45:admin', '@ \uff4f\uff52 @']
    texts += singles
    # every check kind the library knows (built in or loaded as an extension) with payloads that are hostile to whatever
    # that kind may do with its text when the rule is LOADED: loading a string never fails
    from oslo_policy import _checks
    kinds = sorted(k for k in list(_checks.registered_checks) + list(_checks.get_extensions()) if k) + ['x', 'HTTP', 'Role']
    payloads = ['', '[', ']', '//[::1/p', '//host]/p', '//[host]/p', '//[::1]:x/p', '//ex\u2100mple/p', '//h:99999999/p',
                '%', '%(', '%(x', '%(x)', '%d', '%(x)d', '%%', '\x00', '//', '///', '//@', '//:@:/', '//\uff0f/',
                '{', '}', '{}', '{0}', '\\', '//h/\ud7ff', 'a:b:c', '::', '//[', '//]', '//[]', '//[v1.x]/', '//[::1%25eth0]/']
    for kd in kinds:
        for pl in payloads:
            texts.append('%s:%s' % (kd, pl))
        texts.append('not %s:%s' % (kd, payloads[3]))
        texts.append('@ or %s:%s' % (kd, payloads[5]))
    # corruptions of valid rules
    ncorr = 1500 if tier == 'quick' else 30000
    names = ['r%d' % i for i in range(6)]
    for _ in range(ncorr):
        o = rand_oexp(rng, rng.randint(1, 12), 3)
        # plain token texts of the sentence (python-side; only the shape matters here)
        toks = sentence_tokens(o, names)
        texts.append(rng.choice(WS).join(corrupt(rng, toks)) if rng.random() < 0.3
                     else ' '.join(corrupt(rng, toks)))
    nrand = 1500 if tier == 'quick' else 30000
    for _ in range(nrand):
        texts.append(rand_string(rng))
    texts = [t for t in texts]
    run.count('texts', len(texts))

    spec = run_batch([[7, [], enc_jv(t)] for t in texts])
    model = run_batch([[2, [], enc_jv(t)] for t in texts])
    disagreements = []
    nonsent = 0
    for t, sp, ma in zip(texts, spec, model):
        run.evaluations += 1
        m = model_parse_answer(ma)
        i = impl_parse(t)
        if m != i:
            disagreements.append((t, m, i))
        shaped, sent = bool(sp[0]), bool(sp[1])
        if i[0] != 'ok':
            run.violation('load:' + i[0], 'parse_rule(%r) -> %r: loading a string must yield a check' % (t, i),
                          {'kind': 'failing-input', 'suite': 'spec-c02', 'input': {'value': t, 'how': 'from_dict'},
                           'observed': i})
            continue
        word = t.strip()
        if sent and word and not any(ch.isspace() for ch in word) and ':' not in word and \
                word.strip('()') == word and word not in ('@', '!') and word.lower() not in ('and', 'or', 'not') and \
                not (len(word) >= 2 and word[0] == word[-1] and word[0] in '"\''):
            # a single check that is not of the form kind:match behaves as '!'
            g = grants(t, 'from_dict')
            if g[0] == 'decisions' and not any(g[1]):
                g = grants(t, 'from_dict+default')
            if g[0] != 'decisions' or any(g[1]):
                run.violation('bad-leaf-grants', 'the one-word rule %r (no colon) does not deny: %r' % (t, g),
                              {'kind': 'failing-input', 'suite': 'spec-c02',
                               'input': {'value': t, 'how': 'from_dict'}, 'expected': 'deny for all credentials',
                               'observed': g})
        if not sent:
            nonsent += 1
            if any('Σ' in t or 'İ' in t for _ in [0]) and False:
                continue
            g = grants(t, 'from_dict')
            if g[0] == 'decisions' and not any(g[1]):
                g = grants(t, 'from_dict+default')
            if g[0] != 'decisions' or any(g[1]):
                run.violation('nonsentence-grants', 'the non-sentence %r does not deny: %r' % (t, g),
                              {'kind': 'failing-input', 'suite': 'spec-c02',
                               'input': {'value': t, 'how': 'from_dict'}, 'expected': 'deny for all credentials',
                               'observed': g})
            else:
                run.nontrivial.add(t)
    run.count('nonsentences', nonsent)
    run.sample({'suite': 'spec-c02 text', 'value': texts[len(texts) // 2]})

    # ---- rule values of every JSON type and shape
    scalars = [None, True, False, 0, 1, -1, 5, 0.0, 1.5, '', 'role:admin', '@', '!', 'not', {}, {'role:admin': 1},
               {'@': '@'}, [], [[]], [''], ['@'], [None], [0], [1], [True], [False], [{}], [{'role:admin': 1}],
               [[None]], [[1]], [['@', 1]], [['role:admin'], None], [['role:admin'], 0], [['role:admin'], 5],
               [[5], 'role:admin'], [[['role:admin']]], [['@'], ['@', ['@']]], ['@', {'a': 1}], [1.5], [[1.5]],
               [['role:admin', None]], [['role:admin'], [None]], [['@'], {}], [['@'], []], [[], []], ['', ''],
               [['role:admin', 'role:a']], ['role:admin', 'role:a'], [['!'], 'role:admin']]
    vals = list(scalars)
    for a in scalars[:16]:
        vals.append([a])
        vals.append([[a]])
        vals.append([['role:admin'], a])
        vals.append([[a, 'role:admin']])
    specv = run_batch([[7, [], enc_jv(v)] for v in vals])
    modelv = run_batch([[2, [], enc_jv(v)] for v in vals])
    for v, sp, ma in zip(vals, specv, modelv):
        shaped = bool(sp[0])
        m = model_parse_answer(ma)
        i = impl_parse(v)
        if m != i:
            disagreements.append((v, m, i))
        for how in ('from_dict', 'json', 'yaml', 'from_dict+default', 'json+default', 'yaml+default'):
            run.evaluations += 1
            g = grants(v, how)
            if shaped:
                if g[0] != 'decisions':
                    run.violation('shaped-load:' + g[0], 'rule value %r via %s: %r (must load and evaluate)' % (v, how, g),
                                  {'kind': 'failing-input', 'suite': 'spec-c02', 'input': {'value': v, 'how': how},
                                   'observed': g})
                elif len(set(g[1])) > 1:
                    run.nontrivial.add(repr(v))
            else:
                if g[0] == 'crash' or (g[0] == 'decisions' and any(g[1])):
                    run.violation('nonrule-grants', 'non-rule value %r via %s is not rejected and does not deny: %r'
                                  % (v, how, g),
                                  {'kind': 'failing-input', 'suite': 'spec-c02', 'input': {'value': v, 'how': how},
                                   'expected': 'rejected at load, or deny for all credentials', 'observed': g})
                else:
                    run.nontrivial.add(repr(v))
    # values are parsed one by one: a string that merely LOOKS like an earlier value of the same document (its str() or
    # JSON form) is a string, and not a sentence of the language
    from oslo_policy import policy as _pol
    for v in [[], ['@'], [['@']], ['role:admin'], [['role:admin']], [[]], ['role:admin', '@'], [['role:admin'], ['@']]]:
        for text in (str(v), json.dumps(v), repr(v).replace("'", '"')):
            for how in ('from_dict', 'json', 'yaml'):
                doc = {'a_first': v, 'the_rule': text, 'default': '@'}
                run.evaluations += 1
                try:
                    if how == 'from_dict':
                        rules = _pol.Rules.from_dict(doc, 'default')
                    elif how == 'json':
                        rules = _pol.Rules.load(json.dumps(doc), 'default')
                    else:
                        import yaml as _yaml
                        rules = _pol.Rules.load(_yaml.safe_dump(doc), 'default')
                    e = enforcer()
                    e.set_rules(rules, use_conf=False)
                    g = [bool(e.enforce('the_rule', dict(TARGET), dict(c))) for c in CREDS]
                except Exception as ex:   # noqa
                    g = 'EXC ' + type(ex).__name__
                if g != [False] * len(CREDS):
                    run.violation('nonsentence-grants', 'in the document %r the string %r does not deny: %r' % (doc, text, g),
                                  {'kind': 'failing-input', 'suite': 'spec-c02', 'input': {'document': doc, 'how': how},
                                   'expected': 'deny for all credentials', 'observed': g})
    # values only Python callers or YAML's own tags can produce (byte strings, sets, complex numbers): not rules either
    import yaml
    exotic = [b'', bytearray(b''), b'x', b'@', ['@', b''], [['role:admin'], b''], [[b'']], set(), frozenset(['@']), {'@'},
              0j, ['@', set()], [('@',), b'']]      # (tuples count as lists for Python callers)
    for v in exotic:
        for how in ('from_dict', 'from_dict+default', 'yaml', 'yaml+default'):
            if how.startswith('yaml'):
                try:
                    yaml.safe_dump({'the_rule': v})
                except Exception:   # noqa
                    continue
            run.evaluations += 1
            g = grants(v, how)
            if g[0] == 'crash' or (g[0] == 'decisions' and any(g[1])):
                run.violation('nonrule-grants', 'non-rule value %r via %s is not rejected and does not deny: %r'
                              % (v, how, g),
                              {'kind': 'failing-input', 'suite': 'spec-c02', 'input': {'value': repr(v), 'how': how},
                               'expected': 'rejected at load, or deny for all credentials', 'observed': g})
            else:
                run.nontrivial.add(repr(v))
    # rule-shaped list values: the decision is the documented OR of ANDs, where a member that is not
    # of the form kind:match behaves as '!'  (extracted spec_list)
    from common import S
    shaped_lists = [v for v, sp in zip(vals, specv) if bool(sp[0]) and isinstance(v, list)]
    shaped_lists += [[['']], [['', '']], [['', '@']], [['', 'role:admin']], [['role:admin', '']], [[''], ['role:admin']],
                     [['x']], [['x', '@']], ['', ['@']], [['@', '@'], ['']]]
    role_sets = [[], ['admin'], ['a']]
    lreqs = [[6, [], enc_jv(v), [S(r) for r in rs]] for v in shaped_lists for rs in role_sets]
    lans = run_batch(lreqs)
    k = 0
    from oslo_policy import policy
    e = enforcer()
    for v in shaped_lists:
        e.set_rules(policy.Rules.from_dict({'the_rule': v}), use_conf=False)
        for rs in role_sets:
            shaped, want = lans[k]
            k += 1
            run.evaluations += 1
            try:
                got = bool(e.enforce('the_rule', {}, {'roles': rs}))
            except Exception as ex:   # noqa
                got = 'EXC ' + type(ex).__name__
            if shaped and got != bool(want):
                run.violation('list-member', 'list rule %r with roles %r decides %r, documented %r' % (v, rs, got, bool(want)),
                              {'kind': 'failing-input', 'suite': 'spec-c02', 'input': {'value': v, 'how': 'from_dict'},
                               'expected': bool(want), 'observed': got})
    run.count('rule_values', len(vals))
    run.sample({'suite': 'spec-c02 value', 'value': vals[20]})

    run.extra['correspondence_disagreements'] = len(disagreements)
    if disagreements and not run.violations:
        t, m, i = disagreements[0]
        run.violation('correspondence:S2', 'model and implementation parse %r differently' % (t,),
                      {'kind': 'broken-obligation', 'obligation': 'correspondence suite S2 (parse_rule)',
                       'input': t, 'model': m, 'observed': i, 'count': len(disagreements)})
    run.rule = ('all token sequences of length <= %d, %d one-token rules, %d corruptions of valid rules, %d random '
                'ASCII/Unicode strings: extracted oracle "is a sentence" (parse_tokens succeeds; = grammar membership by the '
                'completeness and soundness theorems) -> a non-sentence must load as a check and deny for %d credentials; '
                '%d JSON/YAML values of every type alone and inside list-of-lists through from_dict / JSON / YAML load: '
                'not rule-shaped -> rejected or deny. non-trivial = a non-sentence or non-rule value (distinct)'
                % (maxlen, len(singles), ncorr, nrand, len(CREDS), len(vals)))


def sentence_tokens(o, names):
    def O(o):
        return A(o[1]) if o[0] == 0 else O(o[1]) + ['or'] + A(o[2])

    def A(a):
        return X(a[1]) if a[0] == 0 else A(a[1]) + ['and'] + X(a[2])

    def X(x):
        if x[0] == 0:
            return ['not'] + X(x[1])
        if x[0] == 1:
            return ['role:' + names[x[1]]]
        return ['('] + O(x[1]) + [')']
    return O(o)


def replay(run, rep):
    inp = rep.get('input')
    if isinstance(inp, dict) and 'how' in inp:
        g = grants(inp['value'], inp['how'])
        print('observed', g)
        sp = run_batch([[7, [], enc_jv(inp['value'])]])[0]
        shaped, sent = bool(sp[0]), bool(sp[1])
        if isinstance(inp['value'], str):
            return sent or (g[0] == 'decisions' and not any(g[1]))
        if shaped:
            return g[0] == 'decisions'
        return g[0] == 'rejected' or (g[0] == 'decisions' and not any(g[1]))
    print('replay names a broken obligation:', rep.get('obligation'))
    return False
