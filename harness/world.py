"""Enforcement cases: one representation, sent both to the model (suite 4) and to the real
Enforcer (fresh ConfigOpts + Enforcer per case)."""
import os
import ast
import re

from common import S, enc_jv, run_batch, exn_name, unS, EXN_CODE

NOT_MAPPING = '<<NOT-A-MAPPING>>'

# harness-registered check classes: kind -> (id, arity)
CUSTOM = {'c3a': 30, 'c3b': 31, 'c3k': 32, 'c3o': 33, 'c4a': 40, 'c4b': 41}
EXTRA = [[S(k), 10 + i] for k, i in CUSTOM.items()]

_trace = []
_custom_results = {}
_registered = False


def register_custom():
    global _registered
    if _registered:
        return
    from oslo_policy import _checks

    classes = {}

    def mk(kind, ident, arity):
        # the classes are related by inheritance ACROSS arities: c4b (four parameters, the fourth not named
        # current_rule) derives from the three-parameter c3a, and c3b (three parameters) from the four-parameter c4a
        # ... and the three-parameter c3a derives from a built-in concrete check (RuleCheck)
        base = {41: classes.get('c3a'), 31: classes.get('c4a'), 30: _checks.RuleCheck}.get(ident) or _checks.Check
        if ident == 32:
            # three named parameters and **kwargs: still a three-argument check
            class C(base):
                def __call__(self, target, creds, enforcer, **kwargs):
                    _trace.append(('custom', ident, 'NOARG' if not kwargs else 'KWARGS'))
                    r = _custom_results.get(kind, True)
                    if isinstance(r, BaseException):
                        raise r
                    return r
        elif ident == 33:
            # ... and a keyword-only parameter
            class C(base):
                def __call__(self, target, creds, enforcer, *, strict=True):
                    _trace.append(('custom', ident, 'NOARG'))
                    r = _custom_results.get(kind, True)
                    if isinstance(r, BaseException):
                        raise r
                    return r
        elif arity == 3:
            class C(base):
                def __call__(self, target, creds, enforcer):
                    _trace.append(('custom', ident, 'NOARG'))
                    r = _custom_results.get(kind, True)
                    if isinstance(r, BaseException):
                        raise r
                    return r
        elif ident == 41:
            # four arguments, but the fourth is not NAMED current_rule: _check goes by arity
            class C(base):
                def __call__(self, target, creds, enforcer, rule_name=None):
                    _trace.append(('custom', ident, rule_name))
                    r = _custom_results.get(kind, True)
                    if isinstance(r, BaseException):
                        raise r
                    return r
        else:
            class C(base):
                def __call__(self, target, creds, enforcer, current_rule=None):
                    _trace.append(('custom', ident, current_rule))
                    r = _custom_results.get(kind, True)
                    if isinstance(r, BaseException):
                        raise r
                    return r
        C.__name__ = 'Custom_' + kind
        classes[kind] = C
        return C
    for kind, ident in sorted(CUSTOM.items(), key=lambda kv: kv[1] % 10):     # bases (30, 40) first
        _checks.register(kind, mk(kind, ident, 3 if ident < 40 else 4))
    _registered = True


class Fault(Exception):
    pass


def install_http_stub(outcome):
    """replace requests.post inside oslo_policy._external by a recording stub"""
    from oslo_policy import _external
    import requests

    def Reply(body):
        # a REAL requests.Response (its truth value follows the status code, .text decodes .content, ...)
        r = requests.Response()
        r.status_code = outcome[2] if len(outcome) > 2 else 200
        r._content = body if isinstance(body, bytes) else body.encode('utf-8')
        r.encoding = 'utf-8'
        r.url = 'http://stub/'
        return r

    def post(url, json=None, data=None, timeout=None, **kw):
        rule = json['rule'] if json is not None else __import__('json').loads(data['rule'])
        _trace.append(('http', url, rule))
        _last_request.clear()
        _last_request.update({'url': url, 'json': json, 'data': data, 'timeout': timeout, 'kw': kw})
        if outcome[0] == 'reply':
            return Reply(outcome[1])
        if outcome[0] == 'timeout':
            raise requests.exceptions.Timeout('stub')
        if outcome[0] == 'fault':
            raise {'ConnectionError': requests.exceptions.ConnectionError,
                   'SSLError': requests.exceptions.SSLError,
                   'Fault': Fault}[outcome[1]]('stub')
        raise AssertionError(outcome)
    _external.requests.post = post


_last_request = {}


class CustomExc(Exception):
    def __init__(self, *args, **kwargs):
        super().__init__(*args)
        self.got_args = args
        self.got_kwargs = kwargs


def kinds_of(texts):
    """left sides of every check in the given rule values (a superset is fine)"""
    ks = set()
    for t in texts:
        if isinstance(t, str):
            for w in re.split(r'[\s]+', t):
                w = w.lstrip('(').rstrip(')')
                if ':' in w:
                    ks.add(w.split(':', 1)[0])
        elif isinstance(t, (list, tuple)):
            for entry in t:
                members = [entry] if isinstance(entry, str) else entry
                if isinstance(members, (list, tuple)):
                    for m in members:
                        if isinstance(m, str) and ':' in m:
                            ks.add(m.split(':', 1)[0])
    return ks


def lit_table(kinds):
    out = []
    for k in sorted(kinds):
        try:
            v = str(ast.literal_eval(k))
            out.append([S(k), [0, S(v)]])
        except RecursionError:
            out.append([S(k), [1, 8]])
        except MemoryError:
            out.append([S(k), [1, 9]])
        except Exception as e:   # noqa
            out.append([S(k), [1, EXN_CODE.get(type(e).__name__, 1099)]])
    return out


def all_rule_texts(case):
    texts = list(case['rules'].values())
    if case['rule'][0] == 'obj':
        texts.append(case['rule'][1])
    if case['default'][0] == 'check':
        texts.append(case['default'][1])
    return texts


def enc_default(d):
    if d[0] == 'none':
        return [0]
    if d[0] in ('name', 'conf'):
        return [1, S(d[1])]
    if d[0] == 'name_empty':
        return [1, S('default')]        # the option's stock value
    if d[0] == 'check':
        return [2, enc_jv(d[1])]
    if d[0] == 'dict':
        return [3]
    raise ValueError(d)


def enc_http(h):
    if h[0] == 'reply':
        # what the server sent, as text: undecodable bytes are U+FFFD (requests' own decoding of the body)
        return [0, S(h[1].decode('utf-8', 'replace') if isinstance(h[1], bytes) else h[1])]
    if h[0] == 'timeout':
        return [1]
    return [2, 1000 + 1]


def enc_case(case):
    if case.get('creds_as') in ('context', 'policy_values', 'policy_values+system') and isinstance(case['creds'], dict):
        # the model is given the plain-dict equivalent of whatever representation the implementation gets
        pv = convert_creds('policy_values', case['creds'])
        m = dict(case)
        m['creds'] = {k: pv[k] for k in pv}
        if case['creds_as'] == 'policy_values+system':
            m['creds']['system'] = 'all'
        m.pop('creds_as')
        return enc_case(m)
    custom = []
    for kind, ident in CUSTOM.items():
        r = case.get('custom', {}).get(kind, True)
        if isinstance(r, BaseException):
            custom.append([ident, [1, EXN_CODE.get(type(r).__name__, 1002)]])
        else:
            custom.append([ident, [0, 1 if r else 0]])
    # what the enforcer's rule store holds once loaded: the given rules, plus (when they come from files and the
    # enforcer merges its registered defaults) every registered default the files do not define
    world = [[[S(k), enc_jv(v)] for k, v in case.get('model_rules', case['rules']).items()],
             enc_default(case['default']),
             enc_jv(case['target']),
             enc_jv({} if case['creds'] == NOT_MAPPING else case['creds']),
             lit_table(kinds_of(all_rule_texts(case))),
             enc_http(case.get('http', ('reply', 'True'))),
             custom]
    reg = [[S(k), [S(t) for t in (v or [])]] for k, v in case.get('registered', {}).items()]
    ectx = [world, reg, bool(case.get('enforce_scope', True))]
    ca = [1] if case['creds'] == NOT_MAPPING else [0, enc_jv(case['creds'])]
    if case['rule'][0] == 'name':
        ra = [0, S(case['rule'][1])]
    else:
        ra = [1, enc_jv(case['rule'][1]), [S(t) for t in (case['rule'][2] or [])]]
    exc = [] if case.get('exc') is None else [case['exc']]
    return [4, EXTRA, ectx, ca, ra, bool(case.get('do_raise')), exc, bool(case.get('authorize'))]


def dec_answer(ans):
    """model answer -> (result, trace) in the implementation runner's vocabulary"""
    if ans[0] == -1 or not isinstance(ans[0], list):
        return ('MODEL-REFUSED', ans), []
    r = ans[0]
    if r[0] == 0:
        res = ('ret', bool(r[1]))
    elif r[0] == 1:
        res = ('exc', exn_name(r[1]))
    else:
        res = ('exc', 'OutOfFuel')
    tr = []
    for e in ans[1]:
        cur = unS(e[2][0]) if e[2] else None
        if e[0] == 0:
            tr.append(('custom', e[1], cur if e[1] >= 40 else 'NOARG'))
        else:
            tr.append(('http', unS(e[1]), cur))
    return res, tr


def run_impl(case, deep=None):
    """-> (result, trace); result = ('ret', truthiness) | ('exc', class name)"""
    from oslo_config import cfg
    from oslo_policy import policy, _parser
    register_custom()
    del _trace[:]
    _custom_results.clear()
    _custom_results.update(case.get('custom', {}))
    install_http_stub(case.get('http', ('reply', 'True')))
    d = case['default']
    conf = fresh_conf()
    kw = {'policy_file': 'policy.yaml'}
    if d[0] == 'name':
        kw['default_rule'] = d[1]
    elif d[0] == 'name_empty':
        kw['default_rule'] = ''         # an empty constructor argument means "not given": the option decides
    elif d[0] == 'check':
        kw['default_rule'] = _parser.parse_rule(d[1])
    elif d[0] == 'dict':
        kw['default_rule'] = {'a': 'b'}
    if d[0] == 'none':
        conf.set_override('policy_default_rule', '', group='oslo_policy')
    elif d[0] == 'conf':
        conf.set_override('policy_default_rule', d[1], group='oslo_policy')
    conf.set_override('enforce_scope', bool(case.get('enforce_scope', True)), group='oslo_policy')
    for k, v in case.get('conf', {}).items():
        conf.set_override(k, v, group='oslo_policy')
    try:
        return _run_impl_built(case, deep, conf, kw, policy, _parser)
    except _Construction as ex:
        return ('exc', ex.args[0], ex.args[1]), []


class _Construction(Exception):
    pass


def _construct(policy, conf, **kw):
    """what building the enforcer raises is what the service sees instead of a decision"""
    try:
        return policy.Enforcer(conf, **kw)
    except Exception as ex:   # noqa
        raise _Construction(type(ex).__name__, str(ex)[:200])


def _run_impl_built(case, deep, conf, kw, policy, _parser):
    d = case['default']
    if case.get('content_json'):
        # remote checks post JSON instead of the default form encoding
        conf.set_override('remote_content_type', 'application/json', group='oslo_policy')
    if 'enforce_scope_at_init' in case:
        # the option has another value while the enforcer is built than when it is asked
        conf.set_override('enforce_scope', bool(case['enforce_scope_at_init']), group='oslo_policy')
    if case.get('from_file'):
        # the rule set reaches the enforcer the way an operator's does: a policy file, loaded
        import json as _json
        from common import work_dir
        kw['policy_file'] = os.path.join(work_dir(), 'pf_%d.json' % os.getpid())
        with open(kw['policy_file'], 'w') as f:
            if case.get('file_text') is not None:
                f.write(case['file_text'])      # another spelling of the same (empty) rule set
            else:
                _json.dump(case['rules'], f)
        e = _construct(policy, conf, **kw)
    elif case.get('from_dir'):
        # ... or only a policy directory, with no policy file at all
        import json as _json
        import shutil as _shutil
        from common import work_dir
        d = os.path.join(work_dir(), 'pd_%d' % os.getpid())
        _shutil.rmtree(d, ignore_errors=True)
        os.makedirs(d)
        with open(os.path.join(d, 'rules.json'), 'w') as f:
            _json.dump(case['rules'], f)
        conf.set_override('policy_dirs', [d], group='oslo_policy')
        kw['policy_file'] = 'absent_%d.yaml' % os.getpid()
        e = _construct(policy, conf, **kw)
    else:
        e = _construct(policy, conf, use_conf=False, **kw)
    if 'enforce_scope_at_init' in case:
        conf.set_override('enforce_scope', bool(case.get('enforce_scope', True)), group='oslo_policy')
    for name, types in case.get('registered', {}).items():
        e.register_default(policy.RuleDefault(name, case.get('registered_check', {}).get(name, '!'),
                                              scope_types=types))      # None, or a list (possibly empty)
    carrier = case.get('carrier', 'rules_same')
    if case.get('from_file') or case.get('from_dir'):
        try:
            e.load_rules()
        except Exception as ex:   # noqa
            # loading is part of every enforcement call: what it raises is what the caller of enforce sees
            return ('exc', type(ex).__name__, str(ex)[:200]), []
    elif case.get('prehistory') is not None and carrier == 'rules_same':
        # the rule store has a past: SOME names had other definitions (the rest already what they are now), the
        # enforced rule and an undefined name were evaluated under them, and then the current definitions of
        # exactly those names were written over the old ones in place -- every other check object stays the same
        pre = dict(case['rules'])
        pre.update(case['prehistory'])
        e.set_rules(policy.Rules.from_dict(pre, e.default_rule), use_conf=False)
        for probe in ([case['rule'][1]] if case['rule'][0] == 'name' else []) + ['zz_probe_undefined']:
            try:
                e.enforce(probe, dict(case['target']) if isinstance(case['target'], dict) else {},
                          {'roles': ['x', 'y', 'r0', 'r1']})
            except Exception:   # noqa
                pass
        e.set_rules(policy.Rules.from_dict({n: case['rules'][n] for n in case['prehistory']}), overwrite=False,
                    use_conf=False)
        del _trace[:]
        _last_request.clear()
    elif carrier == 'dict':
        e.set_rules({k: _parser.parse_rule(v) for k, v in case['rules'].items()}, use_conf=False)
    elif carrier == 'rules_other':
        # a Rules object that carries a DIFFERENT default rule than the enforcer is configured with
        e.set_rules(policy.Rules.from_dict(case['rules'], case.get('carrier_default', 'zz_other')), use_conf=False)
    elif carrier == 'rules_none':
        e.set_rules(policy.Rules.from_dict(case['rules']), use_conf=False)
    elif carrier == 'rules_shared':
        # ONE parsed Rules object handed to this enforcer and then to another enforcer with another default rule
        shared = policy.Rules.from_dict(case['rules'], e.default_rule)
        e.set_rules(shared, use_conf=False)
        other = policy.Enforcer(conf, use_conf=False, policy_file='policy.yaml',
                                default_rule=case.get('carrier_default', 'zz_other'))
        other.set_rules(shared, use_conf=False)
        try:
            other.enforce('zz_probe_undefined', {}, {'roles': ['x', 'y']})
        except Exception:   # noqa
            pass
        other2 = policy.Enforcer(conf, use_conf=False, policy_file='policy.yaml', default_rule=_parser.parse_rule('@'))
        other2.set_rules(shared, use_conf=False)
    else:
        e.set_rules(policy.Rules.from_dict(case['rules'], e.default_rule), use_conf=False)
    if case['rule'][0] == 'name':
        rule = case['rule'][1]
    else:
        # other check objects parsed from the same texts carry scope types of their own: what one object was given says
        # nothing about another
        for txt in (case['rule'][1], '@', '!', ''):
            decoy = _parser.parse_rule(txt)
            try:
                decoy.scope_types = ['decoy_scope']
            except Exception:   # noqa
                pass
        rule = _parser.parse_rule(case['rule'][1])
        if case['rule'][2]:
            rule.scope_types = case['rule'][2]
    creds = case['creds']
    if creds == NOT_MAPPING:
        creds = ['not', 'a', 'mapping']
    elif case.get('creds_as'):
        creds = convert_creds(case['creds_as'], creds)
    args = case.get('exc_args', ())
    kwargs = case.get('exc_kwargs', {})
    exc = None
    if case.get('exc') is not None:
        exc = CustomExc
    fn = e.authorize if case.get('authorize') else e.enforce
    if case.get('debug'):
        _debug_logging(True)
    import copy
    target = copy.deepcopy(case['target']) if deep is None else deep
    if isinstance(creds, dict):
        creds = copy.deepcopy(creds)
    if deep is None and isinstance(target, dict) and case.get('warm', True):
        # The SAME enforcer, check objects, target object and credentials object first see other contents:
        # a decision may depend only on what the objects hold at the time of the call.
        real_t = dict(target)
        real_c = dict(creds) if type(creds) is dict else None
        target.clear()
        target.update({k: v + '_decoy' for k, v in real_t.items() if isinstance(v, str)})
        saved_lists = {}
        if real_c is not None:
            for k, v in real_c.items():
                if isinstance(v, list):
                    saved_lists[k] = list(v)
                    v[:] = [r + '_decoy' for r in v if isinstance(r, str)]      # the SAME list object, other members
            creds.clear()
            creds.update({k: v for k, v in real_c.items() if k != 'system_scope'})
        ctx_roles = None
        if hasattr(creds, 'to_policy_values') and hasattr(creds, 'roles'):
            ctx_roles = creds.roles
            creds.roles = [r + '_decoy' for r in (ctx_roles or [])]           # the SAME context object, other roles
        if case['rule'][0] != 'name' and case['rule'][2]:
            # a check object with the same text but OTHER scope types was enforced on this enforcer before
            twin = _parser.parse_rule(case['rule'][1])
            twin.scope_types = [t for t in ('system', 'domain', 'project') if t not in case['rule'][2]] or ['domain']
            try:
                e.enforce(twin, target, creds, False)
            except Exception:   # noqa
                pass
        # ... and so does every option that is read per call: the warm-up runs under the other payload encoding
        ct = conf.oslo_policy.remote_content_type
        conf.set_override('remote_content_type', 'application/json' if ct != 'application/json'
                          else 'application/x-www-form-urlencoded', group='oslo_policy')
        try:
            e.enforce(rule, target, creds, False)
        except Exception:   # noqa
            pass
        conf.set_override('remote_content_type', ct, group='oslo_policy')
        target.clear()
        target.update(real_t)
        if ctx_roles is not None:
            creds.roles = ctx_roles
        if real_c is not None:
            for k, v in saved_lists.items():
                real_c[k][:] = v
            creds.clear()
            creds.update(real_c)
        del _trace[:]
        _last_request.clear()
    try:
        r = fn(rule, target, creds, bool(case.get('do_raise')), exc, *args, **kwargs)
        res = ('ret', bool(r))
    except CustomExc as ex:
        res = ('exc', 'Custom%d' % case['exc'], repr(ex.got_args), repr(sorted(ex.got_kwargs.items())))
    except RecursionError:
        res = ('exc', 'OutOfFuel')
    except Exception as ex:   # noqa
        res = ('exc', type(ex).__name__, str(ex)[:200])
    finally:
        if case.get('debug'):
            _debug_logging(False)
    if case.get('snapshot'):
        same_creds = True
        if isinstance(creds, dict) and isinstance(case['creds'], dict):
            same_creds = ({k: v for k, v in creds.items() if k != 'system'} ==
                          {k: v for k, v in case['creds'].items() if k != 'system'})
        res = res + (('unchanged', target == case['target'] and same_creds),)
    return res, list(_trace)


def _debug_logging(on):
    import logging
    from oslo_policy import policy
    lg = policy.LOG
    if on:
        logging.disable(logging.NOTSET)
        if not lg.handlers:
            lg.addHandler(logging.NullHandler())
        lg.propagate = False
        lg.setLevel(logging.DEBUG)
    else:
        lg.setLevel(logging.NOTSET)
        logging.disable(logging.CRITICAL)


_conf = None


def fresh_conf():
    """one ConfigOpts per process, overrides cleared between cases"""
    global _conf
    from oslo_config import cfg
    from oslo_policy import opts
    if _conf is None:
        _conf = cfg.ConfigOpts()
        _conf([], project='verif')
        opts._register(_conf)
    _conf.clear_override('policy_default_rule', group='oslo_policy')
    _conf.clear_override('enforce_scope', group='oslo_policy')
    _conf.clear_override('policy_dirs', group='oslo_policy')
    for k in ('enforce_new_defaults', 'remote_content_type', 'remote_timeout',
              'remote_ssl_verify_server_crt', 'remote_ssl_ca_crt_file',
              'remote_ssl_client_crt_file', 'remote_ssl_client_key_file'):
        _conf.clear_override(k, group='oslo_policy')
    return _conf


def convert_creds(how, creds):
    from oslo_context import context
    if how == 'dict':
        return dict(creds)
    ctx = context.RequestContext(**creds)
    if how == 'context':
        return ctx
    if how == 'policy_values':
        return ctx.to_policy_values()
    if how == 'policy_values+system':
        # the mapping a service gets from its context, with the legacy spelling added by the service
        pv = ctx.to_policy_values()
        pv['system'] = 'all'
        return pv
    raise ValueError(how)


def _impl_chunk(cases):
    import common
    common.setup_impl()
    return [run_impl(c) for c in cases]


def run_impl_many(cases, procs=14):
    if len(cases) < 400:
        return [run_impl(c) for c in cases]
    import multiprocessing as mp
    n = max(1, min(procs, len(cases) // 200))
    size = (len(cases) + n - 1) // n
    chunks = [cases[i:i + size] for i in range(0, len(cases), size)]
    with mp.get_context('fork').Pool(n) as pool:
        parts = pool.map(_impl_chunk, chunks)
    return [r for part in parts for r in part]


def run_cases(cases):
    """-> list of (model_result, model_trace, impl_result, impl_trace)"""
    answers = run_batch([enc_case(c) for c in cases])
    impl = run_impl_many(cases)
    out = []
    for a, (ires, itr) in zip(answers, impl):
        mres, mtr = dec_answer(a)
        out.append((mres, mtr, ires, itr))
    return out


def agree(mres, ires):
    """model/implementation results agree; the model's OutOfFuel stands for whatever CPython
    raises when the recursion limit is hit (RecursionError, or TypeError out of inspect)"""
    if mres == ('exc', 'OutOfFuel'):
        return ires[0] == 'exc'
    return tuple(mres[:2]) == tuple(ires[:2])


def out_of_model(mres):
    """the model declared the case outside its domain (non-%(key)s format, oracle not told)"""
    return mres[0] == 'MODEL-REFUSED' or (mres[0] == 'exc' and mres[1].startswith('Other9'))


def base_case(**kw):
    c = {'rules': {}, 'default': ('none',), 'target': {}, 'creds': {}, 'registered': {},
         'enforce_scope': True, 'rule': ('name', 'r'), 'do_raise': False, 'exc': None,
         'authorize': False}
    c.update(kw)
    return c


def describe(case):
    d = {k: v for k, v in case.items() if not k.startswith('_')}
    return d
