"""C01: rule expressions decide exactly as the documented boolean language says."""
import itertools

from common import S, enc_jv, run_batch, tree_of, unS

GEN = ['GParser.v', 'GUnicode.v', 'GChecks.v']

ALPHA = ['(', ')', 'and', 'or', 'not', 'role:a', 'role:b']
WS = [' ', '  ', '\t', '\n', ' \t ', ' ', ' ', '\r\n', '\x0b', '\x1c']


def impl_parse(value):
    """-> ('ok', tree, printed) | ('raw', type) | ('exc', name)"""
    from oslo_policy import _parser, _checks
    try:
        c = _parser.parse_rule(value)
    except Exception as e:   # noqa
        return ('exc', type(e).__name__)
    if not isinstance(c, _checks.BaseCheck):
        return ('raw', type(c).__name__)
    return ('ok', tree_of(c), str(c))


def model_parse_answer(ans):
    """decode suite-2 answer into the same shape as impl_parse"""
    if ans[0] == 1:
        from common import exn_name
        return ('exc', exn_name(ans[1]))
    if ans[0] == 2:
        return ('exc', 'OutOfFuel')
    p = ans[1]
    if p[0] == 1:
        return ('raw', 'str')
    return ('ok', p[1], unS(p[2]))


_enf = None


def enforcer():
    global _enf
    if _enf is None:
        from oslo_config import cfg
        from oslo_policy import policy
        conf = cfg.ConfigOpts()
        conf([], project='verif')
        _enf = policy.Enforcer(conf, use_conf=False)
    return _enf


_enf0 = None


def empty_enforcer():
    """an enforcer that never had a rule: what a service holds when it enforces check objects only"""
    global _enf0
    if _enf0 is None:
        from oslo_config import cfg
        from oslo_policy import policy
        conf = cfg.ConfigOpts()
        conf([], project='verif')
        _enf0 = policy.Enforcer(conf, use_conf=False)
    return _enf0


def impl_decisions(value, k, names=None, by_object=False):
    """decisions of Enforcer.enforce for every assignment (bit mask) to leaves role:r0..r{k-1}"""
    from oslo_policy import policy
    if by_object:
        e = empty_enforcer()
        the_rule = policy._parser.parse_rule(value)
    else:
        e = enforcer()
        e.set_rules(policy.Rules.from_dict({'the_rule': value}), use_conf=False)
        the_rule = 'the_rule'
    out = []
    names = names or ['r%d' % i for i in range(k)]
    # ONE target object and ONE credentials object for all assignments, updated in place: a decision depends on what
    # the objects hold when it is taken
    target, creds = {}, {'roles': []}
    for m in range(2 ** k):
        roles = [names[i] for i in range(k) if (m >> i) & 1]
        creds['roles'][:] = roles
        try:
            out.append(bool(e.enforce(the_rule, target, creds)))
        except Exception as ex:   # noqa
            out.append('EXC ' + type(ex).__name__)
    return out


KWLEAF = ['origin', 'android', 'note', 'ORder', 'nothing', 'And_x']


def impl_decisions_attr(value, k):
    """the same for leaves KWLEAF[i]:yes -- attribute checks on the credentials"""
    from oslo_policy import policy
    e = enforcer()
    e.set_rules(policy.Rules.from_dict({'the_rule': value}), use_conf=False)
    out = []
    for m in range(2 ** k):
        creds = {KWLEAF[i]: ('yes' if (m >> i) & 1 else 'no') for i in range(k)}
        try:
            out.append(bool(e.enforce('the_rule', {}, creds)))
        except Exception as ex:   # noqa
            out.append('EXC ' + type(ex).__name__)
    return out


# ---- grammar-first enumeration of the documented language
def gen_oexps(n, k):
    """all oexp with exactly n nodes over leaves 0..k-1 (memoised)"""
    memo = {}

    def O(n):
        key = ('o', n)
        if key not in memo:
            r = [[0, a] for a in Aexp(n)]
            for i in range(1, n - 1):
                r += [[1, o, a] for o in O(i) for a in Aexp(n - 1 - i)]
            memo[key] = r
        return memo[key]

    def Aexp(n):
        key = ('a', n)
        if key not in memo:
            r = [[0, x] for x in X(n)]
            for i in range(1, n - 1):
                r += [[1, a, x] for a in Aexp(i) for x in X(n - 1 - i)]
            memo[key] = r
        return memo[key]

    def X(n):
        key = ('x', n)
        if key not in memo:
            r = []
            if n == 1:
                r = [[1, i] for i in range(k)]
            if n >= 2:
                r += [[0, x] for x in X(n - 1)]
                r += [[2, o] for o in O(n - 1)]
            memo[key] = r
        return memo[key]
    return O(n)


def rand_oexp(rng, size, k):
    def O(sz):
        if sz > 2 and rng.random() < 0.45:
            i = rng.randint(1, sz - 2)
            return [1, O(i), Aexp(sz - 1 - i)]
        return [0, Aexp(sz)]

    def Aexp(sz):
        if sz > 2 and rng.random() < 0.5:
            i = rng.randint(1, sz - 2)
            return [1, Aexp(i), X(sz - 1 - i)]
        return [0, X(sz)]

    def X(sz):
        if sz <= 1:
            return [1, rng.randrange(k)]
        r = rng.random()
        if r < 0.3:
            return [0, X(sz - 1)]
        return [2, O(sz - 1)]
    return O(size)


KW = {2: 'and', 3: 'or', 4: 'not'}


def render(tokens, rng, names, plain=False):
    """token codes -> text, with random keyword case, whitespace, glued parentheses"""
    texts = []
    for t in tokens:
        if t == 0:
            texts.append('(')
        elif t == 1:
            texts.append(')')
        elif isinstance(t, int):
            w = KW[t]
            if not plain:
                w = ''.join(c.upper() if rng.random() < 0.5 else c for c in w)
            texts.append(w)
        else:
            texts.append('role:' + names[t[1]])
    out = ''
    if not plain and rng.random() < 0.3:
        out += rng.choice(WS)
    for i, tx in enumerate(texts):
        out += tx
        if i + 1 < len(texts):
            glue_ok = texts[i] == '(' or texts[i + 1] == ')'
            if glue_ok and (plain or rng.random() < 0.6):
                continue
            out += ' ' if plain else rng.choice(WS)
    if not plain and rng.random() < 0.3:
        out += rng.choice(WS)
    return out


TRUTHY = [True, 1, 2, 'yes', 2.5, [0], {'k': 0}]
FALSY = [False, 0, '', None, [], 0.0, {}]


def custom_leaf_decisions(text, k, salt):
    """the same rule with its leaves replaced by custom checks that answer with arbitrary truthy / falsy values
    (not only True / False): the decision is the Boolean combination of their truth values"""
    import world
    from oslo_policy import policy
    world.register_custom()
    kinds = ['c4a', 'c3a', 'c4b']
    for i in range(k):
        text = text.replace('role:r%d' % i, '%s:x' % kinds[i])
    e = enforcer()
    e.set_rules(policy.Rules.from_dict({'the_rule': text}), use_conf=False)
    out = []
    for m in range(2 ** k):
        world._custom_results.clear()
        for i in range(k):
            pool = TRUTHY if (m >> i) & 1 else FALSY
            world._custom_results[kinds[i]] = pool[(salt + m + i) % len(pool)]
        try:
            out.append(bool(e.enforce('the_rule', {}, {'roles': []})))
        except Exception as ex:   # noqa
            out.append('EXC ' + type(ex).__name__)
    world._custom_results.clear()
    del world._trace[:]
    return out


def check_spec_case(run, o, k, text_variants, spec_dec, label):
    """implementation decisions on every rendering must equal the documented value"""
    nontriv = len(set(spec_dec)) > 1
    for text in text_variants:
        run.evaluations += 1
        got = impl_decisions(text, k)
        if got != spec_dec:
            bad = [m for m in range(len(got)) if got[m] != spec_dec[m]][0]
            run.violation('decision:%s' % label,
                          'rule %r decides %r under roles mask %d, documented value %r'
                          % (text, got[bad], bad, spec_dec[bad]),
                          {'kind': 'failing-input', 'suite': 'spec-c01', 'input': {'rule': text, 'k': k},
                           'expected': spec_dec, 'observed': got})
            return False
    if len(text_variants[0]) % 2 == 1 or label == 'deep':
        # the same rule handed over as a check object to an enforcer that holds no rules at all
        run.evaluations += 1
        got = impl_decisions(text_variants[0], k, by_object=True)
        if got != spec_dec:
            bad = [m for m in range(len(got)) if got[m] != spec_dec[m]][0]
            run.violation('decision:%s:check-object' % label,
                          'rule %r passed as a check object to an enforcer without rules decides %r under roles '
                          'mask %d, documented value %r' % (text_variants[0], got[bad], bad, spec_dec[bad]),
                          {'kind': 'failing-input', 'suite': 'spec-c01',
                           'input': {'rule': text_variants[0], 'k': k, 'by_object': True},
                           'expected': spec_dec, 'observed': got})
            return False
    if len(text_variants[0]) % 3 != 1 or label == 'deep':
        # the same sentence over leaves of another kind: attribute checks whose names BEGIN like a keyword
        text = text_variants[-1]
        for i in range(k):
            text = text.replace('role:r%d' % i, KWLEAF[i] + ':yes')
        run.evaluations += 1
        got = impl_decisions_attr(text, k)
        if got != spec_dec:
            bad = [m for m in range(len(got)) if got[m] != spec_dec[m]][0]
            run.violation('decision:%s:keyword-like-leaves' % label,
                          'rule %r decides %r when exactly the attributes of mask %d (over %r) are "yes", documented value %r'
                          % (text, got[bad], bad, KWLEAF[:k], spec_dec[bad]),
                          {'kind': 'failing-input', 'suite': 'spec-c01', 'input': {'rule': text, 'k': k, 'attr_leaves': True},
                           'expected': spec_dec, 'observed': got})
            return False
    if k >= 1 and len(text_variants[0]) % 2 == 0:
        # the last leaf replaced by a constant: '@' (always true) or '!' (always false)
        last = 'role:r%d' % (k - 1)
        for const, bit in (('@', 1), ('!', 0)):
            text = text_variants[0].replace(last, const)
            got = impl_decisions(text, k - 1) if k > 1 else impl_decisions(text, 0)
            want = [spec_dec[m | (bit << (k - 1))] for m in range(2 ** (k - 1))]
            run.evaluations += 1
            if got != want:
                bad = [m for m in range(len(got)) if got[m] != want[m]][0]
                run.violation('decision:%s:constants' % label,
                              'rule %r decides %r under roles mask %d, documented value %r'
                              % (text, got[bad], bad, want[bad]),
                              {'kind': 'failing-input', 'suite': 'spec-c01', 'input': {'rule': text, 'k': k - 1},
                               'expected': want, 'observed': got})
                return False
    if k <= 3 and len(text_variants[0]) % 3 == 0:
        got = custom_leaf_decisions(text_variants[0], k, len(text_variants[0]))
        run.evaluations += 1
        if got != spec_dec:
            bad = [m for m in range(len(got)) if got[m] != spec_dec[m]][0]
            run.violation('decision:%s:truthy-leaves' % label,
                          'rule %r with leaves answering truthy/falsy non-Boolean values decides %r under mask %d, '
                          'documented value %r' % (text_variants[0], got[bad], bad, spec_dec[bad]),
                          {'kind': 'failing-input', 'suite': 'spec-c01', 'input': {'rule': text_variants[0], 'k': k,
                                                                                  'custom_leaves': True},
                           'expected': spec_dec, 'observed': got})
            return False
    if nontriv:
        run.nontrivial.add(text_variants[0])
    return True


def run(run, binfo):
    tier = run.tier
    rng = run.rng
    maxlen = 6 if tier == 'quick' else 7
    # ---- (a) correspondence on every token sequence up to maxlen (accepted and rejected)
    seqs = []
    for n in range(0, maxlen + 1):
        for tup in itertools.product(ALPHA, repeat=n):
            seqs.append(' '.join(tup))
    answers = run_batch([[2, [], enc_jv(sq)] for sq in seqs])
    accepted = 0
    disagreements = []
    for sq, ans in zip(seqs, answers):
        run.evaluations += 1
        m = model_parse_answer(ans)
        i = impl_parse(sq)
        if m != i:
            disagreements.append((sq, m, i))
        if i[0] == 'ok' and i[2] != '!':
            accepted += 1
    run.count('token_sequences', len(seqs))
    run.count('token_sequences_accepted', accepted)
    run.sample({'suite': 'S2 token sequences', 'input': seqs[len(seqs) // 3],
                'impl': impl_parse(seqs[len(seqs) // 3])[1:]})

    # ---- (b) grammar-first: every sentence up to N nodes, spec value vs Enforcer.enforce
    maxnodes = 6 if tier == 'quick' else 8
    names = ['r%d' % i for i in range(6)]
    sentences = 0
    for n in range(1, maxnodes + 1):
        exps = gen_oexps(n, 2)
        reqs = [[5, o, 2] for o in exps]
        for o, ans in zip(exps, run_batch(reqs)):
            toks, dec = ans[0], [bool(b) for b in ans[1]]
            sentences += 1
            plain = render(toks, rng, names, plain=True)
            variants = [plain]
            if sentences % 7 == 0:
                variants.append(render(toks, rng, names))
            # model vs implementation on the plain text as well
            check_spec_case(run, o, 2, variants, dec, 'enumerated')
    run.count('enumerated_sentences', sentences)

    # ---- (c) random large expressions with lexical variants
    nrand = 1500 if tier == 'quick' else 30000
    reqs, exps = [], []
    for _ in range(nrand):
        k = rng.randint(1, 6)
        size = rng.randint(3, 45)
        o = rand_oexp(rng, size, k)
        exps.append((o, k))
        reqs.append([5, o, k])
    sizes = []
    mreqs, mtexts = [], []
    for (o, k), ans in zip(exps, run_batch(reqs)):
        toks, dec = ans[0], [bool(b) for b in ans[1]]
        sizes.append(len(toks))
        variants = [render(toks, rng, names) for _ in range(3)]
        check_spec_case(run, o, k, variants, dec, 'random')
        mtexts.append(variants[0])
        mreqs.append([2, [], enc_jv(variants[0])])
    # correspondence on the random renderings too (Unicode whitespace, mixed case, glue)
    for text, ans in zip(mtexts, run_batch(mreqs)):
        run.evaluations += 1
        m = model_parse_answer(ans)
        i = impl_parse(text)
        if m != i:
            disagreements.append((text, m, i))
    run.count('random_expressions', nrand)
    run.extra['token_count_histogram'] = {
        '<=10': sum(1 for x in sizes if x <= 10), '11-30': sum(1 for x in sizes if 10 < x <= 30),
        '31-60': sum(1 for x in sizes if 30 < x <= 60), '>60': sum(1 for x in sizes if x > 60)}
    run.sample({'suite': 'spec-c01 random', 'rule': mtexts[0]})

    # ---- (c2) deep nesting: long runs of 'not', towers of parentheses, right-nested and/or
    def leafx(i):
        return [1, i]

    def nots(d, x):
        for _ in range(d):
            x = [0, x]
        return x

    def tower(d):
        # r0 and (r1 or (r0 and (r1 or ...)))
        o = [0, [0, leafx(d % 2)]]
        for lvl in range(d - 1, -1, -1):
            if lvl % 2:
                o = [1, [0, [0, leafx(1)]], [0, [2, o]]]
            else:
                o = [0, [1, [0, leafx(0)], [2, o]]]
        return o

    deep = []
    for d in (8, 20, 30, 31, 32, 33, 34, 35, 40, 47, 58) + ((64, 90, 150) if tier == 'thorough' else ()):
        deep.append([0, [0, nots(d, leafx(0))]])
        deep.append([1, [0, [0, leafx(1)]], [0, nots(d, leafx(0))]])
        deep.append([0, [1, [0, leafx(1)], nots(d, leafx(0))]])
        deep.append([0, [0, nots(d // 2, [2, [0, [0, nots(d - d // 2, leafx(0))]]])]])
        x = leafx(0)
        for _ in range(min(d, 90)):             # (CPython 3.12 caps the C-level recursion of the harness's own encoder)
            x = [0, [2, [0, [0, x]]]]           # not (not (not ... ))
        deep.append([0, [0, x]])
    for d in (6, 10, 14, 20, 31, 33, 36) + ((50, 80) if tier == 'thorough' else ()):
        deep.append(tower(d))
    import sys
    limit = sys.getrecursionlimit()
    sys.setrecursionlimit(max(limit, 20000))      # the harness's own S-expression encoder recurses on these
    try:
        for o, ans in zip(deep, run_batch([[5, o, 2] for o in deep])):
            toks, dec = ans[0], [bool(b) for b in ans[1]]
            check_spec_case(run, o, 2, [render(toks, rng, names, plain=True), render(toks, rng, names)], dec, 'deep')
    finally:
        sys.setrecursionlimit(limit)
    run.count('deep_expressions', len(deep))

    # ---- (d) list-of-lists shapes
    leaves = ['role:r0', 'role:r1', '@', '!', 'x']
    inner_opts = [[]] + [[a] for a in leaves] + [[a, b] for a in leaves[:3] for b in leaves[:4]]
    entries = [[]] + inner_opts + leaves + ['']
    shapes = [[]] + [[a] for a in entries] + [[a, b] for a in entries for b in entries]
    if tier == 'thorough':
        shapes += [[a, b, c] for a in entries[:12] for b in entries[:12] for c in entries[:12]]
    role_sets = [[], ['r0'], ['r1'], ['r0', 'r1']]
    reqs = []
    for sh in shapes:
        for rs in role_sets:
            reqs.append([6, [], enc_jv(sh), [S(r) for r in rs]])
    answers = run_batch(reqs)
    mans = run_batch([[2, [], enc_jv(sh)] for sh in shapes])
    idx = 0
    from oslo_policy import policy
    e = enforcer()
    for sh, ma in zip(shapes, mans):
        m = model_parse_answer(ma)
        i = impl_parse(sh)
        if m != i:
            disagreements.append((sh, m, i))
        e.set_rules(policy.Rules.from_dict({'the_rule': sh}), use_conf=False)
        decs = []
        for rs in role_sets:
            shaped, want = answers[idx]
            idx += 1
            run.evaluations += 1
            got = bool(e.enforce('the_rule', {}, {'roles': rs}))
            decs.append(got)
            if shaped and got != bool(want):
                run.violation('list-rule', 'list rule %r decides %r with roles %r, documented %r'
                              % (sh, got, rs, bool(want)),
                              {'kind': 'failing-input', 'suite': 'spec-list',
                               'input': {'rule': sh, 'roles': rs}, 'expected': bool(want),
                               'observed': got})
        if len(set(decs)) > 1:
            run.nontrivial.add(repr(sh))
        if any(isinstance(x, list) for x in sh):
            # Python callers may hand over tuples wherever lists are accepted: inner, outer, both
            for tv in (tuple(sh), [tuple(x) if isinstance(x, list) else x for x in sh],
                       tuple(tuple(x) if isinstance(x, list) else x for x in sh)):
                try:
                    e.set_rules(policy.Rules.from_dict({'the_rule': tv}), use_conf=False)
                    tdecs = [bool(e.enforce('the_rule', {}, {'roles': rs})) for rs in role_sets]
                except Exception as ex:   # noqa
                    tdecs = 'EXC ' + type(ex).__name__
                run.evaluations += 1
                if tdecs != decs:
                    run.violation('list-rule:tuples', 'rule %r decides %r over the role sets %r, the same shape written with lists %r'
                                  % (tv, tdecs, role_sets, decs),
                                  {'kind': 'failing-input', 'suite': 'spec-list',
                                   'input': {'rule': repr(tv), 'role_sets': role_sets}, 'expected': decs, 'observed': tdecs})
                    break
    run.count('list_shapes', len(shapes))
    run.sample({'suite': 'spec-list', 'rule': shapes[len(shapes) // 2]})

    # ---- disagreements model vs implementation
    run.extra['correspondence_disagreements'] = len(disagreements)
    if disagreements and not run.violations:
        sq, m, i = disagreements[0]
        run.violation('correspondence:S2', 'model and implementation parse %r differently' % (sq,),
                      {'kind': 'broken-obligation',
                       'obligation': 'correspondence suite S2 (parse_rule: model vs implementation)',
                       'input': sq, 'model': m, 'observed': i,
                       'count': len(disagreements)})
    run.rule = ('every token sequence of length <= %d over %r (model vs implementation); every '
                'sentence of the documented grammar up to %d nodes and %d random expressions up '
                'to ~60 tokens in 3 random renderings, each under all 2^k role assignments '
                '(extracted spec den_o vs Enforcer.enforce, by name and as a check object on an enforcer without rules); '
                'runs of up to 58 nots / 36-level and-or towers (thorough: 150 nots, 90 parenthesised nots, 80-level towers); every list-of-lists shape up to '
                'length %d. non-trivial = decision not constant over the assignments'
                % (maxlen, ALPHA, maxnodes, nrand, 3 if tier == 'thorough' else 2))
    run.exhaustive = False


def replay(run, rep):
    inp = rep.get('input')
    if isinstance(inp, dict) and inp.get('attr_leaves'):
        got = impl_decisions_attr(inp['rule'], inp['k'])
        print('observed', got, 'expected', rep.get('expected'))
        return got == rep.get('expected')
    if isinstance(inp, dict) and 'role_sets' in inp:
        from oslo_policy import policy
        e = enforcer()
        e.set_rules(policy.Rules.from_dict({'the_rule': eval(inp['rule'])}), use_conf=False)
        got = [bool(e.enforce('the_rule', {}, {'roles': rs})) for rs in inp['role_sets']]
        print('observed', got, 'expected', rep.get('expected'))
        return got == rep.get('expected')
    if isinstance(inp, dict) and 'k' in inp:
        got = impl_decisions(inp['rule'], inp['k'], by_object=bool(inp.get('by_object')))
        print('observed', got, 'expected', rep.get('expected'))
        return got == rep.get('expected')
    if isinstance(inp, dict) and 'roles' in inp:
        from oslo_policy import policy
        e = enforcer()
        e.set_rules(policy.Rules.from_dict({'the_rule': inp['rule']}), use_conf=False)
        got = bool(e.enforce('the_rule', {}, {'roles': inp['roles']}))
        print('observed', got, 'expected', rep.get('expected'))
        return got == rep.get('expected')
    print('replay names a broken obligation, not an input:', rep.get('obligation'))
    return False
