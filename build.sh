#!/bin/bash
# Regenerate coq/Gen from /repo's working tree, then (re)build the Coq development (full .vo),
# the extraction and the OCaml driver.  Serialised by a lock: checks may run in parallel.
# Exit status: 0 ok; the list of files that failed to build is left in coq/.failed
set -u
cd "$(dirname "$0")"
exec 9>coq/.lock
flock 9
PYTHONPATH="${VERIF_REPO:-/repo}" PYTHONHASHSEED=0 /venv/bin/python gen/gen.py || true
cd coq
{ echo "-Q . OP"; echo "-arg -w -arg -notation-overridden,-deprecated-hint-without-locality,-deprecated-instance-without-locality,-unused-pattern-matching-variable"; \
  find Base Gen Model Spec Proofs Bridge Properties Extract -name '*.v' 2>/dev/null | sort; } > _CoqProject.new
if ! cmp -s _CoqProject.new _CoqProject || [ ! -f Makefile ]; then
  mv _CoqProject.new _CoqProject
  coq_makefile -f _CoqProject -o Makefile >/dev/null
else
  rm _CoqProject.new
fi
timeout 1500 make -k -j16 > .build.log 2>&1
rc=$?
# which .v files have no up-to-date .vo ?  (a failed target may leave a stale .vo behind: remove it)
: > .failed
for vo in $(sed -n 's/^make.*\*\*\* \[.*: \(.*\.vo\)\] Error.*/\1/p' .build.log); do
  rm -f "$vo" "${vo%.vo}.vok" "${vo%.vo}.vos" "${vo%.vo}.glob"
done
for v in $(find Base Gen Model Spec Proofs Bridge Properties Extract -name '*.v' 2>/dev/null | sort); do
  vo="${v%.v}.vo"
  if [ ! -f "$vo" ] || [ "$v" -nt "$vo" ]; then echo "$v" >> .failed; fi
done
# extraction + driver (only when Extract.vo was (re)built)
if [ -f Extract/Extract.vo ]; then
  if [ ! -f ../ocaml/driver ] || [ Extract/Extract.vo -nt ../ocaml/driver ] || [ ../ocaml/driver.ml -nt ../ocaml/driver ]; then
    ( cd ../ocaml && cp ../coq/Extract/model.ml ../coq/Extract/model.mli . 2>/dev/null; \
      { timeout 600 ocamlfind ocamlopt -O3 -w -a model.mli model.ml driver.ml -o driver.new > .ocaml.log 2>&1 || \
        timeout 600 ocamlfind ocamlopt -w -a model.mli model.ml driver.ml -o driver.new > .ocaml.log 2>&1 ; } && \
      mv -f driver.new driver ) || echo "ocaml/driver" >> .failed    # atomic replace: a running check keeps its binary
  fi
else
  rm -f ../ocaml/driver
fi
if [ -s .failed ]; then echo "build: FAILED files:"; cat .failed; exit 1; fi
exit 0
