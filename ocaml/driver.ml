(* Generic driver: one S-expression request per line on stdin, one S-expression answer per
   line on stdout.  Atoms are integers.  All suite logic is in the extracted Model.dispatch. *)
open Model

let rec pos_of_int (n : int) : positive =
  if n = 1 then XH
  else if n land 1 = 0 then XO (pos_of_int (n lsr 1)) else XI (pos_of_int (n lsr 1))
let z_of_int (n : int) : z = if n = 0 then Z0 else if n > 0 then Zpos (pos_of_int n) else Zneg (pos_of_int (-n))
let rec int_of_pos (p : positive) : int =
  match p with XH -> 1 | XO q -> 2 * int_of_pos q | XI q -> 2 * int_of_pos q + 1
let int_of_z (x : z) : int = match x with Z0 -> 0 | Zpos p -> int_of_pos p | Zneg p -> - (int_of_pos p)

(* reader *)
let parse (s : Stdlib.String.t) : sx =
  let n = Stdlib.String.length s in
  let i = ref 0 in
  let skip () = while !i < n && (s.[!i] = ' ' || s.[!i] = '\n' || s.[!i] = '\r') do incr i done in
  let rec item () : sx =
    skip ();
    if !i >= n then failwith "eof"
    else if s.[!i] = '(' then begin
      incr i;
      let acc = ref [] in
      let fin = ref false in
      while not !fin do
        skip ();
        if !i >= n then failwith "eof in list"
        else if s.[!i] = ')' then (incr i; fin := true)
        else acc := item () :: !acc
      done;
      L (List.rev !acc)
    end else begin
      let j = !i in
      if s.[!i] = '-' then incr i;
      while !i < n && s.[!i] >= '0' && s.[!i] <= '9' do incr i done;
      if !i = j then failwith "bad atom";
      A (z_of_int (int_of_string (Stdlib.String.sub s j (!i - j))))
    end
  in item ()

let rec print (b : Buffer.t) (x : sx) : unit =
  match x with
  | A z -> Buffer.add_string b (string_of_int (int_of_z z))
  | L l -> Buffer.add_char b '(';
           List.iteri (fun k y -> if k > 0 then Buffer.add_char b ' '; print b y) l;
           Buffer.add_char b ')'

let () =
  let b = Buffer.create 4096 in
  try
    while true do
      let line = input_line stdin in
      Buffer.clear b;
      (try print b (wire_main (parse line))
       with Failure m -> Buffer.clear b; Buffer.add_string b ("(-2)")
          | Stack_overflow -> Buffer.clear b; Buffer.add_string b ("(-3)"));
      Buffer.add_char b '\n';
      print_string (Buffer.contents b);
      flush stdout
    done
  with End_of_file -> ()
