#!/usr/bin/env python3
"""Validate one seeded change and run the checks against it.

usage: eval_mutant.py <mutant dir> <A|B> <property id> [other property ids to run as well]

1. In a scratch worktree: the demonstration passes on the clean tree; with the patch the existing test
   suite still passes (only the root-permission test may fail) and the demonstration fails.
2. In /repo: apply the patch, run ./check for the given properties, undo the patch.
3. Record everything under /verif/seeded/<prop>_<letter>/.
"""
import json
import os
import re
import shutil
import subprocess
import sys
import time

VERIF = os.path.dirname(os.path.dirname(os.path.abspath(__file__)))


def sh(cmd, cwd=None, env=None, timeout=3000):
    p = subprocess.run(cmd, shell=True, cwd=cwd, env=env, stdout=subprocess.PIPE, stderr=subprocess.STDOUT,
                       timeout=timeout)
    return p.returncode, p.stdout.decode(errors='replace')


def main():
    if sys.argv[1] == '--stored':
        # re-evaluate a seed kept under /verif/seeded/<prop>_<letter>/
        prop, letter = sys.argv[2].split('_')
        others = sys.argv[3:]
        mdir = out = os.path.join(VERIF, 'seeded', sys.argv[2])
    else:
        mdir, letter, prop = sys.argv[1], sys.argv[2], sys.argv[3]
        others = sys.argv[4:]
        diff = os.path.join(mdir, '%s.diff' % letter)
        demo = os.path.join(mdir, 'demo_%s.py' % letter)
        out = os.path.join(VERIF, 'seeded', '%s_%s' % (prop, letter))
        os.makedirs(out, exist_ok=True)
        shutil.copy(diff, os.path.join(out, 'patch.diff'))
        shutil.copy(demo, os.path.join(out, 'demo.py'))
    meta = {'property': prop, 'variant': letter, 'source': 'independent sub-agent given only the property text',
            'ran': []}
    try:
        prev = json.load(open(os.path.join(out, 'meta.json')))
        for k in ('change', 'needs_to_manifest', 'breaks_property'):
            if prev.get(k):
                meta[k] = prev[k]
    except Exception:
        pass
    notes = os.path.join(mdir, 'notes.md')
    if os.path.exists(notes) and mdir != out:
        shutil.copy(notes, os.path.join(out, 'notes.md'))
    wt = '/tmp/ev_%s_%s' % (prop, letter)
    sh('git -C /repo worktree remove --force %s' % wt)
    rc, o = sh('git -C /repo worktree add --detach %s HEAD' % wt)
    env = dict(os.environ, PYTHONPATH=wt)
    demo_cmd = 'cd %s && /venv/bin/python %s' % (wt, os.path.join(out, 'demo.py'))
    # the demos were written against /tmp/wt_<prop>; point them at this worktree
    txt = open(os.path.join(out, 'demo.py')).read().replace('/tmp/wt_%s' % prop, wt)
    open(os.path.join(out, 'demo.py'), 'w').write(txt)
    rc_clean, o_clean = sh(demo_cmd, env=env)
    meta['demo_on_clean_tree'] = {'rc': rc_clean, 'tail': o_clean[-300:]}
    rc_ap, o_ap = sh('git -C %s apply %s' % (wt, os.path.join(out, 'patch.diff')))
    meta['patch_applies'] = rc_ap == 0
    rc_t, o_t = sh('cd %s && /venv/bin/python -m pytest -q -p no:cacheprovider --timeout=900 -q 2>&1 | tail -4' % wt)
    failed = re.findall(r'^FAILED (\S+)', o_t, re.M)
    meta['tests_with_patch'] = {'failed': failed, 'tail': o_t[-400:]}
    rc_mut, o_mut = sh(demo_cmd, env=env)
    meta['demo_on_patched_tree'] = {'rc': rc_mut, 'tail': o_mut[-500:]}
    iso = os.environ.get('EVAL_ISOLATED')
    if not iso:
        sh('git -C /repo worktree remove --force %s' % wt)
    # restore the original path in the stored demo
    open(os.path.join(out, 'demo.py'), 'w').write(txt.replace(wt, '/tmp/wt_%s' % prop))
    valid = (rc_clean == 0 and rc_ap == 0 and rc_mut != 0 and
             all('permission_denied' in f for f in failed))
    meta['valid_seed'] = valid
    # ---- run the checks against it
    if valid and iso:
        # isolated mode: a private copy of /verif checks the patched scratch worktree (VERIF_REPO), so /repo and
        # /verif stay untouched and several evaluations can run side by side
        vcopy = '/root/scratch/veval_%s_%s' % (prop, letter)
        sh('mkdir -p /root/scratch && rm -rf %s && rsync -a --exclude .git --exclude _work --exclude replays '
           '--exclude seeded %s/ %s/' % (vcopy, VERIF, vcopy))
        env2 = dict(os.environ, VERIF_REPO=wt)
        for p in [prop] + others:
            t0 = time.time()
            rc, o = sh('./check %s --tier quick' % p, cwd=vcopy, env=env2)
            viol = [l for l in o.splitlines() if l.startswith('VIOLATION')]
            entry = {'check': p, 'rc': rc, 'violations': [v.replace(vcopy, VERIF) for v in viol[:5]],
                     'wall_s': round(time.time() - t0, 1), 'isolated': True}
            for v in viol[:1]:
                m = re.search(r'replay=(\S+)', v)
                if m and os.path.exists(m.group(1)):
                    try:
                        r = json.load(open(m.group(1)))
                        entry['first_replay'] = {'key': r.get('key'), 'kind': r.get('kind'),
                                                 'description': str(r.get('description'))[:400]}
                    except Exception:
                        pass
            meta['ran'].append(entry)
        sh('rm -rf %s' % vcopy)
    if iso:
        sh('git -C /repo worktree remove --force %s' % wt)
    if valid and not iso:
        rc, o = sh('git -C /repo status --short')
        if o.strip():
            print('refusing: /repo is not clean:\n' + o)
            return 2
        rc, o = sh('git -C /repo apply %s' % os.path.join(out, 'patch.diff'))
        try:
            for p in [prop] + others:
                t0 = time.time()
                rc, o = sh('./check %s --tier quick' % p, cwd=VERIF)
                viol = [l for l in o.splitlines() if l.startswith('VIOLATION')]
                entry = {'check': p, 'rc': rc, 'violations': viol[:5], 'wall_s': round(time.time() - t0, 1)}
                for v in viol[:1]:
                    m = re.search(r'replay=(\S+)', v)
                    if m and os.path.exists(m.group(1)):
                        try:
                            r = json.load(open(m.group(1)))
                            entry['first_replay'] = {'key': r.get('key'), 'kind': r.get('kind'),
                                                     'description': str(r.get('description'))[:400]}
                        except Exception:
                            pass
                meta['ran'].append(entry)
        finally:
            sh('git -C /repo checkout -- .')
            sh('./build.sh', cwd=VERIF)        # regenerate Gen/ from the restored tree
    meta['detected_by'] = [e['check'] for e in meta['ran'] if e['rc'] != 0]
    json.dump(meta, open(os.path.join(out, 'meta.json'), 'w'), indent=1)
    print(json.dumps({k: meta[k] for k in ('property', 'variant', 'valid_seed', 'detected_by')}))
    for e in meta['ran']:
        print('  ', e['check'], 'rc', e['rc'], e.get('first_replay', {}).get('key'), e.get('first_replay', {}).get('kind'))
    return 0


if __name__ == '__main__':
    sys.exit(main())
