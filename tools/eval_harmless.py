#!/usr/bin/env python3
"""Apply a behaviour-preserving patch to /repo, run the quick checks of the properties anchored in the
touched files, undo.  Expected: every check exits 0 (or, where the translator cannot read the new shape,
a VIOLATION ending in no-failing-input-found)."""
import json, os, re, subprocess, sys
VERIF = os.path.dirname(os.path.dirname(os.path.abspath(__file__)))
def sh(cmd, cwd=None):
    p = subprocess.run(cmd, shell=True, cwd=cwd, stdout=subprocess.PIPE, stderr=subprocess.STDOUT)
    return p.returncode, p.stdout.decode(errors='replace')
FILES = {'_parser.py': ['C01', 'C02', 'C15', 'C13', 'C05'],
         '_checks.py': ['C01', 'C03', 'C04', 'C05', 'C06', 'C14', 'C15', 'C16'],
         'policy.py': ['C03', 'C06', 'C07', 'C08', 'C09', 'C10', 'C11', 'C12', 'C13', 'C14', 'C15', 'C17', 'C18', 'C19', 'C20'],
         '_cache_handler.py': ['C09', 'C10', 'C12', 'C20'], 'generator.py': ['C17', 'C18', 'C13'], 'shell.py': ['C19'],
         '_external.py': ['C16'], 'opts.py': ['C03', 'C08', 'C09']}
def main():
    diff = sys.argv[1]
    txt = open(diff).read()
    props = []
    for f, ps in FILES.items():
        if ('oslo_policy/' + f) in txt:
            props += [p for p in ps if p not in props]
    if len(sys.argv) > 2:
        props = sys.argv[2:]
    iso = os.environ.get('EVAL_ISOLATED')
    if iso:
        # a private copy of /verif checks a patched scratch worktree: /repo and /verif stay untouched
        tag = re.sub(r'\W', '_', os.path.basename(os.path.dirname(diff)) + '_' + os.path.basename(diff))
        wt = '/tmp/hev_' + tag
        vcopy = '/root/scratch/vh_' + tag
        sh('git -C /repo worktree remove --force ' + wt)
        sh('git -C /repo worktree add --detach %s HEAD' % wt)
        rc, o = sh('git -C %s apply %s' % (wt, diff))
        if rc:
            print('patch does not apply', o); sh('git -C /repo worktree remove --force ' + wt); return 2
        sh('mkdir -p /root/scratch && rm -rf %s && rsync -a --exclude .git --exclude _work --exclude replays '
           '--exclude seeded %s/ %s/' % (vcopy, VERIF, vcopy))
        where, env = vcopy, dict(os.environ, VERIF_REPO=wt)
    else:
        rc, o = sh('git -C /repo status --short')
        if o.strip():
            print('repo not clean'); return 2
        rc, o = sh('git -C /repo apply ' + diff)
        if rc:
            print('patch does not apply', o); return 2
        where, env = VERIF, None
    res = {}
    try:
        for p in props:
            pr = subprocess.run('./check %s' % p, shell=True, cwd=where, env=env, stdout=subprocess.PIPE,
                                stderr=subprocess.STDOUT)
            rc, o = pr.returncode, pr.stdout.decode(errors='replace')
            v = [l for l in o.splitlines() if l.startswith('VIOLATION')]
            kind = 'ok' if rc == 0 else ('no-failing-input-found' if all(l.endswith('no-failing-input-found') for l in v) else 'FALSE-ALARM-WITH-INPUT')
            detail = ''
            if v:
                m = re.search(r'replay=(\S+)', v[0])
                try:
                    r = json.load(open(m.group(1)))
                    detail = json.dumps(r.get('obligation') or r.get('description'), default=str)[:600]
                except Exception:
                    pass
            elif rc:
                detail = o[-400:]
            res[p] = (kind, detail)
    finally:
        if iso:
            sh('rm -rf ' + vcopy)
            sh('git -C /repo worktree remove --force ' + wt)
        else:
            sh('git -C /repo checkout -- .')
            sh('./build.sh', cwd=VERIF)
    print(os.path.basename(os.path.dirname(diff)) + '/' + os.path.basename(diff), {p: k for p, (k, d) in res.items()})
    for p, (k, d) in res.items():
        if k != 'ok':
            print('   ', p, k, d[:400])
    return 0
if __name__ == '__main__':
    sys.exit(main())
