#!/usr/bin/env python3
"""Apply a behaviour-preserving patch to /repo, run the quick checks of the properties anchored in the
touched files, undo.  Expected: every check exits 0 (or, where the translator cannot read the new shape,
a VIOLATION ending in no-failing-input-found)."""
import json, os, re, subprocess, sys
VERIF = os.path.dirname(os.path.dirname(os.path.abspath(__file__)))
def sh(cmd, cwd=None):
    p = subprocess.run(cmd, shell=True, cwd=cwd, stdout=subprocess.PIPE, stderr=subprocess.STDOUT)
    return p.returncode, p.stdout.decode(errors='replace')
FILES = {'_parser.py': ['C01', 'C02', 'C15'], '_checks.py': ['C04', 'C05', 'C06', 'C14', 'C15', 'C01'],
         'policy.py': ['C03', 'C07', 'C08', 'C09', 'C10', 'C11', 'C12', 'C13', 'C20'],
         '_cache_handler.py': ['C10'], 'generator.py': ['C17', 'C18', 'C13'], 'shell.py': ['C19'], '_external.py': ['C16']}
def main():
    diff = sys.argv[1]
    txt = open(diff).read()
    props = []
    for f, ps in FILES.items():
        if ('oslo_policy/' + f) in txt:
            props += [p for p in ps if p not in props]
    if len(sys.argv) > 2:
        props = sys.argv[2:]
    rc, o = sh('git -C /repo status --short')
    if o.strip():
        print('repo not clean'); return 2
    rc, o = sh('git -C /repo apply ' + diff)
    if rc:
        print('patch does not apply', o); return 2
    res = {}
    try:
        for p in props:
            rc, o = sh('./check %s' % p, cwd=VERIF)
            v = [l for l in o.splitlines() if l.startswith('VIOLATION')]
            kind = 'ok' if rc == 0 else ('no-failing-input-found' if all(l.endswith('no-failing-input-found') for l in v) else 'FALSE-ALARM-WITH-INPUT')
            detail = ''
            if v:
                m = re.search(r'replay=(\S+)', v[0])
                try:
                    r = json.load(open(m.group(1)))
                    detail = json.dumps(r.get('obligation') or r.get('description'), default=str)[:600]
                except Exception:
                    pass
            res[p] = (kind, detail)
    finally:
        sh('git -C /repo checkout -- .')
        sh('./build.sh', cwd=VERIF)
    print(os.path.basename(os.path.dirname(diff)) + '/' + os.path.basename(diff), {p: k for p, (k, d) in res.items()})
    for p, (k, d) in res.items():
        if k != 'ok':
            print('   ', p, k, d[:400])
    return 0
if __name__ == '__main__':
    sys.exit(main())
