"""Decision-function translator: a Python function body -> Base.DTree.dt (fail-closed).

Handles exactly: if/elif/else, return, raise, assignment of a local to an expression,
and/or/not, ==, !=, in, not in, is (not) None, and sub-expressions that appear in the function's
*atom map* (normalised `ast.unparse` text -> atom index).  Locals are substituted symbolically;
an atom declared effectful is evaluated where it is bound (the tree branches on it there).
`try: x = ATOM / except E: A / else: B` is accepted when the atom map says which exception the
atom raises.  Statements whose text starts with an ignore prefix are skipped.  Anything else is a
refusal."""
import ast
import copy

from gen import Refuse, find_class, find_func


class Bound:
    """a local bound to an effectful atom whose truth value is known on this path"""
    def __init__(self, atom_text, idx, truth):
        self.atom_text, self.idx, self.truth = atom_text, idx, truth


class Subst(ast.NodeTransformer):
    def __init__(self, env):
        self.env = env

    def visit_Name(self, n):
        if isinstance(n.ctx, ast.Load) and n.id in self.env:
            v = self.env[n.id]
            if isinstance(v, Bound):
                return ast.Name(id='__bound_%d_%s' % (v.idx, 'T' if v.truth else 'F'),
                                ctx=ast.Load())
            return copy.deepcopy(v)
        return n


class Scope:
    """What a function body may refer to besides its parameters: methods of its own class and functions of its
    module (inlined when called, so that extracting a helper changes nothing), and module-level constants."""
    CONST_NAME = __import__('re').compile(r'^_?[A-Z][A-Z0-9_]*$')

    def __init__(self, mod, cls=None):
        self.cls = cls
        self.methods = {n.name: n for n in (cls.body if cls is not None else []) if isinstance(n, ast.FunctionDef)}
        self.functions = {n.name: n for n in mod.body if isinstance(n, ast.FunctionDef)}
        counts = {}
        for n in ast.walk(mod):
            if isinstance(n, ast.Name) and isinstance(n.ctx, (ast.Store, ast.Del)):
                counts[n.id] = counts.get(n.id, 0) + 1
            if isinstance(n, (ast.Global, ast.Nonlocal)):
                for x in n.names:
                    counts[x] = counts.get(x, 0) + 2
        self.consts = {}
        for n in mod.body:
            if isinstance(n, ast.Assign) and len(n.targets) == 1 and isinstance(n.targets[0], ast.Name) and \
                    self.CONST_NAME.match(n.targets[0].id) and counts.get(n.targets[0].id) == 1 and \
                    self.simple(n.value):
                self.consts[n.targets[0].id] = n.value

    def simple(self, v):
        if isinstance(v, ast.Constant):
            return True
        if isinstance(v, (ast.Tuple, ast.List, ast.Set)):
            return all(self.simple(e) for e in v.elts)
        if isinstance(v, ast.Call) and ast.unparse(v.func) == 'frozenset' and len(v.args) == 1 and not v.keywords:
            return self.simple(v.args[0])
        if isinstance(v, ast.Attribute):
            return self.simple(v.value)
        if isinstance(v, ast.Name):
            return v.id in self.consts or v.id in ('cfg',)
        return False

    def is_method(self, fn):
        return self.methods.get(fn.name) is fn

    def lookup(self, func):
        if isinstance(func, ast.Attribute) and isinstance(func.value, ast.Name):
            if func.value.id in ('self', 'cls') or (self.cls is not None and func.value.id == self.cls.name):
                return self.methods.get(func.attr)
            return None
        if isinstance(func, ast.Name):
            return self.functions.get(func.id)
        return None

    def subst_consts(self, node, env):
        consts = self.consts

        class C(ast.NodeTransformer):
            def visit_Name(s2, n):
                if isinstance(n.ctx, ast.Load) and n.id in consts and n.id not in env:
                    v = copy.deepcopy(consts[n.id])
                    if isinstance(v, ast.Call):      # frozenset((...)) -> its elements, for membership tests
                        v = v.args[0]
                    return s2.visit(v)
                return n
        return C().visit(node)


class Fn:
    def __init__(self, coq_name, atoms, rets, raises, ignore=(), effectful=(), raising=None,
                 fall_off='None', scope=None):
        self.coq_name = coq_name
        self.atoms = atoms          # text -> index
        self.rets = rets            # text -> tag
        self.raises = raises        # text prefix -> tag
        self.ignore = ignore
        self.effectful = set(effectful)   # atom texts evaluated at binding
        self.raising = raising or {}      # atom text -> exception class name it may raise
        self.fall_off = fall_off
        self.scope = scope                # Scope: helpers of the same class / module that may be inlined, constants
        self.depth = 0
        self.fresh = 0

    def sub(self, node, env):
        n = ast.fix_missing_locations(Subst(env).visit(copy.deepcopy(node)))
        if self.scope is not None:
            n = ast.fix_missing_locations(self.scope.subst_consts(n, env))
        return n

    # ---- helpers (same-class methods, module functions): inlined, never trusted
    def known_text(self, text):
        return text in self.atoms or text in self.effectful or text in self.rets or \
            (text + '/ok') in self.atoms or (text + '/truthy') in self.rets

    def helper_of(self, call):
        """the FunctionDef a call node refers to, when it is an inlinable helper that the atom map
        does not already know as an opaque fact"""
        if self.scope is None or not isinstance(call, ast.Call):
            return None
        if self.known_text(ast.unparse(call)):
            return None
        return self.scope.lookup(call.func)

    def contains_helper(self, node):
        for n in ast.walk(node):
            if isinstance(n, ast.Call) and self.helper_of(n) is not None:
                return True
        return False

    def bind(self, fn, call):
        """parameter name -> argument node (already substituted in the caller's environment)"""
        a = fn.args
        if a.vararg or a.kwarg or a.posonlyargs:
            raise Refuse('%s: helper %s has a signature that is not inlined' % (self.coq_name, fn.name))
        params = [x.arg for x in a.args]
        static = any(ast.unparse(d) == 'staticmethod' for d in fn.decorator_list)
        is_method = self.scope.is_method(fn)
        if is_method and not static:
            if any(ast.unparse(d) == 'classmethod' for d in fn.decorator_list):
                params = params[1:]
            elif params and params[0] == 'self':
                params = params[1:]
            else:
                raise Refuse('%s: helper %s has no self' % (self.coq_name, fn.name))
        if any(isinstance(x, ast.Starred) for x in call.args) or any(k.arg is None for k in call.keywords):
            raise Refuse('%s: helper %s called with * or **' % (self.coq_name, fn.name))
        env = {}
        if len(call.args) > len(params):
            raise Refuse('%s: too many arguments for helper %s' % (self.coq_name, fn.name))
        for p, v in zip(params, call.args):
            env[p] = v
        for k in call.keywords:
            if k.arg not in params or k.arg in env:
                raise Refuse('%s: bad keyword %s for helper %s' % (self.coq_name, k.arg, fn.name))
            env[k.arg] = k.value
        defaults = dict(zip(params[len(params) - len(a.defaults):], a.defaults)) if a.defaults else {}
        for p in params:
            if p not in env:
                if p in defaults:
                    env[p] = defaults[p]
                else:
                    raise Refuse('%s: helper %s misses argument %s' % (self.coq_name, fn.name, p))
        for kw, d in zip(a.kwonlyargs, a.kw_defaults):
            raise Refuse('%s: helper %s has keyword-only parameters' % (self.coq_name, fn.name))
        return env

    def inline(self, fn, call_sub, k_value):
        """run helper fn on the (substituted) call; k_value(value node or None) continues the caller"""
        if self.depth > 6:
            raise Refuse('%s: helper nesting too deep at %s' % (self.coq_name, fn.name))
        env_h = self.bind(fn, call_sub)
        self.depth += 1
        try:
            return self.block(fn.body, env_h, lambda e: k_value(None), k_value)
        finally:
            self.depth -= 1

    def hoist(self, expr, env):
        """(temp name, call node, rewritten expr) for the first helper call evaluated unconditionally inside
        expr, or None.  Calls under and/or/if-expressions/lambdas/comprehensions are never hoisted."""
        class Finder(ast.NodeTransformer):
            def __init__(s2):
                s2.found = None

            def generic_visit(s2, node):
                if s2.found is not None:
                    return node
                if isinstance(node, (ast.BoolOp, ast.IfExp, ast.Lambda, ast.ListComp, ast.SetComp, ast.DictComp,
                                     ast.GeneratorExp)):
                    if self.contains_helper(node):
                        raise Refuse('%s: helper call in a conditionally evaluated position: %s'
                                     % (self.coq_name, ast.unparse(node)))
                    return node
                return super().generic_visit(node)

            def visit_Call(s2, node):
                if s2.found is not None:
                    return node
                # arguments are evaluated before the call itself
                node = s2.generic_visit(node)
                if s2.found is not None:
                    return node
                if self.helper_of(node) is not None:
                    self.fresh += 1
                    name = '__h%d' % self.fresh
                    s2.found = (name, node)
                    return ast.Name(id=name, ctx=ast.Load())
                return node
        f = Finder()
        new = f.visit(copy.deepcopy(expr))
        if f.found is None:
            return None
        return f.found[0], f.found[1], ast.fix_missing_locations(new)

    # ---- conditions
    def cond(self, n, env):
        n2 = self.sub(n, env)
        return self.cond_s(n2)

    def cond_s(self, n):
        s = ast.unparse(n)
        if s in self.atoms:
            return '(CA %d)' % self.atoms[s]
        if isinstance(n, ast.Name) and n.id.startswith('__bound_'):
            return 'CT' if n.id.endswith('_T') else 'CF'
        if isinstance(n, ast.Constant) and n.value is True:
            return 'CT'
        if isinstance(n, ast.Constant) and (n.value is False or n.value is None):
            return 'CF'
        if isinstance(n, ast.Constant) and isinstance(n.value, str):
            return 'CT' if n.value else 'CF'
        if isinstance(n, ast.BoolOp):
            op = 'CAndb' if isinstance(n.op, ast.And) else 'COrb'
            xs = [self.cond_s(v) for v in n.values]
            out = xs[-1]
            for x in reversed(xs[:-1]):
                out = '(%s %s %s)' % (op, x, out)
            return out
        if isinstance(n, ast.UnaryOp) and isinstance(n.op, ast.Not):
            return '(CNeg %s)' % self.cond_s(n.operand)
        if isinstance(n, ast.Compare) and len(n.ops) == 1:
            op = n.ops[0]
            flip = {ast.NotIn: ast.In, ast.NotEq: ast.Eq, ast.IsNot: ast.Is}
            for neg, pos in flip.items():
                if isinstance(op, neg):
                    m = ast.Compare(left=n.left, ops=[pos()], comparators=n.comparators)
                    return '(CNeg %s)' % self.cond_s(ast.fix_missing_locations(m))
            if isinstance(op, ast.In) and isinstance(n.comparators[0], (ast.List, ast.Tuple, ast.Set)):
                # x in [a, b]  ==  x == a or x == b
                alts = [ast.Compare(left=n.left, ops=[ast.Eq()], comparators=[e])
                        for e in n.comparators[0].elts]
                if not alts:
                    return 'CF'
                xs = [self.cond_s(ast.fix_missing_locations(a)) for a in alts]
                out = xs[-1]
                for x in reversed(xs[:-1]):
                    out = '(COrb %s %s)' % (x, out)
                return out
            if isinstance(op, ast.Eq):
                # symmetric
                m = ast.Compare(left=n.comparators[0], ops=[ast.Eq()], comparators=[n.left])
                s2 = ast.unparse(m)
                if s2 in self.atoms:
                    return '(CA %d)' % self.atoms[s2]
                # two string constants compare statically
                if isinstance(n.left, ast.Constant) and isinstance(n.comparators[0], ast.Constant):
                    return 'CT' if n.left.value == n.comparators[0].value else 'CF'
        raise Refuse('%s: condition not in atom map: %s' % (self.coq_name, s))

    def branch(self, test, env, kt, kf):
        """decision on a condition that may contain helper calls: and/or/not are followed structurally (short
        circuit preserved), helper calls are inlined, anything else is an atom condition"""
        return self.branch_s(self.sub(test, env), kt, kf)

    def branch_s(self, test, kt, kf):
        if isinstance(test, ast.BoolOp) and self.contains_helper(test):
            first, rest = test.values[0], test.values[1:]
            more = rest[0] if len(rest) == 1 else ast.BoolOp(op=test.op, values=rest)
            if isinstance(test.op, ast.And):
                return self.branch_s(first, lambda: self.branch_s(more, kt, kf), kf)
            return self.branch_s(first, kt, lambda: self.branch_s(more, kt, kf))
        if isinstance(test, ast.UnaryOp) and isinstance(test.op, ast.Not) and self.contains_helper(test):
            return self.branch_s(test.operand, kf, kt)
        if isinstance(test, ast.Call) and self.helper_of(test) is not None:
            return self.inline(self.helper_of(test), test, lambda v: self.branch_value(v, kt, kf))
        if self.contains_helper(test):
            h = self.hoist(test, {})
            if h is None:
                raise Refuse('%s: cannot place helper call in %s' % (self.coq_name, ast.unparse(test)))
            name, call, new = h
            return self.inline(self.helper_of(call), call, lambda v: self.branch_s(
                self.sub(new, {name: v if v is not None else ast.Constant(value=None)}), kt, kf))
        return self.branch_value(test, kt, kf)

    def split_ifexp(self, node):
        """(test, node with the first conditional expression replaced by its body, ... by its orelse) or None"""
        found = []

        class F(ast.NodeVisitor):
            def visit_IfExp(s2, n):
                if not found:
                    found.append(n)

            def generic_visit(s2, n):
                if not found:
                    super().generic_visit(n)
        F().visit(node)
        if not found:
            return None
        target = found[0]

        def repl(which):
            class R(ast.NodeTransformer):
                def visit_IfExp(s2, n):
                    if n is tgt:
                        return copy.deepcopy(getattr(n, which))
                    return s2.generic_visit(n)
            c = copy.deepcopy(node)
            # find the corresponding node in the copy (same position in a preorder walk)
            orig_nodes = [n for n in ast.walk(node) if isinstance(n, ast.IfExp)]
            copy_nodes = [n for n in ast.walk(c) if isinstance(n, ast.IfExp)]
            tgt = copy_nodes[orig_nodes.index(target)]
            return ast.fix_missing_locations(R().visit(c))
        return target.test, repl('body'), repl('orelse')

    def branch_value(self, v, kt, kf):
        if v is None:
            return kf()
        sp = self.split_ifexp(v)
        if sp is not None:
            test, a, b = sp
            return self.branch_s(test, lambda: self.branch_s(a, kt, kf), lambda: self.branch_s(b, kt, kf))
        c = self.cond_s(v)
        if c == 'CT':
            return kt()
        if c == 'CF':
            return kf()
        return '(DIf %s %s %s)' % (c, kt(), kf())

    # ---- statements
    def skip(self, s):
        if isinstance(s, ast.Expr) and isinstance(s.value, ast.Constant):
            return True
        if isinstance(s, ast.Pass):
            return True
        text = ast.unparse(s)
        return any(text.startswith(p) for p in self.ignore)

    def ret_node(self, node):
        """node: an already substituted value (or None)"""
        text = 'None' if node is None else ast.unparse(node)
        if text.startswith('__bound_'):
            parts = text.split('_')
            idx, truth = int(parts[3]), parts[4]
            for k, v in self.atoms.items():
                if v == idx:
                    text = k + ('/truthy' if truth == 'T' else '/falsy')
        if text not in self.rets:
            raise Refuse('%s: unknown return value: %s' % (self.coq_name, text))
        return '(DRet %d)' % self.rets[text]

    def block(self, stmts, env, k, kret=None):
        if kret is None:
            kret = self.ret_node
        if not stmts:
            return k(env)
        s, rest = stmts[0], stmts[1:]
        if self.skip(s):
            return self.block(rest, env, k, kret)
        if isinstance(s, ast.Return):
            if s.value is None:
                return kret(None)
            val = self.sub(s.value, env)
            if isinstance(val, ast.Call) and self.helper_of(val) is not None:
                return self.inline(self.helper_of(val), val, kret)
            if self.contains_helper(val):
                name, call, new = self.hoist(val, {})
                return self.inline(self.helper_of(call), call, lambda v: self.block(
                    [ast.fix_missing_locations(ast.Return(value=new, lineno=1, col_offset=0))], {name: v if v is not None else ast.Constant(value=None)}, k, kret))
            if isinstance(val, ast.IfExp):
                return self.branch_s(val.test, lambda: self.block([ast.fix_missing_locations(ast.Return(value=val.body, lineno=1, col_offset=0))], {}, k, kret),
                                     lambda: self.block([ast.fix_missing_locations(ast.Return(value=val.orelse, lineno=1, col_offset=0))], {}, k, kret))
            return kret(val)
        if isinstance(s, ast.Raise):
            if s.exc is None:
                raise Refuse('%s: bare raise' % self.coq_name)
            text = ast.unparse(self.sub(s.exc, env))
            for p, tag in self.raises.items():
                if text.startswith(p):
                    return '(DRaise %d)' % tag
            raise Refuse('%s: unknown raise: %s' % (self.coq_name, text))
        if isinstance(s, ast.Expr) and isinstance(s.value, ast.Call):
            val = self.sub(s.value, env)
            if self.helper_of(val) is not None:
                return self.inline(self.helper_of(val), val, lambda v: self.block(rest, env, k, kret))
        if isinstance(s, ast.Assign) and len(s.targets) == 1 and isinstance(s.targets[0], ast.Name):
            name = s.targets[0].id
            val = self.sub(s.value, env)
            text = ast.unparse(val)
            if text in self.effectful:
                idx = self.atoms[text]
                outs = []
                for truth in (True, False):
                    env2 = dict(env)
                    env2[name] = Bound(text, idx, truth)
                    outs.append(self.block(rest, env2, k, kret))
                return '(DIf (CA %d) %s %s)' % (idx, outs[0], outs[1])
            if isinstance(val, ast.IfExp):
                # x = a if c else b: decided where it is bound (c is evaluated there)
                def bound(v):
                    return self.block([ast.fix_missing_locations(ast.Assign(targets=s.targets, value=v, lineno=1, col_offset=0))] + list(rest), env, k, kret)
                return self.branch_s(val.test, lambda: bound(val.body), lambda: bound(val.orelse))
            if isinstance(val, ast.Call) and self.helper_of(val) is not None:
                def after(v):
                    env2 = dict(env)
                    env2[name] = v if v is not None else ast.Constant(value=None)
                    return self.block(rest, env2, k, kret)
                return self.inline(self.helper_of(val), val, after)
            if self.contains_helper(val):
                hname, call, new = self.hoist(val, {})

                def after2(v):
                    env2 = dict(env)
                    env2[hname] = v if v is not None else ast.Constant(value=None)
                    return self.block([ast.fix_missing_locations(ast.Assign(targets=s.targets, value=new, lineno=1, col_offset=0))] + list(rest), env2, k, kret)
                return self.inline(self.helper_of(call), call, after2)
            env2 = dict(env)
            env2[name] = val
            return self.block(rest, env2, k, kret)
        if isinstance(s, ast.If):
            def kk(e2):
                return self.block(rest, e2, k, kret)
            tsub = self.sub(s.test, env)
            if self.contains_helper(tsub) or any(isinstance(n, ast.IfExp) for n in ast.walk(tsub)):
                return self.branch(s.test, env, lambda: self.block(s.body, env, kk, kret),
                                   lambda: self.block(s.orelse, env, kk, kret))
            c = self.cond(s.test, env)
            if c == 'CT':
                return self.block(s.body, env, kk, kret)
            if c == 'CF':
                return self.block(s.orelse, env, kk, kret)
            return '(DIf %s %s %s)' % (c, self.block(s.body, env, kk, kret),
                                       self.block(s.orelse, env, kk, kret))
        if isinstance(s, ast.Try):
            # try: x = ATOM  except E: A  else: B      (ATOM raises exactly raising[ATOM])
            if len(s.body) == 1 and isinstance(s.body[0], ast.Assign) and \
                    len(s.handlers) == 1 and not s.finalbody and \
                    isinstance(s.body[0].targets[0], ast.Name):
                val = self.sub(s.body[0].value, env)
                text = ast.unparse(val)
                okatom = text + '/ok'
                if okatom in self.atoms and text in self.raising:
                    from gen_checks import handler_classes
                    classes = handler_classes(s.handlers[0])
                    exc = self.raising[text]
                    sup = {'KeyError': {'XKeyError', 'XLookupError', 'XException',
                                        'XBaseException'}}
                    caught = bool(set(classes) & sup.get(exc, {'XException', 'XBaseException'}))

                    def kk(e2):
                        return self.block(rest, e2, k, kret)
                    env_ok = dict(env)
                    env_ok[s.body[0].targets[0].id] = val
                    ok_branch = self.block(s.orelse, env_ok, kk, kret) if s.orelse else kk(env_ok)
                    if caught:
                        bad_branch = self.block(s.handlers[0].body, env, kk, kret)
                    else:
                        if exc not in self.raises:
                            raise Refuse('%s: uncaught %s has no tag' % (self.coq_name, exc))
                        bad_branch = '(DRaise %d)' % self.raises[exc]
                    return '(DIf (CA %d) %s %s)' % (self.atoms[okatom], ok_branch, bad_branch)
            raise Refuse('%s: try statement has an unknown shape' % self.coq_name)
        raise Refuse('%s: statement: %s' % (self.coq_name, ast.unparse(s).splitlines()[0]))

    def translate(self, body):
        def k(env):
            if self.fall_off not in self.rets:
                raise Refuse('%s: falls off the end' % self.coq_name)
            return '(DRet %d)' % self.rets[self.fall_off]
        tree = self.block(body, {}, k)
        doc = '(* %s atoms:\n' % self.coq_name
        for t, i in sorted(self.atoms.items(), key=lambda x: x[1]):
            doc += '     %d: %s\n' % (i, t.replace('(*', '( *').replace('*)', '* )'))
        doc += '   returns: %s\n   raises: %s *)\n' % (
            ', '.join('%d=%s' % (v, k.replace('(*', '( *').replace('*)', '* )'))
                      for k, v in sorted(self.rets.items(), key=lambda x: x[1])),
            ', '.join('%d=%s' % (v, k.replace('(*', '( *').replace('*)', '* )'))
                      for k, v in sorted(self.raises.items(), key=lambda x: x[1])))
        n = max(self.atoms.values()) + 1 if self.atoms else 0
        return doc + 'Definition %s : dt :=\n  %s.\nDefinition %s_natoms : nat := %d.\n\n' % (
            self.coq_name, tree, self.coq_name, n)


def within(node, root):
    return any(n is node for n in ast.walk(root))


def inert_block(root, scope, what, depth):
    """names assigned inside root; refuses anything that could change what the caller does afterwards"""
    if depth > 3:
        raise Refuse('%s: helper nesting too deep' % what)
    assigned = set()
    top = root
    for n in ast.walk(root):
        if isinstance(n, (ast.Assign, ast.AugAssign, ast.AnnAssign)):
            for t in (n.targets if isinstance(n, ast.Assign) else [n.target]):
                if not isinstance(t, ast.Name):
                    raise Refuse('%s assigns to %s' % (what, ast.unparse(t)))
                assigned.add(t.id)
        if isinstance(n, (ast.Raise, ast.Delete, ast.Global, ast.Nonlocal, ast.Yield, ast.YieldFrom, ast.Await)):
            raise Refuse('%s contains %s' % (what, type(n).__name__))
        if isinstance(n, ast.Return) and depth == 0:
            raise Refuse('%s contains Return' % what)
        if isinstance(n, (ast.For, ast.While, ast.With, ast.NamedExpr)):
            raise Refuse('%s contains %s' % (what, type(n).__name__))
        if isinstance(n, ast.ExceptHandler) and n.name:
            assigned.add(n.name)
        if isinstance(n, ast.Call):
            h = scope.lookup(n.func)
            if h is not None:
                inert_block(ast.Module(body=h.body, type_ignores=[]), scope, '%s: helper %s' % (what, h.name), depth + 1)
            elif isinstance(n.func, ast.Attribute) and isinstance(n.func.value, ast.Name) and \
                    n.func.value.id in ('self', 'cls'):
                raise Refuse('%s calls %s' % (what, ast.unparse(n.func)))
    return assigned


def splice_helpers(stmts, scope, what):
    """straight-line statements with calls `x = self.h(..)` / `self.h(..)` to helpers of the class replaced by the
    helper's body (single trailing return), parameters substituted -- so that extracting part of a fixed
    prefix into a method leaves the prefix as it was"""
    out = []
    for st in stmts:
        call, target = None, None
        if isinstance(st, ast.Assign) and len(st.targets) == 1 and isinstance(st.targets[0], ast.Name) and \
                isinstance(st.value, ast.Call):
            call, target = st.value, st.targets[0].id
        elif isinstance(st, ast.Expr) and isinstance(st.value, ast.Call):
            call = st.value
        h = scope.lookup(call.func) if call is not None else None
        if h is None or ast.unparse(call) == 'self.load_rules()':
            out.append(st)
            continue
        body = [x for x in h.body if not (isinstance(x, ast.Expr) and isinstance(x.value, ast.Constant))]
        rets = [n for x in body for n in ast.walk(x) if isinstance(n, ast.Return)]
        if len(rets) > 1 or (rets and rets[0] is not body[-1]):
            out.append(st)      # not straight-line: left for the checks that follow to judge
            continue
        f = Fn(what, {}, {}, {}, scope=scope)
        env = f.bind(h, call)
        local = {n.id for x in body for n in ast.walk(x) if isinstance(n, ast.Name) and isinstance(n.ctx, ast.Store)}
        for p, v in list(env.items()):
            if p in local:
                if not (isinstance(v, ast.Name) and v.id == p):
                    raise Refuse('%s: helper %s rebinds parameter %s' % (what, h.name, p))
                del env[p]
        new = [ast.fix_missing_locations(Subst(env).visit(copy.deepcopy(x))) for x in (body[:-1] if rets else body)]
        out += splice_helpers(new, scope, what)
        if rets and target is not None:
            rv = rets[0].value
            rv = ast.fix_missing_locations(Subst(env).visit(copy.deepcopy(rv))) if rv is not None else ast.Constant(value=None)
            if not (isinstance(rv, ast.Name) and rv.id == target):
                out.append(ast.fix_missing_locations(ast.Assign(targets=[ast.Name(id=target, ctx=ast.Store())], value=rv)))
    return out


def gen_trees(mod):
    out = ''
    rules = find_class(mod, 'Rules')
    enf = find_class(mod, 'Enforcer')

    # ---- Rules.__missing__
    sc_rules, sc_enf, sc_mod = Scope(mod, rules), Scope(mod, enf), Scope(mod)
    f = Fn('missing_tree', scope=sc_rules,
           atoms={'isinstance(self.default_rule, dict)': 0,
                  'self.default_rule': 1,
                  'isinstance(self.default_rule, _checks.BaseCheck)': 2,
                  'self.default_rule in self': 3,
                  'isinstance(self.default_rule, str)': 4},
           rets={'None': 0, 'self.default_rule': 1, 'self[self.default_rule]': 2},
           raises={'KeyError(': 0})
    out += f.translate(find_func(rules.body, '__missing__').body)

    # ---- Enforcer._enforce_scope
    f = Fn('scope_tree', scope=sc_enf,
           atoms={"creds.get('system')": 0,
                  "creds.get('domain_id')": 1,
                  "'system' in rule.scope_types": 2,
                  "'domain' in rule.scope_types": 3,
                  "'project' in rule.scope_types": 4,
                  'self.conf.oslo_policy.enforce_scope': 5,
                  'do_raise': 6},
           rets={'True': 1, 'False': 0},
           raises={"InvalidScope(rule, rule.scope_types, 'system')": 0,
                   "InvalidScope(rule, rule.scope_types, 'domain')": 1,
                   "InvalidScope(rule, rule.scope_types, 'project')": 2},
           ignore=('msg =', 'warnings.warn(', 'LOG.'))
    out += f.translate(find_func(enf.body, '_enforce_scope').body)

    # ---- Enforcer.enforce: fixed prefix (checked textually), then the decision part as a tree
    enforce = find_func(enf.body, 'enforce')
    body = [x for x in enforce.body if not (isinstance(x, ast.Expr) and isinstance(x.value, ast.Constant))]
    idx = None
    for i, st in enumerate(body):
        if isinstance(st, ast.If) and ast.unparse(st.test) == 'isinstance(rule, _checks.BaseCheck)':
            idx = i
    if idx is None:
        raise Refuse('enforce: dispatch on isinstance(rule, _checks.BaseCheck) not found')
    prefix = splice_helpers(body[:idx], sc_enf, 'enforce')
    want_prefix = [
        'self.load_rules()',
        None,   # the credential type gate, checked below
        "if creds.get('system_scope'):\n    creds['system'] = creds.get('system_scope')",
        None,   # the debug dump, checked below
    ]
    if len(prefix) != 4:
        raise Refuse('enforce: prefix has %d statements, expected 4' % len(prefix))
    for st, want in zip(prefix, want_prefix):
        if want is not None and ast.unparse(st) != want:
            raise Refuse('enforce: prefix statement changed: %s' % ast.unparse(st).splitlines()[0])
    gate = prefix[1]
    ok = isinstance(gate, ast.If) and ast.unparse(gate.test) == 'isinstance(creds, context.RequestContext)' \
        and [ast.unparse(x) for x in gate.body] == ['creds = self._map_context_attributes_into_creds(creds)'] \
        and len(gate.orelse) == 1 and isinstance(gate.orelse[0], ast.If) \
        and ast.unparse(gate.orelse[0].test) == 'not isinstance(creds, collections.abc.MutableMapping)' \
        and not gate.orelse[0].orelse \
        and ast.unparse(gate.orelse[0].body[-1]) == 'raise InvalidContextObject(msg)' \
        and all(ast.unparse(x).startswith('msg =') for x in gate.orelse[0].body[:-1])
    if not ok:
        raise Refuse('enforce: credential type gate has an unknown shape')
    dbg = prefix[3]
    if not (isinstance(dbg, ast.If) and ast.unparse(dbg.test) == 'LOG.isEnabledFor(logging.DEBUG)'
            and not dbg.orelse):
        raise Refuse('enforce: debug block has an unknown shape')
    # the debug block may compute whatever it likes into names nothing else uses; it may not return, raise,
    # delete, or write through anything; helpers of the class it calls must be just as inert
    assigned = inert_block(dbg, sc_enf, 'enforce: debug block', 0)
    a = enforce.args
    protected = {x.arg for x in a.args + a.kwonlyargs + a.posonlyargs}
    protected |= {x.arg for x in (a.vararg, a.kwarg) if x is not None}
    for n in ast.walk(enforce):
        if isinstance(n, ast.Name) and isinstance(n.ctx, ast.Store) and not within(n, dbg):
            protected.add(n.id)
    if assigned & protected:
        raise Refuse('enforce: debug block assigns to %s' % sorted(assigned & protected))
    chk_obj = '_checks._check(rule=rule, target=target, creds=creds, enforcer=self, current_rule=None)'
    chk_name = '_checks._check(rule=self.rules[rule], target=target, creds=creds, enforcer=self, current_rule=rule)'
    sc_obj = 'self._enforce_scope(creds, rule, do_raise=do_raise)'
    sc_name = 'self._enforce_scope(creds, self.registered_rules.get(rule), do_raise=do_raise)'
    f = Fn('enforce_tree', scope=sc_enf,
           atoms={'isinstance(rule, _checks.BaseCheck)': 0,
                  'rule.scope_types': 1,
                  sc_obj: 2,
                  chk_obj: 3,
                  'self.rules': 4,
                  'self.rules[rule]/ok': 5,
                  'self.registered_rules.get(rule)': 6,
                  'self.registered_rules.get(rule).scope_types': 7,
                  sc_name: 8,
                  chk_name: 9,
                  'do_raise': 10,
                  'exc': 11},
           rets={'False': 0, chk_obj + '/truthy': 1, chk_obj + '/falsy': 2,
                 chk_name + '/truthy': 3, chk_name + '/falsy': 4},
           raises={'exc(*args, **kwargs)': 0, 'PolicyNotAuthorized(rule, target, creds)': 1,
                   'KeyError': 2},
           ignore=('LOG.',),
           effectful=(sc_obj, chk_obj, sc_name, chk_name),
           raising={'self.rules[rule]': 'KeyError'})
    out += f.translate(body[idx:])

    # ---- Enforcer.authorize
    f = Fn('authorize_tree', scope=sc_enf,
           atoms={'rule in self.registered_rules': 0},
           rets={'self.enforce(rule, target, creds, do_raise, exc, *args, **kwargs)': 0},
           raises={'PolicyNotRegistered(rule)': 0})
    out += f.translate(find_func(enf.body, 'authorize').body)

    # ---- Enforcer._handle_deprecated_rule
    fr = 'self.file_rules[default.deprecated_rule.name]'
    f = Fn('deprecated_tree', scope=sc_enf,
           atoms={'default.deprecated_rule.name == default.name': 0,
                  'default.deprecated_rule.name in self.file_rules': 1,
                  fr + '.check == default.deprecated_rule.check': 2,
                  "str(%s.check) == 'rule:%%s' %% default.name" % fr: 3,
                  'default.name in self.file_rules.keys()': 4,
                  'default.name in self.file_rules': 4,
                  'self.conf.oslo_policy.enforce_new_defaults': 5,
                  'default.deprecated_rule.check_str == default.check_str': 6,
                  'self.suppress_deprecation_warnings': 7,
                  'self.suppress_default_change_warnings': 8},
           rets={'default.check': 0, fr + '.check': 1,
                 'OrCheck([default.check, default.deprecated_rule.check])': 2},
           raises={},
           ignore=('deprecated_reason =', 'deprecated_since =', 'deprecated_msg =', 'warnings.warn('))
    out += f.translate(find_func(enf.body, '_handle_deprecated_rule').body)

    # ---- pick_default_policy_file
    loc = "conf.get_location('policy_file', 'oslo_policy').location"
    f = Fn('pick_tree', scope=sc_mod,
           atoms={"conf.oslo_policy.policy_file == 'policy.yaml'": 0,
                  'fallback_to_json_file': 1,
                  'conf.find_file(conf.oslo_policy.policy_file)': 2,
                  loc + ' == cfg.Locations.opt_default': 3,
                  loc + ' == cfg.Locations.set_default': 4,
                  "conf.find_file('policy.json')": 5,
                  'conf.oslo_policy.policy_file': 6},
           rets={'conf.oslo_policy.policy_file': 0, "'policy.json'": 1},
           raises={},
           ignore=('LOG.',))
    out += f.translate(find_func(mod.body, 'pick_default_policy_file').body)
    return out
