"""Decision-function translator: a Python function body -> Base.DTree.dt (fail-closed).

Handles exactly: if/elif/else, return, raise, assignment of a local to an expression,
and/or/not, ==, !=, in, not in, is (not) None, and sub-expressions that appear in the function's
*atom map* (normalised `ast.unparse` text -> atom index).  Locals are substituted symbolically;
an atom declared effectful is evaluated where it is bound (the tree branches on it there).
`try: x = ATOM / except E: A / else: B` is accepted when the atom map says which exception the
atom raises.  Statements whose text starts with an ignore prefix are skipped.  Anything else is a
refusal."""
import ast
import copy

from gen import Refuse, find_class, find_func


class Bound:
    """a local bound to an effectful atom whose truth value is known on this path"""
    def __init__(self, atom_text, idx, truth):
        self.atom_text, self.idx, self.truth = atom_text, idx, truth


class Subst(ast.NodeTransformer):
    def __init__(self, env):
        self.env = env

    def visit_Name(self, n):
        if isinstance(n.ctx, ast.Load) and n.id in self.env:
            v = self.env[n.id]
            if isinstance(v, Bound):
                return ast.Name(id='__bound_%d_%s' % (v.idx, 'T' if v.truth else 'F'),
                                ctx=ast.Load())
            return copy.deepcopy(v)
        return n


class Fn:
    def __init__(self, coq_name, atoms, rets, raises, ignore=(), effectful=(), raising=None,
                 fall_off='None'):
        self.coq_name = coq_name
        self.atoms = atoms          # text -> index
        self.rets = rets            # text -> tag
        self.raises = raises        # text prefix -> tag
        self.ignore = ignore
        self.effectful = set(effectful)   # atom texts evaluated at binding
        self.raising = raising or {}      # atom text -> exception class name it may raise
        self.fall_off = fall_off

    def sub(self, node, env):
        return ast.fix_missing_locations(Subst(env).visit(copy.deepcopy(node)))

    # ---- conditions
    def cond(self, n, env):
        n2 = self.sub(n, env)
        return self.cond_s(n2)

    def cond_s(self, n):
        s = ast.unparse(n)
        if s in self.atoms:
            return '(CA %d)' % self.atoms[s]
        if isinstance(n, ast.Name) and n.id.startswith('__bound_'):
            return 'CT' if n.id.endswith('_T') else 'CF'
        if isinstance(n, ast.Constant) and n.value is True:
            return 'CT'
        if isinstance(n, ast.Constant) and (n.value is False or n.value is None):
            return 'CF'
        if isinstance(n, ast.Constant) and isinstance(n.value, str):
            return 'CT' if n.value else 'CF'
        if isinstance(n, ast.BoolOp):
            op = 'CAndb' if isinstance(n.op, ast.And) else 'COrb'
            xs = [self.cond_s(v) for v in n.values]
            out = xs[-1]
            for x in reversed(xs[:-1]):
                out = '(%s %s %s)' % (op, x, out)
            return out
        if isinstance(n, ast.UnaryOp) and isinstance(n.op, ast.Not):
            return '(CNeg %s)' % self.cond_s(n.operand)
        if isinstance(n, ast.Compare) and len(n.ops) == 1:
            op = n.ops[0]
            flip = {ast.NotIn: ast.In, ast.NotEq: ast.Eq, ast.IsNot: ast.Is}
            for neg, pos in flip.items():
                if isinstance(op, neg):
                    m = ast.Compare(left=n.left, ops=[pos()], comparators=n.comparators)
                    return '(CNeg %s)' % self.cond_s(ast.fix_missing_locations(m))
            if isinstance(op, ast.In) and isinstance(n.comparators[0], (ast.List, ast.Tuple)):
                # x in [a, b]  ==  x == a or x == b
                alts = [ast.Compare(left=n.left, ops=[ast.Eq()], comparators=[e])
                        for e in n.comparators[0].elts]
                xs = [self.cond_s(ast.fix_missing_locations(a)) for a in alts]
                out = xs[-1]
                for x in reversed(xs[:-1]):
                    out = '(COrb %s %s)' % (x, out)
                return out
            if isinstance(op, ast.Eq):
                # symmetric
                m = ast.Compare(left=n.comparators[0], ops=[ast.Eq()], comparators=[n.left])
                s2 = ast.unparse(m)
                if s2 in self.atoms:
                    return '(CA %d)' % self.atoms[s2]
                # two string constants compare statically
                if isinstance(n.left, ast.Constant) and isinstance(n.comparators[0], ast.Constant):
                    return 'CT' if n.left.value == n.comparators[0].value else 'CF'
        raise Refuse('%s: condition not in atom map: %s' % (self.coq_name, s))

    # ---- statements
    def skip(self, s):
        if isinstance(s, ast.Expr) and isinstance(s.value, ast.Constant):
            return True
        if isinstance(s, ast.Pass):
            return True
        text = ast.unparse(s)
        return any(text.startswith(p) for p in self.ignore)

    def ret(self, value, env):
        if value is None:
            text = 'None'
        else:
            text = ast.unparse(self.sub(value, env))
        if text.startswith('__bound_'):
            parts = text.split('_')
            idx, truth = int(parts[3]), parts[4]
            for k, v in self.atoms.items():
                if v == idx:
                    text = k + ('/truthy' if truth == 'T' else '/falsy')
        if text not in self.rets:
            raise Refuse('%s: unknown return value: %s' % (self.coq_name, text))
        return '(DRet %d)' % self.rets[text]

    def block(self, stmts, env, k):
        if not stmts:
            return k(env)
        s, rest = stmts[0], stmts[1:]
        if self.skip(s):
            return self.block(rest, env, k)
        if isinstance(s, ast.Return):
            return self.ret(s.value, env)
        if isinstance(s, ast.Raise):
            if s.exc is None:
                raise Refuse('%s: bare raise' % self.coq_name)
            text = ast.unparse(self.sub(s.exc, env))
            for p, tag in self.raises.items():
                if text.startswith(p):
                    return '(DRaise %d)' % tag
            raise Refuse('%s: unknown raise: %s' % (self.coq_name, text))
        if isinstance(s, ast.Assign) and len(s.targets) == 1 and isinstance(s.targets[0], ast.Name):
            name = s.targets[0].id
            val = self.sub(s.value, env)
            text = ast.unparse(val)
            if text in self.effectful:
                idx = self.atoms[text]
                outs = []
                for truth in (True, False):
                    env2 = dict(env)
                    env2[name] = Bound(text, idx, truth)
                    outs.append(self.block(rest, env2, k))
                return '(DIf (CA %d) %s %s)' % (idx, outs[0], outs[1])
            env2 = dict(env)
            env2[name] = val
            return self.block(rest, env2, k)
        if isinstance(s, ast.If):
            c = self.cond(s.test, env)

            def kk(e2):
                return self.block(rest, e2, k)
            if c == 'CT':
                return self.block(s.body, env, kk)
            if c == 'CF':
                return self.block(s.orelse, env, kk)
            return '(DIf %s %s %s)' % (c, self.block(s.body, env, kk),
                                       self.block(s.orelse, env, kk))
        if isinstance(s, ast.Try):
            # try: x = ATOM  except E: A  else: B      (ATOM raises exactly raising[ATOM])
            if len(s.body) == 1 and isinstance(s.body[0], ast.Assign) and \
                    len(s.handlers) == 1 and not s.finalbody and \
                    isinstance(s.body[0].targets[0], ast.Name):
                val = self.sub(s.body[0].value, env)
                text = ast.unparse(val)
                okatom = text + '/ok'
                if okatom in self.atoms and text in self.raising:
                    from gen_checks import handler_classes
                    classes = handler_classes(s.handlers[0])
                    exc = self.raising[text]
                    sup = {'KeyError': {'XKeyError', 'XLookupError', 'XException',
                                        'XBaseException'}}
                    caught = bool(set(classes) & sup.get(exc, {'XException', 'XBaseException'}))

                    def kk(e2):
                        return self.block(rest, e2, k)
                    env_ok = dict(env)
                    env_ok[s.body[0].targets[0].id] = val
                    ok_branch = self.block(s.orelse, env_ok, kk) if s.orelse else kk(env_ok)
                    if caught:
                        bad_branch = self.block(s.handlers[0].body, env, kk)
                    else:
                        if exc not in self.raises:
                            raise Refuse('%s: uncaught %s has no tag' % (self.coq_name, exc))
                        bad_branch = '(DRaise %d)' % self.raises[exc]
                    return '(DIf (CA %d) %s %s)' % (self.atoms[okatom], ok_branch, bad_branch)
            raise Refuse('%s: try statement has an unknown shape' % self.coq_name)
        raise Refuse('%s: statement: %s' % (self.coq_name, ast.unparse(s).splitlines()[0]))

    def translate(self, body):
        def k(env):
            if self.fall_off not in self.rets:
                raise Refuse('%s: falls off the end' % self.coq_name)
            return '(DRet %d)' % self.rets[self.fall_off]
        tree = self.block(body, {}, k)
        doc = '(* %s atoms:\n' % self.coq_name
        for t, i in sorted(self.atoms.items(), key=lambda x: x[1]):
            doc += '     %d: %s\n' % (i, t.replace('(*', '( *').replace('*)', '* )'))
        doc += '   returns: %s\n   raises: %s *)\n' % (
            ', '.join('%d=%s' % (v, k.replace('(*', '( *').replace('*)', '* )'))
                      for k, v in sorted(self.rets.items(), key=lambda x: x[1])),
            ', '.join('%d=%s' % (v, k.replace('(*', '( *').replace('*)', '* )'))
                      for k, v in sorted(self.raises.items(), key=lambda x: x[1])))
        n = max(self.atoms.values()) + 1 if self.atoms else 0
        return doc + 'Definition %s : dt :=\n  %s.\nDefinition %s_natoms : nat := %d.\n\n' % (
            self.coq_name, tree, self.coq_name, n)


def gen_trees(mod):
    out = ''
    rules = find_class(mod, 'Rules')
    enf = find_class(mod, 'Enforcer')

    # ---- Rules.__missing__
    f = Fn('missing_tree',
           atoms={'isinstance(self.default_rule, dict)': 0,
                  'self.default_rule': 1,
                  'isinstance(self.default_rule, _checks.BaseCheck)': 2,
                  'self.default_rule in self': 3,
                  'isinstance(self.default_rule, str)': 4},
           rets={'None': 0, 'self.default_rule': 1, 'self[self.default_rule]': 2},
           raises={'KeyError(': 0})
    out += f.translate(find_func(rules.body, '__missing__').body)

    # ---- Enforcer._enforce_scope
    f = Fn('scope_tree',
           atoms={"creds.get('system')": 0,
                  "creds.get('domain_id')": 1,
                  "'system' in rule.scope_types": 2,
                  "'domain' in rule.scope_types": 3,
                  "'project' in rule.scope_types": 4,
                  'self.conf.oslo_policy.enforce_scope': 5,
                  'do_raise': 6},
           rets={'True': 1, 'False': 0},
           raises={"InvalidScope(rule, rule.scope_types, 'system')": 0,
                   "InvalidScope(rule, rule.scope_types, 'domain')": 1,
                   "InvalidScope(rule, rule.scope_types, 'project')": 2},
           ignore=('msg =', 'warnings.warn(', 'LOG.'))
    out += f.translate(find_func(enf.body, '_enforce_scope').body)

    # ---- Enforcer.enforce: fixed prefix (checked textually), then the decision part as a tree
    enforce = find_func(enf.body, 'enforce')
    body = [x for x in enforce.body if not (isinstance(x, ast.Expr) and isinstance(x.value, ast.Constant))]
    idx = None
    for i, st in enumerate(body):
        if isinstance(st, ast.If) and ast.unparse(st.test) == 'isinstance(rule, _checks.BaseCheck)':
            idx = i
    if idx is None:
        raise Refuse('enforce: dispatch on isinstance(rule, _checks.BaseCheck) not found')
    prefix = body[:idx]
    want_prefix = [
        'self.load_rules()',
        None,   # the credential type gate, checked below
        "if creds.get('system_scope'):\n    creds['system'] = creds.get('system_scope')",
        None,   # the debug dump, checked below
    ]
    if len(prefix) != 4:
        raise Refuse('enforce: prefix has %d statements, expected 4' % len(prefix))
    for st, want in zip(prefix, want_prefix):
        if want is not None and ast.unparse(st) != want:
            raise Refuse('enforce: prefix statement changed: %s' % ast.unparse(st).splitlines()[0])
    gate = prefix[1]
    ok = isinstance(gate, ast.If) and ast.unparse(gate.test) == 'isinstance(creds, context.RequestContext)' \
        and [ast.unparse(x) for x in gate.body] == ['creds = self._map_context_attributes_into_creds(creds)'] \
        and len(gate.orelse) == 1 and isinstance(gate.orelse[0], ast.If) \
        and ast.unparse(gate.orelse[0].test) == 'not isinstance(creds, collections.abc.MutableMapping)' \
        and not gate.orelse[0].orelse \
        and ast.unparse(gate.orelse[0].body[-1]) == 'raise InvalidContextObject(msg)' \
        and all(ast.unparse(x).startswith('msg =') for x in gate.orelse[0].body[:-1])
    if not ok:
        raise Refuse('enforce: credential type gate has an unknown shape')
    dbg = prefix[3]
    if not (isinstance(dbg, ast.If) and ast.unparse(dbg.test) == 'LOG.isEnabledFor(logging.DEBUG)'
            and not dbg.orelse):
        raise Refuse('enforce: debug block has an unknown shape')
    assigned = set()
    for n in ast.walk(dbg):
        if isinstance(n, (ast.Assign, ast.AugAssign, ast.AnnAssign)):
            for t in (n.targets if isinstance(n, ast.Assign) else [n.target]):
                if not isinstance(t, ast.Name):
                    raise Refuse('enforce: debug block assigns to %s' % ast.unparse(t))
                assigned.add(t.id)
        if isinstance(n, (ast.Return, ast.Raise, ast.Delete, ast.Global, ast.Nonlocal)):
            raise Refuse('enforce: debug block contains %s' % type(n).__name__)
        if isinstance(n, ast.ExceptHandler) and n.name:
            assigned.add(n.name)
    if not assigned <= {'creds_dict', 'creds_msg', 'target_dict', 'target_msg', 'e'}:
        raise Refuse('enforce: debug block assigns to %s' % sorted(assigned))
    chk_obj = '_checks._check(rule=rule, target=target, creds=creds, enforcer=self, current_rule=None)'
    chk_name = '_checks._check(rule=self.rules[rule], target=target, creds=creds, enforcer=self, current_rule=rule)'
    sc_obj = 'self._enforce_scope(creds, rule, do_raise=do_raise)'
    sc_name = 'self._enforce_scope(creds, self.registered_rules.get(rule), do_raise=do_raise)'
    f = Fn('enforce_tree',
           atoms={'isinstance(rule, _checks.BaseCheck)': 0,
                  'rule.scope_types': 1,
                  sc_obj: 2,
                  chk_obj: 3,
                  'self.rules': 4,
                  'self.rules[rule]/ok': 5,
                  'self.registered_rules.get(rule)': 6,
                  'self.registered_rules.get(rule).scope_types': 7,
                  sc_name: 8,
                  chk_name: 9,
                  'do_raise': 10,
                  'exc': 11},
           rets={'False': 0, chk_obj + '/truthy': 1, chk_obj + '/falsy': 2,
                 chk_name + '/truthy': 3, chk_name + '/falsy': 4},
           raises={'exc(*args, **kwargs)': 0, 'PolicyNotAuthorized(rule, target, creds)': 1,
                   'KeyError': 2},
           ignore=('LOG.',),
           effectful=(sc_obj, chk_obj, sc_name, chk_name),
           raising={'self.rules[rule]': 'KeyError'})
    out += f.translate(body[idx:])

    # ---- Enforcer.authorize
    f = Fn('authorize_tree',
           atoms={'rule in self.registered_rules': 0},
           rets={'self.enforce(rule, target, creds, do_raise, exc, *args, **kwargs)': 0},
           raises={'PolicyNotRegistered(rule)': 0})
    out += f.translate(find_func(enf.body, 'authorize').body)

    # ---- Enforcer._handle_deprecated_rule
    fr = 'self.file_rules[default.deprecated_rule.name]'
    f = Fn('deprecated_tree',
           atoms={'default.deprecated_rule.name == default.name': 0,
                  'default.deprecated_rule.name in self.file_rules': 1,
                  fr + '.check == default.deprecated_rule.check': 2,
                  "str(%s.check) == 'rule:%%s' %% default.name" % fr: 3,
                  'default.name in self.file_rules.keys()': 4,
                  'default.name in self.file_rules': 4,
                  'self.conf.oslo_policy.enforce_new_defaults': 5,
                  'default.deprecated_rule.check_str == default.check_str': 6,
                  'self.suppress_deprecation_warnings': 7,
                  'self.suppress_default_change_warnings': 8},
           rets={'default.check': 0, fr + '.check': 1,
                 'OrCheck([default.check, default.deprecated_rule.check])': 2},
           raises={},
           ignore=('deprecated_reason =', 'deprecated_since =', 'deprecated_msg =', 'warnings.warn('))
    out += f.translate(find_func(enf.body, '_handle_deprecated_rule').body)

    # ---- pick_default_policy_file
    loc = "conf.get_location('policy_file', 'oslo_policy').location"
    f = Fn('pick_tree',
           atoms={"conf.oslo_policy.policy_file == 'policy.yaml'": 0,
                  'fallback_to_json_file': 1,
                  'conf.find_file(conf.oslo_policy.policy_file)': 2,
                  loc + ' == cfg.Locations.opt_default': 3,
                  loc + ' == cfg.Locations.set_default': 4,
                  "conf.find_file('policy.json')": 5,
                  'conf.oslo_policy.policy_file': 6},
           rets={'conf.oslo_policy.policy_file': 0, "'policy.json'": 1},
           raises={},
           ignore=('LOG.',))
    out += f.translate(find_func(mod.body, 'pick_default_policy_file').body)
    return out
