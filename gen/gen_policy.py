"""Gen/GPolicy.v: facts and decision trees read off policy.py, _cache_handler.py, opts.py."""
import ast

from gen import Refuse, parse, find_class, find_func, coq_str, coq_list, HEADER
from gen_checks import handler_classes, tries_of
import dtree


def walker_facts(fn, self_call):
    """Which child attributes does a reference walker descend into?
    Recognised: `rules = getattr(check, 'rules', None)` + loop over rules calling itself;
    `isinstance(check, NotCheck)` guarding a recursive call on check.rule."""
    text = ast.unparse(fn)
    rules = "getattr(check, 'rules', None)" in text and \
        any(isinstance(n, ast.For) and ast.unparse(n.iter) == 'rules' and
            self_call in ast.unparse(n) for n in ast.walk(fn))
    under_not = False
    for n in ast.walk(fn):
        if isinstance(n, ast.If) and 'NotCheck' in ast.unparse(n.test) and \
                'isinstance(check' in ast.unparse(n.test):
            body = ast.unparse(n)
            if self_call + '(check.rule' in body:
                under_not = True
            else:
                raise Refuse('%s: NotCheck branch has an unknown shape' % fn.name)
    # any other attribute access on `check` is something we do not understand
    attrs = set()
    for n in ast.walk(fn):
        if isinstance(n, ast.Attribute) and isinstance(n.value, ast.Name) and n.value.id == 'check':
            attrs.add(n.attr)
        if isinstance(n, ast.Call) and ast.unparse(n.func) == 'getattr' and \
                ast.unparse(n.args[0]) == 'check':
            if not isinstance(n.args[1], ast.Constant):
                raise Refuse('%s: getattr with computed name' % fn.name)
            attrs.add(n.args[1].value)
    if not attrs <= {'match', 'rules', 'rule'}:
        raise Refuse('%s reads unknown attributes %s' % (fn.name, sorted(attrs)))
    if 'rule' in attrs and not under_not:
        raise Refuse('%s reads check.rule in an unknown way' % fn.name)
    return rules, under_not


def gen_policy():
    mod = parse('oslo_policy/policy.py')
    enf = find_class(mod, 'Enforcer')
    out = HEADER % 'oslo_policy/policy.py, _cache_handler.py, opts.py'
    out += 'From OP Require Import Base.DTree.\n\n'

    # ---- reference walkers (C13)
    und = find_func(enf.body, '_undefined_check')
    cyc = find_func(enf.body, '_cycle_check')
    u_rules, u_not = walker_facts(und, 'self._undefined_check')
    c_rules, c_not = walker_facts(cyc, 'self._cycle_check')
    ctext = ast.unparse(cyc)
    c_copy = any(isinstance(n, ast.For) and ast.unparse(n.iter) == 'rules' and
                 'self._cycle_check(rule, seen.copy())' in ast.unparse(n) for n in ast.walk(cyc))
    if not c_copy:
        raise Refuse('_cycle_check does not give each And/Or branch its own copy of seen')
    if 'seen.add(check.match)' not in ctext or 'if check.match in seen:' not in ctext:
        raise Refuse('_cycle_check seen-set handling has an unknown shape')
    b = lambda x: 'true' if x else 'false'
    out += '(* which children the reference walkers descend into *)\n'
    out += 'Definition undefined_descends_rules : bool := %s.\n' % b(u_rules)
    out += 'Definition undefined_descends_not : bool := %s.\n' % b(u_not)
    out += 'Definition cycle_descends_rules : bool := %s.\n' % b(c_rules)
    out += 'Definition cycle_descends_not : bool := %s.\n' % b(c_not)
    out += 'Definition cycle_copies_seen : bool := %s.\n\n' % b(c_copy)

    # ---- option defaults (opts.py)
    omod = parse('oslo_policy/opts.py')
    defaults = {}
    for n in ast.walk(omod):
        if isinstance(n, ast.Call) and ast.unparse(n.func).startswith('cfg.') and n.args and \
                isinstance(n.args[0], ast.Constant):
            d = None
            for kw in n.keywords:
                if kw.arg == 'default':
                    try:
                        d = ast.literal_eval(kw.value)
                    except Exception:
                        raise Refuse('option %s has a computed default' % n.args[0].value)
            defaults[n.args[0].value] = d
    for k in ('enforce_scope', 'enforce_new_defaults', 'policy_file', 'policy_default_rule',
              'policy_dirs'):
        if k not in defaults:
            raise Refuse('option %s not found' % k)
    out += 'Definition opt_enforce_scope_default : bool := %s.\n' % b(defaults['enforce_scope'])
    out += 'Definition opt_enforce_new_defaults_default : bool := %s.\n' % b(
        defaults['enforce_new_defaults'])
    out += 'Definition opt_policy_file_default : str := %s.\n' % coq_str(defaults['policy_file'])
    out += 'Definition opt_policy_default_rule_default : str := %s.\n' % coq_str(
        defaults['policy_default_rule'])
    out += 'Definition opt_policy_dirs_default : list str := %s.\n\n' % coq_list(
        [coq_str(x) for x in defaults['policy_dirs']])

    # ---- frame facts (C12): every statement that writes through a reference the function received
    sites = frame_sites(mod)
    out += '(* statements of policy.py that mutate an object reached from a parameter (not self) *)\n'
    out += 'Definition frame_sites : list str := %s.\n' % coq_list([coq_str(x) for x in sites])
    reg = ast.unparse(find_func(enf.body, 'register_default'))
    rd = ast.unparse(find_func(find_class(mod, 'RuleDefault').body, '__init__'))
    out += '(* the deep copies that keep caller-owned objects out of the enforcer *)\n'
    out += 'Definition register_copies : bool := %s.\n' % b(
        'self.registered_rules[default.name] = copy.deepcopy(default)' in reg)
    out += 'Definition ruledefault_copies_deprecated : bool := %s.\n\n' % b(
        'self._deprecated_rule = copy.deepcopy(deprecated_rule) or []' in rd)

    # ---- directory walk, directory-change detection, cached read (C09, C10): observed behaviour
    import probe
    out += '(* _walk_through_policy_directory: top level only, plain sort, dot-files skipped *)\n'
    out += 'Definition walk_shape_known : bool := %s.\n' % b(probe.walk_shape_known())
    out += '(* _is_directory_updated: newest mtime over the directory and ALL its entries, strict > *)\n'
    out += 'Definition dir_updated_shape_known : bool := %s.\n' % b(probe.dir_updated_shape_known())
    out += '(* read_cached_file: strict mtime comparison, (True, {}) for a missing file *)\n'
    out += 'Definition read_cached_shape_known : bool := %s.\n\n' % b(probe.read_cached_shape_known())

    # ---- shared-state write sites of the reload path (C20)
    wsites = reload_write_sites(mod)
    out += '(* statements that write the shared rule store / file-rule record / caches during load_rules *)\n'
    out += 'Definition reload_write_sites : list str := %s.\n\n' % coq_list([coq_str(x) for x in wsites])

    # ---- decision trees
    out += dtree.gen_trees(mod)
    return out


SHARED_ATTRS = ('rules', 'file_rules', '_file_cache', '_policy_dir_mtimes', 'policy_path', 'use_conf',
                '_need_check_rule', '_informed_no_policy_file')


def reload_funcs(enf):
    """the methods of Enforcer reachable from load_rules (called, or passed on as a bound method)"""
    methods = {n.name: n for n in enf.body if isinstance(n, ast.FunctionDef)}
    seen, todo = [], ['load_rules']
    while todo:
        name = todo.pop()
        if name in seen or name not in methods:
            continue
        seen.append(name)
        for n in ast.walk(methods[name]):
            if isinstance(n, ast.Attribute) and isinstance(n.value, ast.Name) and n.value.id in ('self', 'cls') \
                    and n.attr in methods:
                todo.append(n.attr)
    return [methods[n] for n in sorted(seen)]


def reload_site_nodes(mod):
    """(method, statement node, label) for every statement in the reload path that assigns to, or calls a
    mutator on, self.<shared attribute>; the label is the statement text (where it lives does not matter)"""
    enf = find_class(mod, 'Enforcer')
    out = []
    for fn in reload_funcs(enf):
        for n in ast.walk(fn):
            hit = False
            if isinstance(n, (ast.Assign, ast.AugAssign)):
                for t in (n.targets if isinstance(n, ast.Assign) else [n.target]):
                    base = t
                    while isinstance(base, (ast.Subscript,)):
                        base = base.value
                    if isinstance(base, ast.Attribute) and isinstance(base.value, ast.Name) and \
                            base.value.id == 'self' and base.attr in SHARED_ATTRS:
                        hit = True
            if isinstance(n, ast.Expr) and isinstance(n.value, ast.Call) and \
                    isinstance(n.value.func, ast.Attribute) and n.value.func.attr in MUTATORS:
                recv = n.value.func.value
                if isinstance(recv, ast.Attribute) and isinstance(recv.value, ast.Name) and \
                        recv.value.id == 'self' and recv.attr in SHARED_ATTRS:
                    hit = True
            if hit:
                out.append((fn, n, ast.unparse(n).splitlines()[0]))
    return out


def reload_write_sites(mod):
    return sorted(set(lab for _, _, lab in reload_site_nodes(mod)))


MUTATORS = {'append', 'extend', 'insert', 'remove', 'pop', 'clear', 'update', 'setdefault', 'add',
            'discard', 'add_check', 'pop_check', 'sort', 'reverse', 'popitem', '__setitem__',
            '__delitem__', '__setattr__'}


def root_name(node):
    while isinstance(node, (ast.Attribute, ast.Subscript, ast.Call)):
        node = node.value if not isinstance(node, ast.Call) else node.func
    return node.id if isinstance(node, ast.Name) else None


def frame_sites(mod):
    sites = []

    def visit_fn(fn, owner):
        params = {a.arg for a in fn.args.args + fn.args.kwonlyargs + fn.args.posonlyargs}
        if fn.args.vararg:
            params.add(fn.args.vararg.arg)
        if fn.args.kwarg:
            params.add(fn.args.kwarg.arg)
        params -= {'self', 'cls', 'mcs'}
        tainted = set(params)
        # objects reached from the registered defaults count as received objects too
        for n in ast.walk(fn):
            if isinstance(n, ast.For) and isinstance(n.target, ast.Name) and \
                    'self.registered_rules' in ast.unparse(n.iter):
                tainted.add(n.target.id)
            if isinstance(n, ast.Assign) and len(n.targets) == 1 and isinstance(n.targets[0], ast.Name) \
                    and 'self.registered_rules' in ast.unparse(n.value) and \
                    not ast.unparse(n.value).startswith('copy.deepcopy('):
                tainted.add(n.targets[0].id)
        changed = True
        while changed:
            changed = False
            for n in ast.walk(fn):
                if isinstance(n, ast.Assign) and len(n.targets) == 1 and isinstance(n.targets[0], ast.Name):
                    v = n.value
                    # an alias of (part of) a received object; a call result is a new object
                    # unless it is a plain accessor such as .get / [] / attribute
                    alias = isinstance(v, (ast.Attribute, ast.Subscript, ast.Name)) or (
                        isinstance(v, ast.Call) and isinstance(v.func, ast.Attribute) and
                        v.func.attr in ('get', 'setdefault'))
                    if alias and root_name(v) in tainted and n.targets[0].id not in tainted:
                        tainted.add(n.targets[0].id)
                        changed = True
                if isinstance(n, ast.For) and isinstance(n.target, ast.Name) and \
                        root_name(n.iter) in tainted and n.target.id not in tainted and \
                        isinstance(n.iter, (ast.Attribute, ast.Subscript, ast.Name, ast.Call)):
                    tainted.add(n.target.id)
                    changed = True
        for n in ast.walk(fn):
            if isinstance(n, (ast.FunctionDef, ast.Lambda)) and n is not fn:
                continue
            targets = []
            if isinstance(n, ast.Assign):
                targets = n.targets
            elif isinstance(n, (ast.AugAssign, ast.AnnAssign)):
                targets = [n.target]
            elif isinstance(n, ast.Delete):
                targets = n.targets
            for t in targets:
                if isinstance(t, (ast.Attribute, ast.Subscript)) and root_name(t) in tainted:
                    sites.append(ast.unparse(n).splitlines()[0])
            if isinstance(n, ast.Call) and isinstance(n.func, ast.Attribute) and \
                    n.func.attr in MUTATORS and root_name(n.func.value) in tainted:
                sites.append(ast.unparse(n).splitlines()[0])
    for node in mod.body:
        if isinstance(node, ast.FunctionDef):
            visit_fn(node, node.name)
        elif isinstance(node, ast.ClassDef):
            for m in node.body:
                if isinstance(m, ast.FunctionDef):
                    visit_fn(m, node.name + '.' + m.name)
    return sorted(set(sites))
