"""Gen/GChecks.v: printer formats, except-clause classes, registered kinds of _checks.py,
and the entry-point kinds of setup.cfg."""
import ast
import configparser
import os

from gen import Refuse, parse, find_class, find_func, coq_str, coq_list, HEADER, REPO

XCLASS = {'KeyError': 'XKeyError', 'TypeError': 'XTypeError', 'ValueError': 'XValueError',
          'SyntaxError': 'XSyntaxError', 'AttributeError': 'XAttributeError',
          'IndexError': 'XIndexError', 'LookupError': 'XLookupError',
          'RuntimeError': 'XRuntimeError', 'RecursionError': 'XRecursionError',
          'Exception': 'XException', 'BaseException': 'XBaseException'}


def handler_classes(handler):
    """except clause -> list of xclass constructor names"""
    t = handler.type
    if t is None:
        return ['XBaseException']
    elts = t.elts if isinstance(t, ast.Tuple) else [t]
    out = []
    for e in elts:
        nm = ast.unparse(e)
        if nm not in XCLASS:
            raise Refuse('except clause names unknown class %s' % nm)
        out.append(XCLASS[nm])
    return out


def tries_of(fn):
    """all try statements of a function, in source order, each with ONE handler group"""
    out = []
    for n in ast.walk(fn):
        if isinstance(n, ast.Try):
            out.append(n)
    out.sort(key=lambda n: n.lineno)
    return out


def str_method_format(cls, want_kind):
    fn = find_func(cls.body, '__str__')
    stmts = [s for s in fn.body if not (isinstance(s, ast.Expr) and
                                        isinstance(s.value, ast.Constant))]
    if len(stmts) != 1 or not isinstance(stmts[0], ast.Return):
        raise Refuse('%s.__str__ is not a single return' % cls.name)
    v = stmts[0].value
    if want_kind == 'const':
        if isinstance(v, ast.Constant) and isinstance(v.value, str):
            return v.value
    elif want_kind == 'leaf':
        # '{}:{}'.format(self.kind, self.match)
        if isinstance(v, ast.Call) and isinstance(v.func, ast.Attribute) and v.func.attr == 'format' \
                and isinstance(v.func.value, ast.Constant) and \
                [ast.unparse(a) for a in v.args] == ['self.kind', 'self.match'] and not v.keywords:
            fmt = v.func.value.value
            parts = fmt.split('{}')
            if len(parts) == 3 and '{' not in fmt.replace('{}', '') and '}' not in fmt.replace('{}', ''):
                return parts
        # f'{self.kind}:{self.match}'
        if isinstance(v, ast.JoinedStr):
            parts, cur, fields = [], '', []
            for p in v.values:
                if isinstance(p, ast.Constant):
                    cur += p.value
                elif isinstance(p, ast.FormattedValue) and p.conversion == -1 and p.format_spec is None:
                    parts.append(cur)
                    cur = ''
                    fields.append(ast.unparse(p.value))
                else:
                    raise Refuse('Check.__str__ f-string has an unknown shape')
            parts.append(cur)
            if fields == ['self.kind', 'self.match']:
                return parts
    elif want_kind == 'not':
        # 'not %s' % self.rule
        if isinstance(v, ast.BinOp) and isinstance(v.op, ast.Mod) and \
                isinstance(v.left, ast.Constant) and ast.unparse(v.right) == 'self.rule':
            parts = v.left.value.split('%s')
            if len(parts) == 2 and '%' not in parts[0] + parts[1]:
                return parts
    elif want_kind == 'join':
        # '(%s)' % ' and '.join((str(r) for r in self.rules))
        if isinstance(v, ast.BinOp) and isinstance(v.op, ast.Mod) and isinstance(v.left, ast.Constant):
            parts = v.left.value.split('%s')
            r = v.right
            if len(parts) == 2 and '%' not in parts[0] + parts[1] and isinstance(r, ast.Call) and \
                    isinstance(r.func, ast.Attribute) and r.func.attr == 'join' and \
                    isinstance(r.func.value, ast.Constant) and len(r.args) == 1 and \
                    ast.unparse(r.args[0]) in ('(str(r) for r in self.rules)',
                                               '[str(r) for r in self.rules]',
                                               'map(str, self.rules)'):
                return [parts[0], r.func.value.value, parts[1]]
    raise Refuse('%s.__str__ has an unknown shape: %s' % (cls.name, ast.unparse(v)))


def gen_checks():
    """printer formats, registered kinds, handler classes, reply test: read off the imported
    implementation by observation (gen/probe.py); entry points from setup.cfg"""
    import probe
    out = HEADER % 'oslo_policy/_checks.py, _external.py (imported and probed), setup.cfg'
    f_false, f_true, f_leaf, f_not, f_and, f_or = probe.printer_formats()
    out += 'Definition fmt_false : str := %s.\n' % coq_str(f_false)
    out += 'Definition fmt_true : str := %s.\n' % coq_str(f_true)
    out += 'Definition fmt_leaf : str * str * str := (%s, %s, %s).\n' % tuple(map(coq_str, f_leaf))
    out += 'Definition fmt_not : str * str := (%s, %s).\n' % tuple(map(coq_str, f_not))
    out += 'Definition fmt_and : str * str * str := (%s, %s, %s).\n' % tuple(map(coq_str, f_and))
    out += 'Definition fmt_or : str * str * str := (%s, %s, %s).\n\n' % tuple(map(coq_str, f_or))

    reg = probe.registered_kinds()
    out += '(* _checks.registered_checks ;  None is the fallback handler *)\n'
    out += 'Definition registered : list (option str * kcls) := %s.\n' % coq_list(
        ['(%s, %s)' % ('None' if nm is None else 'Some %s' % coq_str(nm), c) for nm, c in reg])
    cp = configparser.ConfigParser()
    cp.read(os.path.join(REPO, 'setup.cfg'))
    eps = []
    if cp.has_option('entry_points', 'oslo.policy.rule_checks'):
        for line in cp.get('entry_points', 'oslo.policy.rule_checks').strip().splitlines():
            if not line.strip():
                continue
            k, v = [x.strip() for x in line.split('=', 1)]
            cls = v.split(':')[-1]
            m = {'HttpCheck': 'KHttp', 'HttpsCheck': 'KHttps'}
            if cls not in m:
                raise Refuse('unknown extension check %s' % v)
            eps.append((k, m[cls]))
    out += 'Definition extensions : list (str * kcls) := %s.\n\n' % coq_list(
        ['(%s, %s)' % (coq_str(k), c) for k, c in eps])

    out += '(* HttpCheck/HttpsCheck: body stripped of double quotes at both ENDS must equal True; Timeout -> RuntimeError *)\n'
    out += 'Definition reply_test_known : bool := %s.\n\n' % ('true' if probe.reply_test_known() else 'false')

    out += '(* exception classes each handler turns into a deny (observed by injection) *)\n'
    hs = probe.handler_classes()
    for nm in ('catch_rule', 'catch_role_subst', 'catch_generic_subst', 'catch_generic_literal',
               'catch_find_in_dict'):
        out += 'Definition %s : list xclass := %s.\n' % (nm, coq_list(hs[nm]))
    return out
