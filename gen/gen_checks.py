"""Gen/GChecks.v: printer formats, except-clause classes, registered kinds of _checks.py,
and the entry-point kinds of setup.cfg."""
import ast
import configparser
import os

from gen import Refuse, parse, find_class, find_func, coq_str, coq_list, HEADER, REPO

XCLASS = {'KeyError': 'XKeyError', 'TypeError': 'XTypeError', 'ValueError': 'XValueError',
          'SyntaxError': 'XSyntaxError', 'AttributeError': 'XAttributeError',
          'IndexError': 'XIndexError', 'LookupError': 'XLookupError',
          'RuntimeError': 'XRuntimeError', 'RecursionError': 'XRecursionError',
          'Exception': 'XException', 'BaseException': 'XBaseException'}


def handler_classes(handler):
    """except clause -> list of xclass constructor names"""
    t = handler.type
    if t is None:
        return ['XBaseException']
    elts = t.elts if isinstance(t, ast.Tuple) else [t]
    out = []
    for e in elts:
        nm = ast.unparse(e)
        if nm not in XCLASS:
            raise Refuse('except clause names unknown class %s' % nm)
        out.append(XCLASS[nm])
    return out


def tries_of(fn):
    """all try statements of a function, in source order, each with ONE handler group"""
    out = []
    for n in ast.walk(fn):
        if isinstance(n, ast.Try):
            out.append(n)
    out.sort(key=lambda n: n.lineno)
    return out


def str_method_format(cls, want_kind):
    fn = find_func(cls.body, '__str__')
    stmts = [s for s in fn.body if not (isinstance(s, ast.Expr) and
                                        isinstance(s.value, ast.Constant))]
    if len(stmts) != 1 or not isinstance(stmts[0], ast.Return):
        raise Refuse('%s.__str__ is not a single return' % cls.name)
    v = stmts[0].value
    if want_kind == 'const':
        if isinstance(v, ast.Constant) and isinstance(v.value, str):
            return v.value
    elif want_kind == 'leaf':
        # '{}:{}'.format(self.kind, self.match)
        if isinstance(v, ast.Call) and isinstance(v.func, ast.Attribute) and v.func.attr == 'format' \
                and isinstance(v.func.value, ast.Constant) and \
                [ast.unparse(a) for a in v.args] == ['self.kind', 'self.match'] and not v.keywords:
            fmt = v.func.value.value
            parts = fmt.split('{}')
            if len(parts) == 3 and '{' not in fmt.replace('{}', '') and '}' not in fmt.replace('{}', ''):
                return parts
        # f'{self.kind}:{self.match}'
        if isinstance(v, ast.JoinedStr):
            parts, cur, fields = [], '', []
            for p in v.values:
                if isinstance(p, ast.Constant):
                    cur += p.value
                elif isinstance(p, ast.FormattedValue) and p.conversion == -1 and p.format_spec is None:
                    parts.append(cur)
                    cur = ''
                    fields.append(ast.unparse(p.value))
                else:
                    raise Refuse('Check.__str__ f-string has an unknown shape')
            parts.append(cur)
            if fields == ['self.kind', 'self.match']:
                return parts
    elif want_kind == 'not':
        # 'not %s' % self.rule
        if isinstance(v, ast.BinOp) and isinstance(v.op, ast.Mod) and \
                isinstance(v.left, ast.Constant) and ast.unparse(v.right) == 'self.rule':
            parts = v.left.value.split('%s')
            if len(parts) == 2 and '%' not in parts[0] + parts[1]:
                return parts
    elif want_kind == 'join':
        # '(%s)' % ' and '.join((str(r) for r in self.rules))
        if isinstance(v, ast.BinOp) and isinstance(v.op, ast.Mod) and isinstance(v.left, ast.Constant):
            parts = v.left.value.split('%s')
            r = v.right
            if len(parts) == 2 and '%' not in parts[0] + parts[1] and isinstance(r, ast.Call) and \
                    isinstance(r.func, ast.Attribute) and r.func.attr == 'join' and \
                    isinstance(r.func.value, ast.Constant) and len(r.args) == 1 and \
                    ast.unparse(r.args[0]) in ('(str(r) for r in self.rules)',
                                               '[str(r) for r in self.rules]',
                                               'map(str, self.rules)'):
                return [parts[0], r.func.value.value, parts[1]]
    raise Refuse('%s.__str__ has an unknown shape: %s' % (cls.name, ast.unparse(v)))


def gen_checks():
    mod = parse('oslo_policy/_checks.py')
    out = HEADER % 'oslo_policy/_checks.py, setup.cfg'

    # ---- printers
    f_false = str_method_format(find_class(mod, 'FalseCheck'), 'const')
    f_true = str_method_format(find_class(mod, 'TrueCheck'), 'const')
    f_leaf = str_method_format(find_class(mod, 'Check'), 'leaf')
    f_not = str_method_format(find_class(mod, 'NotCheck'), 'not')
    f_and = str_method_format(find_class(mod, 'AndCheck'), 'join')
    f_or = str_method_format(find_class(mod, 'OrCheck'), 'join')
    out += 'Definition fmt_false : str := %s.\n' % coq_str(f_false)
    out += 'Definition fmt_true : str := %s.\n' % coq_str(f_true)
    out += 'Definition fmt_leaf : str * str * str := (%s, %s, %s).\n' % tuple(map(coq_str, f_leaf))
    out += 'Definition fmt_not : str * str := (%s, %s).\n' % tuple(map(coq_str, f_not))
    out += 'Definition fmt_and : str * str * str := (%s, %s, %s).\n' % tuple(map(coq_str, f_and))
    out += 'Definition fmt_or : str * str * str := (%s, %s, %s).\n\n' % tuple(map(coq_str, f_or))

    # ---- registered kinds
    reg = []
    for n in mod.body:
        if isinstance(n, ast.ClassDef):
            for dec in n.decorator_list:
                if isinstance(dec, ast.Call) and ast.unparse(dec.func) == 'register':
                    if len(dec.args) != 1 or not isinstance(dec.args[0], ast.Constant):
                        raise Refuse('register() with a non-literal name')
                    reg.append((dec.args[0].value, n.name))
    known = {'RuleCheck': 'KRule', 'RoleCheck': 'KRole', 'GenericCheck': 'KGeneric'}
    for nm, cls in reg:
        if cls not in known:
            raise Refuse('unknown registered check class %s' % cls)
        if nm is not None and not isinstance(nm, str):
            raise Refuse('register() name is neither a string nor None')
    out += '(* @register(name) class ... ;  None is the fallback handler *)\n'
    out += 'Definition registered : list (option str * kcls) := %s.\n' % coq_list(
        ['(%s, %s)' % ('None' if nm is None else 'Some %s' % coq_str(nm), known[cls])
         for nm, cls in reg])
    # entry points (stevedore extension checks take precedence over registered ones)
    cp = configparser.ConfigParser()
    cp.read(os.path.join(REPO, 'setup.cfg'))
    eps = []
    if cp.has_option('entry_points', 'oslo.policy.rule_checks'):
        for line in cp.get('entry_points', 'oslo.policy.rule_checks').strip().splitlines():
            if not line.strip():
                continue
            k, v = [x.strip() for x in line.split('=', 1)]
            cls = v.split(':')[-1]
            m = {'HttpCheck': 'KHttp', 'HttpsCheck': 'KHttps'}
            if cls not in m:
                raise Refuse('unknown extension check %s' % v)
            eps.append((k, m[cls]))
    out += 'Definition extensions : list (str * kcls) := %s.\n\n' % coq_list(
        ['(%s, %s)' % (coq_str(k), c) for k, c in eps])

    # ---- except clauses
    def one_handler(fn, idx, what):
        ts = tries_of(fn)
        if len(ts) <= idx:
            raise Refuse('%s: expected try statement #%d' % (what, idx))
        t = ts[idx]
        if len(t.handlers) != 1 or t.orelse or t.finalbody:
            raise Refuse('%s: try statement has an unknown shape' % what)
        return handler_classes(t.handlers[0]), t

    rulec = find_func(find_class(mod, 'RuleCheck').body, '__call__')
    rolec = find_func(find_class(mod, 'RoleCheck').body, '__call__')
    genc = find_class(mod, 'GenericCheck')
    gcall = find_func(genc.body, '__call__')
    gfind = find_func(genc.body, '_find_in_dict')
    if len(tries_of(rulec)) != 1 or len(tries_of(rolec)) != 1 or len(tries_of(gcall)) != 2 \
            or len(tries_of(gfind)) != 1:
        raise Refuse('number of try statements in the check classes changed')
    h_rule, t = one_handler(rulec, 0, 'RuleCheck.__call__')
    if ast.unparse(t.handlers[0].body[-1]) != 'return False':
        raise Refuse('RuleCheck handler does not return False')
    h_role, t = one_handler(rolec, 0, 'RoleCheck.__call__')
    if ast.unparse(t.handlers[0].body[-1]) != 'return False' or \
            ast.unparse(t.body[0]) != 'match = self.match % target':
        raise Refuse('RoleCheck substitution handler has an unknown shape')
    h_gsub, t = one_handler(gcall, 0, 'GenericCheck.__call__ (substitution)')
    if ast.unparse(t.handlers[0].body[-1]) != 'return False' or \
            ast.unparse(t.body[0]) != 'match = self.match % target':
        raise Refuse('GenericCheck substitution handler has an unknown shape')
    h_glit, t = one_handler(gcall, 1, 'GenericCheck.__call__ (literal)')
    if ast.unparse(t.handlers[0].body[-1]) != 'pass' or \
            'ast.literal_eval(self.kind)' not in ast.unparse(t.body[0]):
        raise Refuse('GenericCheck literal handler has an unknown shape')
    h_find, t = one_handler(gfind, 0, 'GenericCheck._find_in_dict')
    if ast.unparse(t.handlers[0].body[-1]) != 'return False' or \
            ast.unparse(t.body[0]) != 'test_value = test_value[key]':
        raise Refuse('_find_in_dict handler has an unknown shape')
    # ---- _external.py: the reply test and the Timeout conversion
    emod = parse('oslo_policy/_external.py')
    ok_reply = True
    for cname in ('HttpCheck', 'HttpsCheck'):
        call = ast.unparse(find_func(find_class(emod, cname).body, '__call__'))
        if call.count("return r.text.lstrip('\"').rstrip('\"') == 'True'") != 1 or \
                "except Timeout:\n        raise RuntimeError('Timeout in REST API call')" not in call:
            ok_reply = False
    out += '(* HttpCheck/HttpsCheck: body stripped of double quotes at both ENDS must equal True *)\n'
    out += 'Definition reply_test_known : bool := %s.\n\n' % ('true' if ok_reply else 'false')

    out += '(* classes named in the except clauses *)\n'
    for nm, h in (('catch_rule', h_rule), ('catch_role_subst', h_role),
                  ('catch_generic_subst', h_gsub), ('catch_generic_literal', h_glit),
                  ('catch_find_in_dict', h_find)):
        out += 'Definition %s : list xclass := %s.\n' % (nm, coq_list(h))
    return out
