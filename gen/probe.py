"""Facts read off the implementation by OBSERVATION (the code under /repo is imported and probed),
used where reading the syntax would make the translator refuse harmless rewrites.  Every probe is a
small fixed experiment whose expected outcome is what the Coq model hard-codes; an unexpected
outcome is a refusal (or a generated flag), never a guess."""
import logging
import os
import shutil
import sys
import tempfile

_WORK = os.path.join(os.path.dirname(os.path.dirname(os.path.abspath(__file__))), '_work')

from gen import Refuse, REPO, TK, METH


def _mkd():
    os.makedirs(_WORK, exist_ok=True)
    return tempfile.mkdtemp(prefix='probe_', dir=_WORK)


def impl():
    if sys.path[0] != REPO:
        sys.path.insert(0, REPO)
    logging.disable(logging.CRITICAL)
    import warnings
    warnings.simplefilter('ignore')
    import oslo_policy
    got = os.path.dirname(os.path.dirname(os.path.abspath(oslo_policy.__file__)))
    if os.path.realpath(got) != os.path.realpath(REPO):
        raise Refuse('oslo_policy imported from %s, not %s' % (got, REPO))
    from oslo_policy import _parser, _checks, policy
    return _parser, _checks, policy


# ------------------------------------------------------------------------------ parser
def reducer_table():
    _parser, _checks, _ = impl()
    table = []
    for pat, name in _parser.ParseState.reducers:
        if name not in METH:
            raise Refuse('unknown reducer method %s' % name)
        pat = list(pat)
        if not pat or any(t not in TK for t in pat):
            raise Refuse('reducer pattern %r of %s has an unknown token kind' % (pat, name))
        table.append((pat, name))
    return table


def string_constants(fn_name):
    """all string constants occurring in the source of a module-level function of _parser.py"""
    import ast
    from gen import parse, find_func
    fn = find_func(parse('oslo_policy/_parser.py').body, fn_name)
    return [n.value for n in ast.walk(fn) if isinstance(n, ast.Constant) and isinstance(n.value, str)]


def tokenizer_facts():
    _parser, _checks, _ = impl()
    consts = string_constants('_parse_tokenize')
    tok = lambda s: [(k, v if isinstance(v, str) else type(v).__name__) for k, v in _parser._parse_tokenize(s)]
    # keywords: any constant (or usual suspect) that tokenizes to a token of its own kind
    cands = {c.lower() for c in consts if c and not any(ch.isspace() for ch in c) and c not in '()'}
    cands |= {'and', 'or', 'not', 'xor', 'nor', 'nand', 'if', 'in', 'is', 'true', 'false', 'none', 'all', 'any'}
    keywords = []
    for c in sorted(cands, key=lambda x: (['and', 'or', 'not'].index(x) if x in ('and', 'or', 'not') else 9, x)):
        t = tok(c)
        if len(t) == 1 and t[0][0] == c and c not in ('check', 'string'):
            # any letter case must give the same token
            if tok(c.upper()) != [(c, c.upper())]:
                raise Refuse('keyword %r is not case-insensitive' % c)
            keywords.append(c)
    if sorted(keywords) != sorted(['and', 'or', 'not']):
        if any(k not in ('and', 'or', 'not') for k in keywords):
            raise Refuse('unknown keywords %r' % keywords)
    # quote pairs
    chars = sorted({c for c in consts if len(c) == 1} | {'"', "'", '`'})
    pairs = []
    for a in chars:
        for b in chars:
            if a in '()' or b in '()' or a.isspace() or b.isspace():
                continue
            if tok(a + 'xx' + b) == [('string', 'xx')]:
                pairs.append((a, b))
                # the shortest quoted string is the empty one (two characters)
                if tok(a + b) != [('string', '')] or tok(a) != [('check', 'FalseCheck')]:
                    raise Refuse('quoted-string length bound changed: %r tokenizes as %r' % (a + b, tok(a + b)))
    # is the quote test made after stripping trailing parentheses?
    probe = tok('("ab")')
    if probe == [('(', '('), ('string', 'ab'), (')', ')')]:
        on_clean = True
    elif len(probe) == 3 and probe[1][0] == 'check':
        on_clean = False
    else:
        raise Refuse('quoted word inside parentheses tokenizes as %r' % (probe,))
    # what separates tokens: exactly the characters of \s (any run of them), by observation
    import re as _re
    import sys as _sys
    ws = [chr(c) for c in range(_sys.maxunicode + 1) if not (0xD800 <= c < 0xE000) and _re.match(r'\s', chr(c))]
    others = ['_', '-', ',', ';', '\u200b', '\ufeff', '\x00', '\x1b', '\x7f', '\u2060', '\u180e', '\u00ad']
    for ch in ws + others:
        split = len(tok('a:b' + ch + 'c:d')) == 2
        if split != (ch in ws):
            raise Refuse('token separator behaviour changed at U+%04X' % ord(ch))
    if len(tok('a:b \t\n  c:d')) != 2 or len(tok(' \t a:b')) != 1:
        raise Refuse('runs of white space no longer collapse')
    # parentheses peeling and empty pieces
    if tok('  ((a:b))  ') != [('(', '('), ('(', '('), ('check', 'GenericCheck'), (')', ')'), (')', ')')] or \
            tok('( )') != [('(', '('), (')', ')')] or tok('') != []:
        raise Refuse('parenthesis peeling of the tokenizer changed')
    return keywords, pairs, on_clean


def result_rejects():
    _parser, _checks, _ = impl()
    out = []
    for k in TK:
        st = _parser.ParseState()
        st.tokens, st.values = [k], ['v']
        try:
            st.result
        except ValueError:
            out.append(k)
    # more or fewer than one value is always rejected
    for toks in ([], ['check', 'check']):
        st = _parser.ParseState()
        st.tokens, st.values = list(toks), ['v'] * len(toks)
        try:
            st.result
            raise Refuse('ParseState.result accepts %d values' % len(toks))
        except ValueError:
            pass
    return out


def list_rule_validates():
    _parser, _checks, _ = impl()
    bad = [None, False, 0, 5, 2.5, {}, {'a': 1}, [None], [0], [5], [{'a': 1}], [['a:b', 5]], [[['a:b']]],
           [['a:b'], None], [True]]
    res = []
    for v in bad:
        try:
            res.append(type(_parser._parse_list_rule(v)) is _checks.FalseCheck)
        except Exception:   # noqa
            res.append(False)
    if all(res):
        return True
    return False


def parse_check_facts():
    _parser, _checks, _ = impl()
    pc = _parser._parse_check
    if type(pc('!')) is not _checks.FalseCheck or type(pc('@')) is not _checks.TrueCheck:
        raise Refuse("'!' / '@' are not the constant checks")
    c = pc('k:m:n')
    if not (isinstance(c, _checks.Check) and c.kind == 'k' and c.match == 'm:n'):
        raise Refuse('_parse_check does not split at the first colon')
    if type(pc('nocolon')) is not _checks.FalseCheck or type(pc('')) is not _checks.FalseCheck:
        raise Refuse('a check without a colon is not the always-deny check')
    # dispatch order: extension > registered > None-fallback > deny
    class Ext(_checks.Check):
        def __call__(self, *a, **k):
            return True

    class Reg(_checks.Check):
        def __call__(self, *a, **k):
            return True
    saved_ext, saved_reg = _checks.extension_checks, dict(_checks.registered_checks)
    try:
        _checks.get_extensions()
        _checks.extension_checks = dict(_checks.extension_checks or {})
        _checks.extension_checks['zz_probe'] = Ext
        _checks.registered_checks['zz_probe'] = Reg
        order = [type(pc('zz_probe:x')).__name__]
        del _checks.extension_checks['zz_probe']
        order.append(type(pc('zz_probe:x')).__name__)
        del _checks.registered_checks['zz_probe']
        order.append(type(pc('zz_probe:x')).__name__)
        fallback = _checks.registered_checks.pop(None, None)
        order.append(type(pc('zz_probe:x')).__name__)
        if fallback is not None:
            _checks.registered_checks[None] = fallback
    finally:
        _checks.extension_checks = saved_ext
        _checks.registered_checks.clear()
        _checks.registered_checks.update(saved_reg)
    want = ['Ext', 'Reg', saved_reg.get(None).__name__ if saved_reg.get(None) else 'FalseCheck', 'FalseCheck']
    if order != want:
        raise Refuse('_parse_check dispatch order is %r, expected %r' % (order, want))


# ------------------------------------------------------------------------------ checks
def printer_formats():
    _parser, _checks, _ = impl()
    f_false, f_true = str(_checks.FalseCheck()), str(_checks.TrueCheck())
    leaf = str(_checks.GenericCheck('KIND', 'MATCH'))
    if leaf.count('KIND') != 1 or leaf.count('MATCH') != 1 or leaf.index('KIND') > leaf.index('MATCH'):
        raise Refuse('Check.__str__ gives %r' % leaf)
    a, rest = leaf.split('KIND')
    b, c = rest.split('MATCH')
    inner = _checks.GenericCheck('K', 'M')
    si = str(inner)
    n = str(_checks.NotCheck(inner))
    if n.count(si) != 1:
        raise Refuse('NotCheck.__str__ gives %r' % n)
    n_pre, n_suf = n.split(si)

    def join_fmt(cls):
        x, y, z = _checks.GenericCheck('A', '1'), _checks.GenericCheck('B', '2'), _checks.GenericCheck('C', '3')
        s3 = str(cls([x, y, z]))
        sx, sy, sz = str(x), str(y), str(z)
        i, j, k = s3.find(sx), s3.find(sy), s3.find(sz)
        if min(i, j, k) < 0 or not i < j < k:
            raise Refuse('%s.__str__ gives %r' % (cls.__name__, s3))
        op, sep1, sep2, cl = s3[:i], s3[i + len(sx):j], s3[j + len(sy):k], s3[k + len(sz):]
        if sep1 != sep2 or str(cls([x])) != op + sx + cl or str(cls([])) != op + cl:
            raise Refuse('%s.__str__ is not open + sep.join + close' % cls.__name__)
        return [op, sep1, cl]
    return f_false, f_true, [a, b, c], [n_pre, n_suf], join_fmt(_checks.AndCheck), join_fmt(_checks.OrCheck)


EXC_UNIVERSE = [('XKeyError', KeyError), ('XTypeError', TypeError), ('XValueError', ValueError),
                ('XSyntaxError', SyntaxError), ('XAttributeError', AttributeError), ('XIndexError', IndexError),
                ('XRuntimeError', RuntimeError), ('XRecursionError', RecursionError)]


class Zed(Exception):
    pass


def _caught(run):
    """which exception classes does the code under test turn into a plain deny?"""
    out = []
    for name, cls in EXC_UNIVERSE + [('XException', Zed)]:
        try:
            r = run(cls)
        except cls:
            continue
        except Exception as e:   # noqa
            raise Refuse('probe raised %s while injecting %s' % (type(e).__name__, cls.__name__))
        if r is not False:
            raise Refuse('handler for %s does not deny (returned %r)' % (cls.__name__, r))
        out.append(name)
    if 'XException' in out:
        return ['XException']
    return out


def handler_classes():
    _parser, _checks, _ = impl()
    import ast as _ast

    class Enf:
        def __init__(self, rules):
            self.rules = rules

    def rule_probe(cls):
        class R(dict):
            def __getitem__(self, k):
                raise cls('probe')
        return _checks.RuleCheck('rule', 'x')({}, {}, Enf(R()))

    class Mod:
        def __init__(self, cls):
            self.cls = cls

        def __mod__(self, other):
            raise self.cls('probe')

    def role_probe(cls):
        return _checks.RoleCheck('role', Mod(cls))({}, {'roles': []}, None)

    def gsub_probe(cls):
        return _checks.GenericCheck('a', Mod(cls))({}, {}, None)

    def glit_probe(cls):
        saved = _checks.ast.literal_eval

        def boom(x):
            raise cls('probe')
        _checks.ast.literal_eval = boom
        try:
            return _checks.GenericCheck('nosuchkey', 'm')({}, {}, None)
        finally:
            _checks.ast.literal_eval = saved

    def find_probe(cls):
        class C(dict):
            def __getitem__(self, k):
                raise cls('probe')
        return _checks.GenericCheck('a.b', 'm')({}, C(), None)
    return {'catch_rule': _caught(rule_probe), 'catch_role_subst': _caught(role_probe),
            'catch_generic_subst': _caught(gsub_probe), 'catch_generic_literal': _caught(glit_probe),
            'catch_find_in_dict': _caught(find_probe)}


def registered_kinds():
    _parser, _checks, _ = impl()
    known = {'RuleCheck': 'KRule', 'RoleCheck': 'KRole', 'GenericCheck': 'KGeneric'}
    out = []
    for name, cls in _checks.registered_checks.items():
        if cls.__name__.startswith('Custom_') or cls.__module__ != 'oslo_policy._checks':
            continue
        if cls.__name__ not in known:
            raise Refuse('unknown registered check class %s' % cls.__name__)
        out.append((name, known[cls.__name__]))
    return out


def reply_test_known():
    _parser, _checks, _ = impl()
    from oslo_policy import _external
    import requests

    class Conf:
        class oslo_policy:
            remote_timeout = 1
            remote_content_type = 'application/json'
            remote_ssl_client_crt_file = None
            remote_ssl_client_key_file = None
            remote_ssl_ca_crt_file = None
            remote_ssl_verify_server_crt = False

    class Enf:
        conf = Conf

    class Reply:
        def __init__(self, t):
            self.text = t

        def close(self):
            pass
    saved = _external.requests.post
    ok = True
    try:
        for cls, scheme in ((_external.HttpCheck, 'http'), (_external.HttpsCheck, 'https')):
            for body, want in [('True', True), ('"True"', True), ('""True"""', True), ('T"rue', False), (' True', False),
                               ('true', False), ('', False), ('"', False), ('True\n', False), ('"Tr"ue"', False)]:
                _external.requests.post = lambda *a, **k: Reply(body)
                if bool(cls(scheme, '//h/p')({}, {}, Enf, 'r')) != want:
                    ok = False

            def timeout(*a, **k):
                raise requests.exceptions.Timeout('x')
            _external.requests.post = timeout
            try:
                cls(scheme, '//h/p')({}, {}, Enf, 'r')
                ok = False
            except RuntimeError:
                pass
    finally:
        _external.requests.post = saved
    return ok


# ------------------------------------------------------------------------------ loader shapes
def _find_loader_helper(policy, usual, marks):
    """the helper under its usual name (a static method of Enforcer), or -- should a maintainer have moved or renamed
    it -- the one private callable of the module / class whose source carries all the marks; refuses otherwise"""
    import inspect
    f = getattr(policy.Enforcer, usual, None) or getattr(policy, usual, None)
    if f is not None:
        return f
    cands = []
    for owner in (policy.Enforcer, policy):
        for name, obj in list(vars(owner).items()):
            fn = obj.__func__ if isinstance(obj, (staticmethod, classmethod)) else obj
            if not inspect.isfunction(fn) or not name.startswith('_') or name.startswith('__'):
                continue
            try:
                src = inspect.getsource(fn)
            except (OSError, TypeError):
                continue
            if all(m in src for m in marks):
                cands.append(getattr(owner, name))
    if len(cands) != 1:
        raise Refuse('cannot locate the helper usually called %s (%d candidates)' % (usual, len(cands)))
    return cands[0]


def walk_shape_known():
    _parser, _checks, policy = impl()
    d = _mkd()
    try:
        for fn in ('b', 'B', '.h', 'a', '10', '2', '_u'):
            open(os.path.join(d, fn), 'w').write('{}')
        os.mkdir(os.path.join(d, 's'))
        open(os.path.join(d, 's', 'inner'), 'w').write('{}')
        seen = []
        walk = _find_loader_helper(policy, '_walk_through_policy_directory', ('not a directory', 'startswith'))
        walk(d, lambda p, *a: seen.append((os.path.basename(p), a)), 1, 2)
        ok = seen == [(n, (1, 2)) for n in ['10', '2', 'B', '_u', 'a', 'b']]
        try:
            walk(os.path.join(d, 'a'), lambda p: None)
            ok = False
        except ValueError:
            pass
        return ok
    finally:
        shutil.rmtree(d, ignore_errors=True)


def dir_updated_shape_known():
    _parser, _checks, policy = impl()
    d = _mkd()
    f = _find_loader_helper(policy, '_is_directory_updated', ('getmtime', 'listdir'))
    try:
        p = os.path.join(d, 'dir')
        os.mkdir(p)
        a = os.path.join(p, 'a')
        open(a, 'w').write('x')

        def stamp(path, t):
            os.utime(path, (t, t))
        stamp(a, 50)
        stamp(p, 100)
        cache = {}
        steps = []
        steps.append((f(cache, p), cache[p].get('mtime')))         # True, 100 (the directory itself is newest)
        steps.append((f(cache, p), cache[p].get('mtime')))         # False
        stamp(a, 150)
        steps.append((f(cache, p), cache[p].get('mtime')))         # True, 150
        stamp(a, 150)
        steps.append((f(cache, p), cache[p].get('mtime')))         # False (equal is not newer)
        h = os.path.join(p, '.hidden')
        open(h, 'w').write('x')
        stamp(h, 200)
        stamp(p, 100)
        steps.append((f(cache, p), cache[p].get('mtime')))         # True, 200 (dot-files count)
        s = os.path.join(p, 'sub')
        os.mkdir(s)
        stamp(s, 300)
        stamp(p, 100)
        steps.append((f(cache, p), cache[p].get('mtime')))         # True, 300 (sub-directories count)
        stamp(a, 10)
        steps.append((f(cache, p), cache[p].get('mtime')))         # False (older)
        missing = os.path.join(d, 'missing')
        c2 = {}
        steps.append((f(c2, missing), c2.get(missing)))            # False, {}
        want = [(True, 100), (False, 100), (True, 150), (False, 150), (True, 200), (True, 300), (False, 300),
                (False, {})]
        ok = steps == want
        try:
            f({}, a)
            ok = False
        except ValueError:
            pass
        return ok
    finally:
        shutil.rmtree(d, ignore_errors=True)


def read_cached_shape_known():
    impl()
    from oslo_policy import _cache_handler
    d = _mkd()
    f = _cache_handler.read_cached_file
    try:
        p = os.path.join(d, 'f')
        cache = {}
        steps = [f(cache, p), dict(cache)]                           # (True, {}), cache untouched
        open(p, 'w').write('one')
        os.utime(p, (100, 100))
        steps.append(f(cache, p))                                    # (True, 'one')
        steps.append(f(cache, p))                                    # (False, 'one')
        open(p, 'w').write('two')
        os.utime(p, (100, 100))
        steps.append(f(cache, p))                                    # (False, 'one')  same stamp: not re-read
        os.utime(p, (150, 150))
        steps.append(f(cache, p))                                    # (True, 'two')
        os.utime(p, (120, 120))
        open(p, 'w').write('three')
        os.utime(p, (120, 120))
        steps.append(f(cache, p))                                    # (False, 'two')  older stamp
        steps.append(f(cache, p, force_reload=True))                 # (True, 'three')
        os.remove(p)
        before = {k: dict(v) for k, v in cache.items()}
        steps.append(f(cache, p))                                    # (True, {})
        steps.append({k: dict(v) for k, v in cache.items()} == before)
        want = [(True, {}), {}, (True, 'one'), (False, 'one'), (False, 'one'), (True, 'two'), (False, 'two'),
                (True, 'three'), (True, {}), True]
        return steps == want
    finally:
        shutil.rmtree(d, ignore_errors=True)
